import Casm.Proofs.Corner
/-!
# Casm.Proofs.CornerLast — a stable pass of any kind leaves a fixed point of the non-first pass of the same kind

`Corner` with the "last pass" flag as a parameter and the messages carried along: if a pass (first or
not, strict or guessing) reports "stable", then the non-first pass with the same strictness, run on the
resulting state, returns that state, stable, with the same messages.  For the strict first pass of a
budget of one this is the fixed-point property of C02 at the budget the other theorems exclude.
-/
namespace Casm

theorem chooseEncoding_some_quiet (g : Bool) (rs : List Resolution) (l : List (Nat × BI)) (r : List String)
    (h : chooseEncoding g rs = (some l, r)) : r = [] := by
  unfold chooseEncoding at h
  simp only at h
  repeat' (first | (split at h))
  all_goals (injection h with h1 h2; first | (cases h1; done) | exact h2.symm)

theorem resolveEncoding_some_quiet (st : Static) (d : Defs) (fuel : Nat) (ctx : RCtx) (cs : List IMatch) (a : ECtx)
    (l : List (Nat × BI)) (r : List String) (h : resolveEncoding st d fuel ctx cs a = .ok (some l, r)) : r = [] := by
  cases fuel with
  | zero => simp [resolveEncoding] at h
  | succ f =>
    simp only [resolveEncoding] at h
    cases hm : resolveMatches st d f ctx cs a [] with
    | error e => rw [hm] at h; cases h
    | ok y =>
      rw [hm] at h
      simp only at h
      injection h with h
      exact chooseEncoding_some_quiet _ _ l r h

/-- a stable step on an item that can carry a mark reports nothing -/
theorem stable_markable_quiet (st : Static) (d d' X : Defs) (ctx : RCtx) (n : AstNode) (k : Nat) (r : List String)
    (h : dispatch st d ctx n k = .ok (d', true, r)) (hm : markedA X n k = true) : r = [] := by
  cases n with
  | instr src rr =>
    cases rr with
    | none => simp [markedA, markedS] at hm
    | some ref =>
      simp only [dispatch] at h
      unfold resolveInstruction at h
      simp only at h
      split at h
      · injection h with h; injection h with _ h; injection h with _ h; exact h.symm
      · cases he : resolveEncoding st d evalFuel ctx ((d.instrs.getD ref default).cands.map (·.m)) {} with
        | error m => rw [he] at h; cases h
        | ok x =>
          obtain ⟨encs, rp⟩ := x
          rw [he] at h
          cases encs with
          | none => simp at h
          | some l =>
            have hrp := resolveEncoding_some_quiet st d _ ctx _ _ l rp he
            subst hrp
            simp only [Option.bind_some, List.append_nil] at h
            rcases Option.eq_none_or_eq_some (l.head?.map (·.2)) with hc | ⟨e, hc⟩
            · simp only [hc] at h; injection h with h; injection h with _ h; injection h with h _; cases h
            · simp only [hc] at h
              split at h
              · injection h with h; injection h with _ h; injection h with _ h; exact h.symm
              · split at h
                · injection h with h; injection h with _ h; injection h with h _; cases h
                · injection h with h; injection h with _ h; injection h with _ h; exact h.symm
  | data sz es refs =>
    simp only [dispatch] at h
    unfold resolveData at h
    simp only at h
    split at h
    · injection h with h; injection h with _ h; injection h with _ h; exact h.symm
    · cases hev : resolverEval st d ctx {} (es.getD k default) with
      | error m => rw [hev] at h; cases h
      | ok x =>
        rw [hev] at h
        simp only at h
        split at h
        · cases h
        · split at h
          · cases h
          · unfold dataStore at h
            simp only at h
            split at h
            · split at h
              · injection h with h; injection h with _ h; injection h with _ h; exact h.symm
              · split at h
                · injection h with h; injection h with _ h; injection h with h _; cases h
                · injection h with h; injection h with _ h; injection h with _ h; exact h.symm
            · injection h with h; injection h with _ h; injection h with h _; cases h
  | symbol l nm kd ne rr =>
    cases rr with
    | none => cases kd <;> simp [markedA, markedS] at hm
    | some r0 =>
      cases kd with
      | label => simp [markedA, markedS] at hm
      | constant e =>
        simp only [dispatch] at h
        unfold resolveConstant at h
        simp only at h
        split at h
        · injection h with h; injection h with _ h; injection h with _ h; exact h.symm
        · cases hev : resolverEval st d ctx {} e with
          | error m => rw [hev] at h; cases h
          | ok x =>
            rw [hev] at h
            simp only at h
            split at h
            · injection h with h; injection h with _ h; injection h with h _; cases h
            · injection h with h; injection h with _ h; injection h with _ h; exact h.symm
  | _ => simp [markedA, markedS] at hm

/-- the step of the non-first pass on the final state `D` of a stable pass of the same strictness -/
theorem cornerL_passNode (st : Static) (first last : Bool) (a a' : PassSt) (n : AstNode) (k : Nat) (D : Defs)
    (h : passNode st first last a n k = .ok a') (hs : a'.stable = true) (hok : NodeOK a.defs n)
    (e' : StEq a'.defs D) (hokD : NodeOK D n) (hown : nodeItem st D n k = nodeItem st a'.defs n k) :
    passNode st false last ⟨D, a.it, a.symCtx, true, a.reported⟩ n k = .ok ⟨D, a'.it, a'.symCtx, true, a'.reported⟩ := by
  obtain ⟨it, s, r, hv, hd, ha, hsc, hst, hrep⟩ := passNode_inv st first last a a' n k h
  have hs1 : s = true := by
    rw [hst] at hs
    simp only [Bool.and_eq_true] at hs
    exact hs.2
  subst hs1
  obtain ⟨e1, hun⟩ := dispatch_dich st a.defs a'.defs _ n k r hok hd
  have e : StEq a.defs D := e1.trans e'
  rw [passNode_eq']
  simp only
  rw [e.banks, visit_cong st a.defs D e, hv]
  simp only
  have hdD : dispatch st D ⟨false, last, stepCtx st a.symCtx n, it.bank, it.pos⟩ n k = .ok (D, true, r) := by
    cases hm : markedA D n k with
    | true =>
      have hq : r = [] := stable_markable_quiet st a.defs a'.defs D _ n k r hd hm
      subst hq
      exact dispatch_markedS (fun _ => false) st D _ n k hm
    | false =>
      have hm' : markedA a'.defs n k = false := by
        cases n with
        | instr src rr =>
          cases rr with
          | none => rfl
          | some ref =>
            simp only [markedA, markedS] at hm ⊢
            cases hx : (a'.defs.instrs.getD ref default).resolved with
            | false => rfl
            | true => rw [e'.im ref hx] at hm; cases hm
        | data sz es refs =>
          simp only [markedA, markedS] at hm ⊢
          cases hx : (a'.defs.datas.getD (refs.getD k 0) default).resolved with
          | false => rfl
          | true => rw [e'.dm _ hx] at hm; cases hm
        | symbol l nm kd ne rr =>
          cases rr with
          | none => cases kd <;> rfl
          | some r0 =>
            cases kd with
            | label => rfl
            | constant x =>
              simp only [markedA, markedS, Bool.not_false, Bool.and_true] at hm ⊢
              cases hx : (a'.defs.sym r0).resolved with
              | false => rfl
              | true => rw [e'.sm r0 hx] at hm; cases hm
        | _ => rfl
      obtain ⟨hda, hnf⟩ := hun hm'
      exact dispatch_cong st a.defs D e _ rfl n k r hm hokD hnf
  rw [hdD]
  simp only
  rw [hown, e'.banks, ha, hsc, hrep]
  rfl

theorem cornerL_go (st : Static) (first last : Bool) (nodes : List AstNode) (hwf : NoClash nodes) (u : Uniq nodes) (D : Defs)
    (hokD : NodesOK D nodes) (n : AstNode) (hn : n ∈ nodes) :
    ∀ (fuel k : Nat) (a a1 : PassSt), k + fuel ≤ nodeElems n → passNodes.go st first last n k fuel a = .ok a1 → a1.stable = true →
      NodesOK a.defs nodes → StEq a1.defs D → (∀ k', k ≤ k' → k' < k + fuel → OwnSame a1.defs D n k') →
      passNodes.go st false last n k fuel ⟨D, a.it, a.symCtx, true, a.reported⟩ = .ok ⟨D, a1.it, a1.symCtx, true, a1.reported⟩ := by
  intro fuel
  induction fuel with
  | zero =>
    intro k a a1 _ h _ _ _ _
    simp only [passNodes.go] at h ⊢
    injection h with h; subst h; rfl
  | succ f ih =>
    intro k a a1 hkf h hs hok e1 hown
    simp only [passNodes.go] at h ⊢
    cases hp : passNode st first last a n k with
    | error m => rw [hp] at h; cases h
    | ok a' =>
      rw [hp] at h
      simp only at h
      have hok' := nodesOK_step st first last nodes hwf a a' n k hn hp hok
      obtain ⟨s2, e2, _g1, i2, d2⟩ := go_facts st first last nodes hwf n hn f (k + 1) a' a1 h hs hok'
      have hown' : OwnSame a'.defs D n k := by
        have h1 : OwnSame a'.defs a1.defs n k := by
          unfold OwnSame
          split
          · rename_i src ref
            have hf : f = 0 := by simp [nodeElems] at hkf; omega
            subst hf
            simp only [passNodes.go] at h
            injection h with h; rw [h]
          · rename_i sz es refs
            refine d2 _ (fun sz' es' refs' he k' hk1 hk2 heq => ?_)
            injection he with h1 h2 h3
            subst h1 h2 h3
            have hlen : k + (f + 1) ≤ es.length := by simpa [nodeElems] using hkf
            have := u.dataIn sz es refs hn k' k (by omega) (by omega) heq
            omega
          · trivial
        exact h1.trans (hown k (Nat.le_refl k) (by omega))
      have step := cornerL_passNode st first last a a' n k D hp s2 (hok n hn) (e2.trans e1) (hokD n hn)
        (nodeItem_own st a'.defs D (e2.trans e1) n k hown')
      rw [step]
      simp only
      exact ih (k + 1) a' a1 (by omega) h hs hok' e1 (fun k' h1 h2 => hown k' (by omega) (by omega))

theorem cornerL_passNodes (st : Static) (first last : Bool) (nodes : List AstNode) (hwf : NoClash nodes) (u : Uniq nodes) (D : Defs)
    (hokD : NodesOK D nodes) :
    ∀ (rest pre : List AstNode) (a a1 : PassSt), nodes = pre ++ rest → passNodes st first last rest a = .ok a1 → a1.stable = true →
      NodesOK a.defs nodes → StEq a1.defs D → (∀ n ∈ rest, ∀ k', k' < nodeElems n → OwnSame a1.defs D n k') →
      passNodes st false last rest ⟨D, a.it, a.symCtx, true, a.reported⟩ = .ok ⟨D, a1.it, a1.symCtx, true, a1.reported⟩ := by
  intro rest
  induction rest with
  | nil =>
    intro pre a a1 _ h _ _ _ _
    simp only [passNodes] at h ⊢
    injection h with h; subst h; rfl
  | cons n rest ih =>
    intro pre a a1 hsplit h hs hok e1 hown
    rw [passNodes_cons] at h ⊢
    have hn : n ∈ nodes := by rw [hsplit]; simp
    have hsub : ∀ m ∈ rest, m ∈ nodes := fun m hm => by rw [hsplit]; simp [hm]
    cases hg : passNodes.go st first last n 0 (nodeElems n) a with
    | error e => rw [hg] at h; cases h
    | ok a' =>
      rw [hg] at h
      simp only at h
      have hs' : a'.stable = true := passNodes_stable_mono st first last rest a' a1 h hs
      obtain ⟨_g1, _g2, hok', _g3, _g4⟩ := go_facts st first last nodes hwf n hn (nodeElems n) 0 a a' hg hs' hok
      obtain ⟨_g5, e2, _g6, i2, d2⟩ := passNodes_facts st first last nodes hwf rest a' a1 hsub h hs hok'
      have hown' : ∀ k', 0 ≤ k' → k' < 0 + nodeElems n → OwnSame a'.defs D n k' := by
        intro k' _ hk'
        have h1 : OwnSame a'.defs a1.defs n k' := by
          unfold OwnSame
          split
          · rename_i src ref
            exact i2 ref (u.instr pre src ref rest hsplit)
          · rename_i sz es refs
            refine d2 _ (fun sz' es' refs' hm k2 hk2 heq => ?_)
            have hlen : k' < es.length := by simpa [nodeElems] using hk'
            exact u.dataOut pre sz es refs rest hsplit sz' es' refs' hm k' k2 hlen hk2 heq.symm
          · trivial
        exact h1.trans (hown n List.mem_cons_self k' (by omega))
      rw [cornerL_go st first last nodes hwf u D hokD n hn (nodeElems n) 0 a a' (by omega) hg hs' hok (e2.trans e1) hown']
      simp only
      exact ih (pre ++ [n]) a' a1 (by rw [hsplit]; simp) h hs hok' e1
        (fun m hm k' hk' => hown m (List.mem_cons_of_mem _ hm) k' hk')

/-- **a stable pass leaves a fixed point of the non-first pass of the same strictness, with the same messages** -/
theorem cornerL_resolveOnce (st : Static) (first last : Bool) (nodes : List AstNode) (hwf : NoClash nodes) (u : Uniq nodes)
    (d0 d1 : Defs) (r1 : List String) (hok0 : NodesOK d0 nodes)
    (h : resolveOnce st nodes first last d0 = .ok (d1, true, r1)) :
    resolveOnce st nodes false last d1 = .ok (d1, true, r1) := by
  have hokD : NodesOK d1 nodes := pass_establishes_ok st nodes first last d0 d1 true r1 h hwf
  unfold resolveOnce at h ⊢
  cases hp : passNodes st first last nodes ⟨d0, initIter d0.banks, [], true, []⟩ with
  | error e => rw [hp] at h; cases h
  | ok a1 =>
    rw [hp] at h
    injection h with h; injection h with h1 h2; injection h2 with h2 h3
    have e : StEq d0 a1.defs := (passNodes_facts st first last nodes hwf nodes _ a1 (fun _ hm => hm) hp h2 hok0).2.1
    have hb : d1.banks = d0.banks := by rw [← h1]; exact e.banks
    have := cornerL_passNodes st first last nodes hwf u d1 hokD nodes [] ⟨d0, initIter d0.banks, [], true, []⟩ a1 rfl hp h2 hok0
      (by rw [h1]; exact StEq.refl d1) (fun n _ k' _ => by rw [h1]; exact OwnSame.refl d1 n k')
    rw [hb, this]
    simp only [h3]

/-- **with a budget of one pass a successful iteration ends in a fixed point of the strict pass too**,
    and its messages are those of that pass -/
theorem resolveIterativelyN_fixed_point_one (st : Static) (nodes : List AstNode) (hwf : NoClash nodes) (u : Uniq nodes)
    (d0 : Defs) (hok0 : NodesOK d0 nodes) (k : Nat) (d : Defs) (rep : List String)
    (h : resolveIterativelyN st nodes 1 d0 = .ok (k, d, rep)) :
    resolveOnce st nodes false true d = .ok (d, true, rep) := by
  unfold resolveIterativelyN at h
  have h1 : ¬ (0 ≥ 1) := by omega
  simp only [iterLoop, h1, if_false] at h
  have e1 : ((0 + 1 : Nat) == 1) = true := rfl
  simp only [e1] at h
  cases hp : resolveOnce st nodes true true d0 with
  | error e => rw [hp] at h; obtain ⟨_, _⟩ := e; cases h
  | ok x =>
    obtain ⟨d1, s, r⟩ := x
    rw [hp] at h
    cases s with
    | false => simp at h
    | true =>
      simp only [if_true, List.nil_append] at h
      injection h with h; injection h with _ h; injection h with h2 h3
      subst h2; subst h3
      exact cornerL_resolveOnce st true true nodes hwf u d0 d1 r hok0 hp

/-- the fixed-point property of a successful iteration, for every budget of at least one pass -/
theorem resolveIterativelyN_fixed_point_any (st : Static) (nodes : List AstNode) (max : Nat) (hmax : 1 ≤ max) (hwf : NoClash nodes)
    (u : Uniq nodes) (d0 : Defs) (hok0 : NodesOK d0 nodes) (k : Nat) (d : Defs) (rep : List String)
    (h : resolveIterativelyN st nodes max d0 = .ok (k, d, rep)) :
    ∃ r pre, resolveOnce st nodes false true d = .ok (d, true, r) ∧ rep = pre ++ r := by
  by_cases h2 : 2 ≤ max
  · exact resolveIterativelyN_fixed_point st nodes max h2 hwf d0 k d rep h
  · have : max = 1 := by omega
    subst this
    exact ⟨rep, [], resolveIterativelyN_fixed_point_one st nodes hwf u d0 hok0 k d rep h, rfl⟩

end Casm
