import Casm.Model.Assemble
import Casm.Proofs.StaticEval
import Casm.Proofs.ModeMono
/-!
# Casm.Proofs.StaticMatch — what `get_match_statically_known` promises

If the analysis calls an instruction match statically known, then resolving it in a later state
(other addresses, other values of everything that is not a statically known symbol, guessing
forbidden or not) gives the definite result it gave before.
-/
namespace Casm

/-- two resolver states/contexts as seen from a statically known expression: same rule
    definitions and symbol context; every statically known symbol that already has a value keeps it -/
structure SRel (defsM defs1 defs2 : Defs) (ctx1 ctx2 : RCtx) : Prop where
  rd1 : defs1.ruledefs = defsM.ruledefs
  rd2 : defs2.ruledefs = defsM.ruledefs
  sym : ctx2.symCtx = ctx1.symCtx
  known : ∀ r, (defsM.sym r).known = true → (defs1.sym r).value ≠ .unknown → (defs2.sym r).value = (defs1.sym r).value

theorem mkEnv_var (st : Static) (defs : Defs) (fuel : Nat) (ctx : RCtx) : (mkEnv st defs fuel ctx).var = evalVariable st defs ctx := by
  cases fuel <;> simp [mkEnv]

theorem mkEnv_fn_asm (st : Static) (defs1 defs2 : Defs) (fuel : Nat) (ctx1 ctx2 : RCtx) (n : String) (vs : List Value) (c : ECtx) :
    (mkEnv st defs2 fuel ctx2).fn (.asmBuiltin n) vs c = (mkEnv st defs1 fuel ctx1).fn (.asmBuiltin n) vs c := by
  cases fuel <;> simp [mkEnv]

theorem asmBuiltin_cases (n : String) (h : isAsmBuiltinName n = true) : n = "incbin" ∨ n = "incbinstr" ∨ n = "inchexstr" := by
  simp [isAsmBuiltinName] at h
  rcases h with (h | h) | h
  · exact Or.inl h
  · exact Or.inr (Or.inl h)
  · exact Or.inr (Or.inr h)

theorem evalVariable_asmBuiltin (st : Static) (defs : Defs) (ctx : RCtx) (n : String) (h : isAsmBuiltinName n = true) :
    evalVariable st defs ctx 0 [n] = .ok (.asmBuiltin n) := by
  rcases asmBuiltin_cases n h with rfl | rfl | rfl <;> simp [evalVariable, isAsmBuiltinName]

theorem evalVariable_nobuiltin (st : Static) (defs : Defs) (ctx : RCtx) (level : Nat) (path : List String)
    (hg : ¬ (level == 0 &&
        (path.head? == some "$" || path.head? == some "pc" || (Option.map isAsmBuiltinName path.head?).getD false)) = true) :
    evalVariable st defs ctx level path =
      match st.decls.symbols.getByName ctx.symCtx level path with
      | .error e => .error e
      | .ok r =>
        match (defs.sym r).value with
        | .unknown => if !ctx.canGuess then .error s!"unresolved symbol `{displayName level path}`" else .ok (defs.sym r).value
        | _ => .ok (defs.sym r).value := by
  unfold evalVariable
  simp only
  split
  · rename_i r heq
    exfalso
    by_cases hl : (level == 0) = true
    · simp only [hl, if_true] at heq
      cases path with
      | nil => cases heq
      | cons n rest =>
        cases rest with
        | cons m rest' => cases heq
        | nil =>
          simp only [hl, List.head?_cons, Bool.true_and, Option.map_some, Option.getD_some] at hg
          simp only at heq
          split at heq
          · rename_i h1
            apply hg
            simp only [Bool.or_eq_true, beq_iff_eq] at h1
            rcases h1 with h1 | h1 <;> simp [h1]
          · split at heq
            · rename_i h2; apply hg; simp [h2]
            · cases heq
    · simp only [hl] at heq; cases heq
  · rfl

theorem evalVariable_le (st : Static) (defsM defs1 defs2 : Defs) (ctx1 ctx2 : RCtx) (rel : SRel defsM defs1 defs2 ctx1 ctx2)
    (level : Nat) (path : List String) (hq : matchQv st.decls defsM ctx1.symCtx level path = true)
    (v : Value) (h : evalVariable st defs1 ctx1 level path = .ok v) (hv : v ≠ .unknown) :
    evalVariable st defs2 ctx2 level path = .ok v := by
  unfold matchQv at hq
  split at hq
  · cases hq
  · rename_i hg
    rw [evalVariable_nobuiltin st defs1 ctx1 level path hg] at h
    rw [evalVariable_nobuiltin st defs2 ctx2 level path hg]
    rw [rel.sym]
    cases hr : st.decls.symbols.tryGetByName ctx1.symCtx level path with
    | none => simp [hr] at hq
    | some r =>
      simp only [hr] at hq
      simp only [SymMgr.getByName, hr] at h ⊢
      have hval : (defs1.sym r).value = v := by
        cases hv1 : (defs1.sym r).value <;> simp only [hv1] at h <;> first
          | (split at h <;> first | (cases h; done) | (cases h; rfl) | (injection h with h; exact absurd h.symm hv))
          | (injection h; done)
          | (injection h with h; exact h)
      have hne : (defs1.sym r).value ≠ .unknown := by rw [hval]; exact hv
      rw [rel.known r hq hne, hval]
      cases v <;> first | exact absurd rfl hv | rfl

/-- the environments of two related states agree (one way, on definite answers) on what the
    match analysis calls known -/
theorem agreeLe_of_rel (st : Static) (defsM defs1 defs2 : Defs) (ctx1 ctx2 : RCtx) (rel : SRel defsM defs1 defs2 ctx1 ctx2) (fuel : Nat)
    (p : SKProvider) (hqv : p.queryVariable = matchQv st.decls defsM ctx1.symCtx) (hqf : p.queryFunction = asmBuiltinKnown) :
    AgreeLe p (mkEnv st defs1 fuel ctx1) (mkEnv st defs2 fuel ctx2) := by
  refine ⟨?_, ?_, ?_⟩
  · intro l path hq v h hv
    rw [mkEnv_var] at h ⊢
    rw [hqv] at hq
    exact evalVariable_le st defsM defs1 defs2 ctx1 ctx2 rel l path hq v h hv
  · intro n vs c v h _; rw [mkEnv_fn_asm st defs1 defs2 fuel ctx1 ctx2 n vs c]; exact h
  · intro n hq _
    rw [hqf] at hq
    exact Or.inl ⟨n, by rw [mkEnv_var]; exact evalVariable_asmBuiltin st defs1 ctx1 n hq,
      by rw [mkEnv_var]; exact evalVariable_asmBuiltin st defs2 ctx2 n hq⟩

/-! ## providers and contexts in lockstep -/

theorem SKProvider.local?_setLocal (p : SKProvider) (nm n : String) (l : SKLocal) :
    (p.setLocal nm l).local? n = if nm = n then some l else p.local? n := by
  unfold SKProvider.setLocal SKProvider.local?
  by_cases h : nm = n
  · subst h; simp [List.find?]
  · have h1 : (nm == n) = false := by simpa using h
    simp only [List.find?, h1, h, if_false]
    congr 1
    induction p.locals with
    | nil => rfl
    | cons a t ih =>
      simp only [List.filter]
      by_cases ha : a.1 = nm
      · have : (a.1 != nm) = false := by simp [ha]
        have h2 : (a.1 == n) = false := by rw [ha]; exact h1
        simp only [this, List.find?, h2]; exact ih
      · have : (a.1 != nm) = true := by simp [ha]
        simp only [this, List.find?]
        cases (a.1 == n) <;> simp [ih]

/-- what is kept about the provider while the parameters are added -/
structure PInv (p : SKProvider) (qv : Nat → List String → Bool) : Prop where
  qv : p.queryVariable = qv
  qf : p.queryFunction = asmBuiltinKnown

theorem matchQv_asm (d : Decls) (defs : Defs) (symCtx : List String) (n : String) (h : asmBuiltinKnown n = true) :
    matchQv d defs symCtx 0 [n] = false := by
  have h' : isAsmBuiltinName n = true := h
  simp [matchQv, h']

theorem PInv.providerOK {p : SKProvider} {d : Decls} {defs : Defs} {symCtx : List String} (h : PInv p (matchQv d defs symCtx)) :
    ProviderOK p := by
  intro n hn
  rw [h.qf] at hn
  rw [h.qv]; exact matchQv_asm d defs symCtx n hn

theorem PInv.setLocal {p : SKProvider} {qv : Nat → List String → Bool} (h : PInv p qv) (nm : String) (l : SKLocal) :
    PInv (p.setLocal nm l) qv := ⟨h.qv, h.qf⟩

theorem matchP0_pinv (d : Decls) (defs : Defs) (symCtx : List String) : PInv (matchP0 d defs symCtx) (matchQv d defs symCtx) :=
  ⟨rfl, rfl⟩

theorem ECtx.locals_setSubst (c : ECtx) (n : String) (x : List Char) : (c.setSubst n x).locals = c.locals := rfl

theorem CtxInv.setParam {p : SKProvider} {c : ECtx} (hi : CtxInv p c) (nm : String) (v : Value) (x : List Char)
    (hqf : p.queryFunction = asmBuiltinKnown) :
    CtxInv (p.setLocal nm { valueKnown := true }) ((c.setLocal nm v).setSubst nm x) := by
  refine ⟨fun n hn hloc => ?_, fun n l hl hv => ?_⟩
  · have hn' : asmBuiltinKnown n = true := by
      have : (p.setLocal nm { valueKnown := true }).queryFunction = p.queryFunction := rfl
      rw [this, hqf] at hn; exact hn
    rw [SKProvider.local?_setLocal] at hloc
    have hne : nm ≠ n := by
      intro e; subst e; simp at hloc
    simp only [hne, if_false] at hloc
    rw [ECtx.locals_setSubst]
    simp only [ECtx.setLocal]
    rw [Locals.get_set_ne _ _ _ _ hne]
    exact hi.1 n (by rw [hqf]; exact hn') hloc
  · rw [ECtx.locals_setSubst]
    simp only [ECtx.setLocal]
    by_cases hne : nm = n
    · subst hne; rw [Locals.get_set_self]; rfl
    · rw [Locals.get_set_ne _ _ _ _ hne]
      rw [SKProvider.local?_setLocal] at hl
      simp only [hne, if_false] at hl
      exact hi.2 n l hl hv

/-! ## matches -/

/-- the rule a match refers to -/
abbrev ruleOf (defs : Defs) (rdi ri : Nat) : Rule := (defs.ruledefs.getD rdi default).rules.getD ri default

theorem ite_none_some {α} (c : Prop) [Decidable c] (x : Option α) (y : α) (h : (if c then none else x) = some y) :
    ¬ c ∧ x = some y := by
  by_cases hc : c
  · simp [hc] at h
  · simp only [hc, if_false] at h; exact ⟨hc, h⟩

theorem matchKnownArgs_pinv (d : Decls) (defsM : Defs) (symCtx : List String) (qv : Nat → List String → Bool)
    (rdi ri : Nat) :
    ∀ (fk : Nat) (args : List IArg) (i : Nat) (pa p p' : SKProvider),
      matchKnownArgs d defsM symCtx fk (ruleOf defsM rdi ri) args i pa p = some p' → PInv p qv → PInv p' qv := by
  intro fk
  induction fk with
  | zero => intro args i pa p p' h; simp [matchKnownArgs] at h
  | succ fk ih =>
    intro args i pa p p' h hp
    cases args with
    | nil => simp only [matchKnownArgs] at h; injection h with h; rw [← h]; exact hp
    | cons a rest =>
      simp only [matchKnownArgs] at h
      exact ih rest (i + 1) pa _ p' (ite_none_some _ _ _ h).2 (hp.setLocal _ _)

theorem resolve_static (st : Static) (defsM defs1 defs2 : Defs) (ctx1 ctx2 : RCtx) (rel : SRel defsM defs1 defs2 ctx1 ctx2) :
    ∀ f : Nat,
      (∀ (fk : Nat) (m : IMatch) (argCtx : ECtx) (v : Value) (argCtx' : ECtx),
        matchKnown st.decls defsM ctx1.symCtx fk m = true → CtxInv (matchP0 st.decls defsM ctx1.symCtx) argCtx →
        resolveMatch st defs1 f ctx1 m argCtx = .ok (v, argCtx') → v.isUnk = false →
        resolveMatch st defs2 f ctx2 m argCtx = .ok (v, argCtx') ∧ CtxInv (matchP0 st.decls defsM ctx1.symCtx) argCtx') ∧
      (∀ (fk rdi ri : Nat) (args : List IArg) (i : Nat) (argCtx ruleCtx : ECtx) (p p' : SKProvider) (r : Sum Value ECtx) (argCtx' : ECtx),
        matchKnownArgs st.decls defsM ctx1.symCtx fk (ruleOf defsM rdi ri) args i (matchP0 st.decls defsM ctx1.symCtx) p = some p' →
        PInv p (matchQv st.decls defsM ctx1.symCtx) → CtxInv (matchP0 st.decls defsM ctx1.symCtx) argCtx → CtxInv p ruleCtx →
        resolveArgs st defs1 f ctx1 (ruleOf defsM rdi ri) args i argCtx ruleCtx = .ok (r, argCtx') → (∀ u, r = .inl u → u.isUnk = false) →
        resolveArgs st defs2 f ctx2 (ruleOf defsM rdi ri) args i argCtx ruleCtx = .ok (r, argCtx') ∧
          CtxInv (matchP0 st.decls defsM ctx1.symCtx) argCtx' ∧ (∀ rc, r = .inr rc → CtxInv p' rc)) := by
  intro f
  induction f with
  | zero =>
    refine ⟨?_, ?_⟩
    · intro fk m argCtx v argCtx' _ _ h; simp [resolveMatch] at h
    · intro fk rdi ri args i argCtx ruleCtx p p' r argCtx' _ _ _ _ h; simp [resolveArgs] at h
  | succ f ih =>
    obtain ⟨ihA, ihB⟩ := ih
    have pinv0 := matchP0_pinv st.decls defsM ctx1.symCtx
    refine ⟨?_, ?_⟩
    · intro fk m argCtx v argCtx' hk hinv h hne
      cases fk with
      | zero => simp [matchKnown] at hk
      | succ fk =>
        simp only [matchKnown] at hk
        cases hka : matchKnownArgs st.decls defsM ctx1.symCtx fk (ruleOf defsM m.ruledef m.rule) m.args 0
            (matchP0 st.decls defsM ctx1.symCtx) (matchP0 st.decls defsM ctx1.symCtx) with
        | none => rw [hka] at hk; cases hk
        | some p' =>
          rw [hka] at hk
          simp only at hk
          have pinv' := matchKnownArgs_pinv st.decls defsM ctx1.symCtx _ m.ruledef m.rule fk m.args 0 _ _ p' hka pinv0
          simp only [resolveMatch] at h ⊢
          rw [rel.rd1] at h; rw [rel.rd2]
          have hinvDeep : CtxInv (matchP0 st.decls defsM ctx1.symCtx) argCtx.deepened :=
            ⟨fun n _ _ => rfl, fun n l hl _ => by cases hl⟩
          cases hra : resolveArgs st defs1 f ctx1 (ruleOf defsM m.ruledef m.rule) m.args 0 argCtx argCtx.deepened with
          | error e => rw [hra] at h; cases h
          | ok x =>
            obtain ⟨r, a1⟩ := x
            rw [hra] at h
            cases r with
            | inl u =>
              simp only at h
              injection h with h; injection h with hu ha; subst hu; subst ha
              obtain ⟨e2, i2, _⟩ := ihB fk m.ruledef m.rule m.args 0 argCtx argCtx.deepened _ p' _ _ hka pinv0 hinv hinvDeep hra
                (fun u' hh => by injection hh with hh; rw [← hh]; exact hne)
              rw [e2]; exact ⟨rfl, i2⟩
            | inr rc =>
              obtain ⟨e2, i2, i3⟩ := ihB fk m.ruledef m.rule m.args 0 argCtx argCtx.deepened _ p' _ _ hka pinv0 hinv hinvDeep hra
                (fun u' hh => by cases hh)
              rw [e2]
              simp only at h ⊢
              cases hev : eval (mkEnv st defs1 f ctx1) rc (ruleOf defsM m.ruledef m.rule).expr with
              | error e => rw [hev] at h; cases h
              | ok y =>
                obtain ⟨v1, c1⟩ := y
                rw [hev] at h
                simp only [Except.map] at h
                injection h with h; injection h with hv ha; subst hv; subst ha
                have ag := agreeLe_of_rel st defsM defs1 defs2 ctx1 ctx2 rel f p' pinv'.qv pinv'.qf
                obtain ⟨e3, _⟩ := eval_static_le p' pinv'.providerOK _ _ ag rc _ hk (i3 rc rfl) v1 c1 hev hne
                rw [e3]; exact ⟨rfl, i2⟩
    · intro fk rdi ri args i argCtx ruleCtx p p' r argCtx' hka pinv hinv hrc h hne
      have ag0 := agreeLe_of_rel st defsM defs1 defs2 ctx1 ctx2 rel f (matchP0 st.decls defsM ctx1.symCtx) rfl rfl
      cases args with
      | nil =>
        cases fk with
        | zero => simp [matchKnownArgs] at hka
        | succ fk =>
          simp only [matchKnownArgs] at hka
          injection hka with hka; subst hka
          simp only [resolveArgs] at h ⊢
          injection h with h; injection h with hr ha; subst hr; subst ha
          exact ⟨rfl, hinv, fun rc hh => by injection hh with hh; subst hh; exact hrc⟩
      | cons a rest =>
        cases fk with
        | zero => simp [matchKnownArgs] at hka
        | succ fk =>
          simp only [matchKnownArgs] at hka
          obtain ⟨hknown, hka2⟩ := ite_none_some _ _ _ hka
          clear hka
          generalize hprm : (ruleOf defsM rdi ri).params.getD i ("", .unspecified) = prm at *
          obtain ⟨pn, pt⟩ := prm
          · cases a with
            | expr e x1 x2 excerpt =>
              have hke : staticallyKnown (matchP0 st.decls defsM ctx1.symCtx) e = true := by
                cases pt <;> simp at hknown <;> exact hknown
              simp only [resolveArgs, hprm] at h ⊢
              cases hev : eval (mkEnv st defs1 f ctx1) argCtx e with
              | error e => rw [hev] at h; cases h
              | ok y =>
                obtain ⟨v, a1⟩ := y
                rw [hev] at h
                simp only at h
                by_cases hp : v.shouldPropagate = true
                · simp only [hp, if_true] at h
                  injection h with h; injection h with hr ha; subst hr; subst ha
                  obtain ⟨e2, i2⟩ := eval_static_le _ pinv0.providerOK _ _ ag0 argCtx e hke hinv v a1 hev (hne v rfl)
                  rw [e2]; simp only [hp, if_true]
                  exact ⟨by first | rfl | trivial, i2, fun rc hh => by cases hh⟩
                · have hp' : v.shouldPropagate = false := by simpa using hp
                  obtain ⟨e2, i2⟩ := eval_static_le _ pinv0.providerOK _ _ ag0 argCtx e hke hinv v a1 hev (isUnk_of_not_propagate v hp')
                  rw [e2]
                  simp only [hp', Bool.false_eq_true, if_false] at h ⊢
                  cases hcc : checkAndConstrain pt v with
                  | error e => rw [hcc] at h; cases h
                  | ok cv =>
                    rw [hcc] at h
                    simp only at h ⊢
                    by_cases hcp : cv.shouldPropagate = true
                    · simp only [hcp, if_true] at h ⊢
                      injection h with h; injection h with hr ha; subst hr; subst ha
                      exact ⟨by first | rfl | trivial, i2, fun rc hh => by cases hh⟩
                    · have hcp' : cv.shouldPropagate = false := by simpa using hcp
                      simp only [hcp', Bool.false_eq_true, if_false] at h ⊢
                      exact ihB fk rdi ri rest (i + 1) a1 _ _ p' r argCtx' hka2 (pinv.setLocal _ _) i2
                        (hrc.setParam _ cv excerpt pinv.qf) h hne
            | nested nm x1 x2 excerpt =>
              have hkn : matchKnown st.decls defsM ctx1.symCtx fk nm = true := by
                cases pt <;> simp at hknown <;> exact hknown
              simp only [resolveArgs, hprm] at h ⊢
              cases hrm : resolveMatch st defs1 f ctx1 nm argCtx with
              | error e => rw [hrm] at h; cases h
              | ok y =>
                obtain ⟨v, a1⟩ := y
                rw [hrm] at h
                simp only at h
                by_cases hp : v.shouldPropagate = true
                · simp only [hp, if_true] at h
                  injection h with h; injection h with hr ha; subst hr; subst ha
                  obtain ⟨e2, i2⟩ := ihA fk nm argCtx v a1 hkn hinv hrm (hne v rfl)
                  rw [e2]; simp only [hp, if_true]
                  exact ⟨by first | rfl | trivial, i2, fun rc hh => by cases hh⟩
                · have hp' : v.shouldPropagate = false := by simpa using hp
                  obtain ⟨e2, i2⟩ := ihA fk nm argCtx v a1 hkn hinv hrm (isUnk_of_not_propagate v hp')
                  rw [e2]
                  simp only [hp', Bool.false_eq_true, if_false] at h ⊢
                  exact ihB fk rdi ri rest (i + 1) a1 _ _ p' r argCtx' hka2 (pinv.setLocal _ _) i2
                    (hrc.setParam _ v excerpt pinv.qf) h hne

/-! ## candidate lists and the chosen encoding -/

def Resolution.definite : Resolution → Bool
  | .unresolved => false
  | _ => true

theorem resolveMatches_static (st : Static) (defsM defs1 defs2 : Defs) (ctx1 ctx2 : RCtx) (rel : SRel defsM defs1 defs2 ctx1 ctx2)
    (fk : Nat) :
    ∀ (f : Nat) (cands : List IMatch) (argCtx : ECtx) (acc rs : List Resolution) (argCtx' : ECtx),
      (∀ c ∈ cands, matchKnown st.decls defsM ctx1.symCtx fk c = true) →
      CtxInv (matchP0 st.decls defsM ctx1.symCtx) argCtx →
      resolveMatches st defs1 f ctx1 cands argCtx acc = .ok (rs, argCtx') → rs.all Resolution.definite = true →
      resolveMatches st defs2 f ctx2 cands argCtx acc = .ok (rs, argCtx') := by
  intro f
  induction f with
  | zero => intro cands argCtx acc rs argCtx' _ _ h; simp [resolveMatches] at h
  | succ f ih =>
    intro cands argCtx acc rs argCtx' hk hinv h hdef
    cases cands with
    | nil => simp only [resolveMatches] at h ⊢; exact h
    | cons m rest =>
      simp only [resolveMatches] at h ⊢
      cases hrm : resolveMatch st defs1 f ctx1 m argCtx with
      | error e => rw [hrm] at h; cases h
      | ok y =>
        obtain ⟨v, a1⟩ := y
        rw [hrm] at h
        simp only at h
        -- the resolution of this candidate
        split at h
        · cases h
        · rename_i r hr
          -- `r` ends up in `rs`, hence is definite, hence `v` is not unknown
          have hmem : ∀ (f : Nat) (cands : List IMatch) (argCtx : ECtx) (acc rs : List Resolution) (argCtx' : ECtx),
              resolveMatches st defs1 f ctx1 cands argCtx acc = .ok (rs, argCtx') → ∀ x ∈ acc, x ∈ rs := by
            intro f
            induction f with
            | zero => intro cands argCtx acc rs argCtx' h; simp [resolveMatches] at h
            | succ f ih2 =>
              intro cands argCtx acc rs argCtx' h x hx
              cases cands with
              | nil =>
                simp only [resolveMatches] at h
                injection h with h; injection h with h1 _
                rw [← h1]; exact List.mem_reverse.mpr hx
              | cons m rest =>
                simp only [resolveMatches] at h
                split at h
                · cases h
                · split at h
                  · cases h
                  · exact ih2 _ _ _ _ _ h x (List.mem_cons_of_mem _ hx)
          have hrdef : r.definite = true :=
            List.all_eq_true.mp hdef r (hmem f rest a1 (r :: acc) rs argCtx' h r (List.mem_cons_self ..))
          have hv : v.isUnk = false := by
            cases v <;> first
              | rfl
              | (simp only at hr; injection hr with hr; rw [← hr] at hrdef; cases hrdef)
          obtain ⟨e2, i2⟩ := (resolve_static st defsM defs1 defs2 ctx1 ctx2 rel f).1 fk m argCtx v a1
            (hk m (List.mem_cons_self ..)) hinv hrm hv
          rw [e2]
          simp only [hr]
          exact ih rest a1 (r :: acc) rs argCtx' (fun c hc => hk c (List.mem_cons_of_mem _ hc)) i2 h hdef

/-- **the frozen choice is the choice**: if every candidate is statically known and none is
    unresolved, the list of candidates resolves in the later state to the same resolutions -/
theorem allDefinite_static (st : Static) (defsM defs1 defs2 : Defs) (ctx1 ctx2 : RCtx) (rel : SRel defsM defs1 defs2 ctx1 ctx2)
    (fk : Nat) (cands : List IMatch)
    (hk : ∀ c ∈ cands, matchKnown st.decls defsM ctx1.symCtx fk c = true)
    (hd : allDefinite st defs1 ctx1 cands = true) :
    ∃ rs a, resolveMatches st defs1 (evalFuel - 1) ctx1 cands {} [] = .ok (rs, a) ∧
      resolveMatches st defs2 (evalFuel - 1) ctx2 cands {} [] = .ok (rs, a) ∧ rs.all Resolution.definite = true := by
  unfold allDefinite at hd
  cases h1 : resolveMatches st defs1 (evalFuel - 1) ctx1 cands {} [] with
  | error e => rw [h1] at hd; cases hd
  | ok x =>
    obtain ⟨rs, a⟩ := x
    rw [h1] at hd
    have hdef : rs.all Resolution.definite = true := by
      simp only at hd
      rw [List.all_eq_true] at hd ⊢
      intro r hr
      have := hd r hr
      cases r <;> first | rfl | cases this
    refine ⟨rs, a, rfl, ?_, hdef⟩
    exact resolveMatches_static st defsM defs1 defs2 ctx1 ctx2 rel fk _ cands {} [] rs a hk
      ⟨fun n _ _ => rfl, fun n l hl _ => by cases hl⟩ h1 hdef

theorem chooseEncoding_single (g g' : Bool) (rs : List Resolution) (encs : List (Nat × BI)) (rep : List String)
    (h : chooseEncoding g rs = (some encs, rep)) (hs : encs.length = 1) : chooseEncoding g' rs = (some encs, []) := by
  unfold chooseEncoding at h ⊢
  simp only at h ⊢
  split at h
  · split at h <;> cases h
  · rename_i hne
    simp only [hne, if_false]
    split at h
    · cases h
    · injection h with h1 _
      injection h1 with h1
      rw [h1]
      have : ¬ (!g' && decide (encs.length > 1)) = true := by simp [hs]
      rw [if_neg this]
      simp

/-- **soundness of the first-pass short-cut for instructions**: when every candidate is
    statically known, none is unresolved and a single smallest encoding was chosen, then resolving
    the candidates in any later related state — at another address, guessing allowed or not —
    chooses the same encoding -/
theorem frozen_instruction_sound (st : Static) (defsM defs1 defs2 : Defs) (ctx1 ctx2 : RCtx) (rel : SRel defsM defs1 defs2 ctx1 ctx2)
    (fk : Nat) (cands : List IMatch)
    (hk : ∀ c ∈ cands, matchKnown st.decls defsM ctx1.symCtx fk c = true)
    (hd : allDefinite st defs1 ctx1 cands = true)
    (encs : List (Nat × BI)) (rep : List String)
    (h1 : resolveEncoding st defs1 evalFuel ctx1 cands {} = .ok (some encs, rep)) (hs : encs.length = 1) :
    resolveEncoding st defs2 evalFuel ctx2 cands {} = .ok (some encs, []) := by
  obtain ⟨rs, a, e1, e2, _⟩ := allDefinite_static st defsM defs1 defs2 ctx1 ctx2 rel fk cands hk hd
  rw [evalFuel_succ'] at h1 ⊢
  simp only [resolveEncoding, e1, e2] at h1 ⊢
  injection h1 with h1
  rw [chooseEncoding_single _ ctx2.canGuess rs encs rep h1 hs]

/-! ## data elements and constants: no state at all -/

/-- **a statically known data element or constant evaluates identically in every state, at every
    address, in every pass** (value, error text and context) -/
theorem pure_static_eval (st : Static) (defs1 defs2 : Defs) (ctx1 ctx2 : RCtx) (e : Expr)
    (hk : staticallyKnown pureP e = true) :
    resolverEval st defs2 ctx2 {} e = resolverEval st defs1 ctx1 {} e := by
  unfold resolverEval
  have ag : Agree pureP (mkEnv st defs1 evalFuel ctx1) (mkEnv st defs2 evalFuel ctx2) := by
    refine ⟨fun l path h => (by cases h), fun n vs c => mkEnv_fn_asm st defs1 defs2 evalFuel ctx1 ctx2 n vs c, ?_⟩
    intro n hq _
    exact ⟨n, by rw [mkEnv_var]; exact evalVariable_asmBuiltin st defs1 ctx1 n hq,
      by rw [mkEnv_var]; exact evalVariable_asmBuiltin st defs2 ctx2 n hq⟩
  have hp : ProviderOK pureP := fun n _ => rfl
  have hc : CtxInv pureP {} := ⟨fun n _ _ => rfl, fun n l hl _ => by cases hl⟩
  exact (eval_static pureP hp _ _ ag {} e hk hc).1

end Casm
