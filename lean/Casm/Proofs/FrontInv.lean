import Casm.Proofs.KindInv
import Casm.Proofs.FrontSyms
import Casm.Proofs.FrontOKSb
/-!
# Casm.Proofs.FrontInv — what the front end guarantees about symbol nodes

Through the declaration loop, `define_remaining` and `match_all`: a reference denotes one symbol node
(`SymFun`); the slot of every symbol node exists; labels have no value yet; the flag of a constant is
the analysis of its expression; a constant marked by the static-value optimisation only holds the
value of its (statically known) expression.
-/
namespace Casm

def symRef : AstNode → Option Nat
  | .symbol _ _ _ _ (some r) => some r
  | _ => none

/-- a reference denotes one symbol node -/
def SymFun (l : List AstNode) : Prop := ∀ a ∈ l, ∀ b ∈ l, ∀ r, symRef a = some r → symRef b = some r → a = b

/-- every referenced symbol node of `out` is a node of `nodes` -/
def RefSub (out nodes : List AstNode) : Prop := ∀ n ∈ out, (symRef n).isSome = true → n ∈ nodes

theorem RefSub.refl (l : List AstNode) : RefSub l l := fun _ h _ => h
theorem RefSub.trans {a b c : List AstNode} (h1 : RefSub a b) (h2 : RefSub b c) : RefSub a c :=
  fun n hn hr => h2 n (h1 n hn hr) hr

theorem SymFun.sub {out nodes : List AstNode} (h : SymFun nodes) (hs : RefSub out nodes) : SymFun out :=
  fun a ha b hb r h1 h2 => h a (hs a ha (by rw [h1]; rfl)) b (hs b hb (by rw [h2]; rfl)) r h1 h2

theorem symRef_fresh (n : AstNode) : symRef n.fresh = none := by
  cases n <;> rfl

/-- a pass over the nodes that leaves referenced symbol nodes alone and creates none -/
theorem mapNodesE_refSub {σ} (f : σ → AstNode → Except String (σ × AstNode))
    (hstep : ∀ s n s' n', f s n = .ok (s', n') → (symRef n').isSome = true → n' = n) :
    ∀ (nodes : List AstNode) (s : σ) (acc : List AstNode) (s' : σ) (out : List AstNode) (base : List AstNode),
      RefSub acc base → (∀ n ∈ nodes, n ∈ base) → mapNodesE f s nodes acc = .ok (s', out) → RefSub out base := by
  intro nodes
  induction nodes with
  | nil =>
    intro s acc s' out base ha _ h
    simp only [mapNodesE] at h
    injection h with h; injection h with _ h2
    subst h2
    exact fun n hn hr => ha n (List.mem_reverse.mp hn) hr
  | cons n rest ih =>
    intro s acc s' out base ha hb h
    simp only [mapNodesE] at h
    cases hf : f s n with
    | error e => rw [hf] at h; cases h
    | ok x =>
      obtain ⟨s1, n1⟩ := x
      rw [hf] at h
      refine ih s1 _ s' out base ?_ (fun m hm => hb m (List.mem_cons_of_mem _ hm)) h
      intro m hm hr
      cases hm with
      | head => rw [hstep s n s1 n1 hf hr]; exact hb n List.mem_cons_self
      | tail _ hm => exact ha m hm hr

theorem collectBankdefs_refSub (d d' : Decls) (nodes nodes' : List AstNode) (h : collectBankdefs d nodes = .ok (d', nodes')) :
    RefSub nodes' nodes := by
  unfold collectBankdefs at h
  refine mapNodesE_refSub _ ?_ nodes d [] d' nodes' nodes (fun _ hn => by cases hn) (fun _ hn => hn) h
  intro s n s' n' hf hr
  split at hf
  · split at hf
    · cases hf
    · injection hf with hf; injection hf with _ h2; subst h2; cases hr
  · injection hf with hf; injection hf with _ h2; exact h2.symm

theorem collectBanks_refSub (d d' : Decls) (nodes nodes' : List AstNode) (h : collectBanks d nodes = .ok (d', nodes')) :
    RefSub nodes' nodes := by
  unfold collectBanks at h
  refine mapNodesE_refSub _ ?_ nodes d [] d' nodes' nodes (fun _ hn => by cases hn) (fun _ hn => hn) h
  intro s n s' n' hf hr
  split at hf
  · split at hf
    · cases hf
    · injection hf with hf; injection hf with _ h2; subst h2; cases hr
  · injection hf with hf; injection hf with _ h2; exact h2.symm

theorem collectRuledefs_refSub (d d' : Decls) (nodes nodes' : List AstNode) (h : collectRuledefs d nodes = .ok (d', nodes')) :
    RefSub nodes' nodes := by
  unfold collectRuledefs at h
  refine mapNodesE_refSub _ ?_ nodes d [] d' nodes' nodes (fun _ hn => by cases hn) (fun _ hn => hn) h
  intro s n s' n' hf hr
  split at hf
  · simp only at hf
    split at hf
    · cases hf
    · injection hf with hf; injection hf with _ h2; subst h2; cases hr
  · injection hf with hf; injection hf with _ h2; exact h2.symm

theorem collectFunctions_refSub (d d' : Decls) (nodes nodes' : List AstNode) (h : collectFunctions d nodes = .ok (d', nodes')) :
    RefSub nodes' nodes := by
  unfold collectFunctions at h
  refine mapNodesE_refSub _ ?_ nodes d [] d' nodes' nodes (fun _ hn => by cases hn) (fun _ hn => hn) h
  intro s n s' n' hf hr
  split at hf
  · split at hf
    · cases hf
    · injection hf with hf; injection hf with _ h2; subst h2; cases hr
  · injection hf with hf; injection hf with _ h2; exact h2.symm

/-- a pass over the nodes, with an invariant of the whole list -/
theorem mapNodesE_list {σ} (f : σ → AstNode → Except String (σ × AstNode)) (J : σ → List AstNode → Prop)
    (hstep : ∀ s pre n post s' n', J s (pre ++ n :: post) → f s n = .ok (s', n') → J s' (pre ++ n' :: post)) :
    ∀ (nodes : List AstNode) (s : σ) (acc : List AstNode) (s' : σ) (out : List AstNode),
      J s (acc.reverse ++ nodes) → mapNodesE f s nodes acc = .ok (s', out) → J s' out := by
  intro nodes
  induction nodes with
  | nil =>
    intro s acc s' out hj h
    simp only [mapNodesE] at h
    injection h with h; injection h with h1 h2
    subst h1; subst h2
    simpa using hj
  | cons n rest ih =>
    intro s acc s' out hj h
    simp only [mapNodesE] at h
    cases hf : f s n with
    | error e => rw [hf] at h; cases h
    | ok x =>
      obtain ⟨s1, n1⟩ := x
      rw [hf] at h
      refine ih s1 _ s' out ?_ h
      have := hstep s acc.reverse n rest s1 n1 hj hf
      simpa [List.reverse_cons, List.append_assoc] using this

theorem symFun_replace_same (pre post : List AstNode) (n : AstNode) (h : SymFun (pre ++ n :: post)) : SymFun (pre ++ n :: post) := h

/-- `collect_symbols` gives new symbol nodes fresh references -/
theorem collectSymbols_symFun (d d' : Decls) (nodes nodes' : List AstNode) (hk : KInv d.symbols nodes) (hf : SymFun nodes)
    (h : collectSymbols d nodes = .ok (d', nodes')) : SymFun nodes' := by
  unfold collectSymbols at h
  split at h
  · cases h
  · rename_i dd ctx ns hm
    injection h with h; injection h with h1 h2
    subst h1; subst h2
    have := mapNodesE_list _ (fun (s : Decls × List String) l => KInv s.1.symbols l ∧ SymFun l) ?_ nodes (d, []) [] (dd, ctx) ns
      (by simpa using ⟨hk, hf⟩) hm
    · exact this.2
    · intro s pre n post s' n' hj hstep
      obtain ⟨hki, hsf⟩ := hj
      split at hstep
      · rename_i level name kind ne ref
        cases ref with
        | some r =>
          simp only at hstep
          injection hstep with hstep; injection hstep with h1 h2
          subst h1; subst h2
          exact ⟨hki, hsf⟩
        | none =>
          simp only at hstep
          split at hstep
          · cases hstep
          · rename_i r m hd
            injection hstep with hstep; injection hstep with h1 h2
            subst h1; subst h2
            obtain ⟨hr, hlen, hkind, hext⟩ := declare_kind _ _ _ _ _ _ _ hd
            have hold : ∀ x, x ∈ pre ∨ x ∈ post → x ∈ pre ++ AstNode.symbol level name kind ne none :: post := by
              intro x hx
              rcases hx with hx | hx
              · exact List.mem_append_left _ hx
              · exact List.mem_append_right _ (List.mem_cons_of_mem _ hx)
            have hfresh : ∀ x, x ∈ pre ∨ x ∈ post → symRef x ≠ some r := by
              intro x hx heq
              have hkn := hki x (hold x hx)
              cases x with
              | symbol l2 n2 k2 ne2 r2 =>
                cases r2 with
                | none => cases heq
                | some r2 =>
                  simp only [symRef, Option.some.injEq] at heq
                  subst heq
                  simp only [KN] at hkn
                  omega
              | _ => cases heq
            constructor
            · intro x hx
              rcases List.mem_append.mp hx with hx | hx
              · exact KN_mono hext x (hki x (hold x (Or.inl hx)))
              · cases hx with
                | head =>
                  simp only [KN]
                  refine ⟨by omega, ?_⟩
                  rw [hkind]; cases kind <;> rfl
                | tail _ hx => exact KN_mono hext x (hki x (hold x (Or.inr hx)))
            · intro a ha b hb r0 h1 h2
              have cls : ∀ x, x ∈ pre ++ AstNode.symbol level name kind ne (some r) :: post →
                  x = AstNode.symbol level name kind ne (some r) ∨ (x ∈ pre ∨ x ∈ post) := by
                intro x hx
                rcases List.mem_append.mp hx with hx | hx
                · exact Or.inr (Or.inl hx)
                · cases hx with
                  | head => exact Or.inl rfl
                  | tail _ hx => exact Or.inr (Or.inr hx)
              rcases cls a ha with ea | oa
              · rcases cls b hb with eb | ob
                · rw [ea, eb]
                · exfalso
                  rw [ea] at h1
                  simp only [symRef, Option.some.injEq] at h1
                  subst h1
                  exact hfresh b ob h2
              · rcases cls b hb with eb | ob
                · exfalso
                  rw [eb] at h2
                  simp only [symRef, Option.some.injEq] at h2
                  subst h2
                  exact hfresh a oa h1
                · exact hsf a (hold a oa) b (hold b ob) r0 h1 h2
      · injection hstep with hstep; injection hstep with h1 h2
        subst h1; subst h2
        exact ⟨hki, hsf⟩

/-- declarations are only appended, and keep their full name -/
def NameExt (m m' : SymMgr) : Prop :=
  m.decls.length ≤ m'.decls.length ∧
  ∀ i, i < m.decls.length → (m'.decls.getD i default).name = (m.decls.getD i default).name

theorem NameExt.refl (m : SymMgr) : NameExt m m := ⟨Nat.le_refl _, fun _ _ => rfl⟩

theorem NameExt.trans {a b c : SymMgr} (h1 : NameExt a b) (h2 : NameExt b c) : NameExt a c :=
  ⟨Nat.le_trans h1.1 h2.1, fun i hi => by rw [h2.2 i (Nat.lt_of_lt_of_le hi h1.1), h1.2 i hi]⟩

theorem declare_name (m m' : SymMgr) (ctx : List String) (name : String) (level : Nat) (kind : DeclKind) (idx : Nat)
    (h : m.declare ctx name level kind = .ok (idx, m')) : NameExt m m' := by
  unfold SymMgr.declare at h
  split at h
  · cases h
  · simp only at h
    split at h
    · cases h
    · injection h with h; injection h with h1 h2
      subst h1
      cases hp : (m.getParent none (ctx.take level)).getD none with
      | none =>
        rw [hp] at h2; simp only at h2; subst h2
        refine ⟨by simp, ?_⟩
        intro i hi
        simp [List.getD_eq_getElem?_getD, List.getElem?_append_left hi]
      | some p =>
        rw [hp] at h2; simp only at h2; subst h2
        refine ⟨by simp, ?_⟩
        intro i hi
        have hi' : i < (m.decls.modify p fun d => { d with children := d.children ++ [(name, m.decls.length)] }).length := by simpa using hi
        simp only [List.getD_eq_getElem?_getD, List.getElem?_append_left hi', List.getElem?_modify]
        by_cases hpi : p = i
        · subst hpi
          simp only [if_true]
          cases hg : m.decls[p]? <;> simp
        · simp [hpi]

/-- where the referenced symbol nodes of `collect_symbols`' output come from -/
theorem collectSymbols_ext (d d' : Decls) (nodes nodes' : List AstNode)
    (h : collectSymbols d nodes = .ok (d', nodes')) :
    NameExt d.symbols d'.symbols ∧
      ∀ n ∈ nodes', ∀ r, symRef n = some r → n ∈ nodes ∨ d.symbols.decls.length ≤ r := by
  unfold collectSymbols at h
  split at h
  · cases h
  · rename_i dd ctx ns hm
    injection h with h; injection h with h1 h2
    subst h1; subst h2
    have key := mapNodesE_nodes _ (fun (s : Decls × List String) => NameExt d.symbols s.1.symbols)
      (fun _ n => ∀ r, symRef n = some r → n ∈ nodes ∨ d.symbols.decls.length ≤ r) ?_ nodes (d, []) [] (dd, ctx) ns (NameExt.refl _)
      (fun n hn r _ => Or.inl hn) (fun _ hn => by cases hn) hm
    · exact key
    · intro s n s' n' hi hq hf
      split at hf
      · rename_i level name kind ne ref
        cases ref with
        | some r =>
          simp only at hf
          injection hf with hf; injection hf with h1 h2
          subst h1; subst h2
          exact ⟨hi, hq, fun _ h => h⟩
        | none =>
          simp only at hf
          split at hf
          · cases hf
          · rename_i r m hd
            injection hf with hf; injection hf with h1 h2
            subst h1; subst h2
            obtain ⟨hr, _, _, _⟩ := declare_kind _ _ _ _ _ _ _ hd
            refine ⟨hi.trans (declare_name _ _ _ _ _ _ _ hd), ?_, fun _ h => h⟩
            intro r0 hr0
            simp only [symRef, Option.some.injEq] at hr0
            subst hr0
            right
            rw [hr]; exact hi.1
      · injection hf with hf; injection hf with h1 h2
        subst h1; subst h2
        exact ⟨hi, hq, fun _ h => h⟩

theorem collectFunctions_ext (d d' : Decls) (nodes nodes' : List AstNode)
    (h : collectFunctions d nodes = .ok (d', nodes')) : NameExt d.symbols d'.symbols := by
  unfold collectFunctions at h
  refine (mapNodesE_nodes _ (fun (s : Decls) => NameExt d.symbols s.symbols) (fun _ _ => True) ?_ nodes d [] d' nodes'
    (NameExt.refl _) (fun _ _ => trivial) (fun _ _ => trivial) h).1
  intro s n s' n' hi _ hf
  split at hf
  · split at hf
    · cases hf
    · rename_i r m hd
      injection hf with hf; injection hf with h1 h2
      subst h1; subst h2
      exact ⟨hi.trans (declare_name _ _ _ _ _ _ _ hd), trivial, fun _ _ => trivial⟩
  · injection hf with hf; injection hf with h1 h2
    subst h1; subst h2
    exact ⟨hi, trivial, fun _ _ => trivial⟩

theorem collect_symbols_same (d d' : Decls) (nodes nodes' : List AstNode) :
    (collectBankdefs d nodes = .ok (d', nodes') → d'.symbols = d.symbols) ∧
    (collectBanks d nodes = .ok (d', nodes') → d'.symbols = d.symbols) ∧
    (collectRuledefs d nodes = .ok (d', nodes') → d'.symbols = d.symbols) := by
  refine ⟨fun h => ?_, fun h => ?_, fun h => ?_⟩
  · unfold collectBankdefs at h
    refine (mapNodesE_nodes _ (fun (s : Decls) => s.symbols = d.symbols) (fun _ _ => True) ?_ nodes d [] d' nodes' rfl
      (fun _ _ => trivial) (fun _ _ => trivial) h).1
    intro s n s' n' hi _ hf
    split at hf
    · split at hf
      · cases hf
      · injection hf with hf; injection hf with h1 h2; subst h1; exact ⟨hi, trivial, fun _ _ => trivial⟩
    · injection hf with hf; injection hf with h1 h2; subst h1; exact ⟨hi, trivial, fun _ _ => trivial⟩
  · unfold collectBanks at h
    refine (mapNodesE_nodes _ (fun (s : Decls) => s.symbols = d.symbols) (fun _ _ => True) ?_ nodes d [] d' nodes' rfl
      (fun _ _ => trivial) (fun _ _ => trivial) h).1
    intro s n s' n' hi _ hf
    split at hf
    · split at hf
      · cases hf
      · injection hf with hf; injection hf with h1 h2; subst h1; exact ⟨hi, trivial, fun _ _ => trivial⟩
    · injection hf with hf; injection hf with h1 h2; subst h1; exact ⟨hi, trivial, fun _ _ => trivial⟩
  · unfold collectRuledefs at h
    refine (mapNodesE_nodes _ (fun (s : Decls) => s.symbols = d.symbols) (fun _ _ => True) ?_ nodes d [] d' nodes' rfl
      (fun _ _ => trivial) (fun _ _ => trivial) h).1
    intro s n s' n' hi _ hf
    split at hf
    · simp only at hf
      split at hf
      · cases hf
      · injection hf with hf; injection hf with h1 h2; subst h1; exact ⟨hi, trivial, fun _ _ => trivial⟩
    · injection hf with hf; injection hf with h1 h2; subst h1; exact ⟨hi, trivial, fun _ _ => trivial⟩

/-- **`collect_all`**: names are kept, references stay functional, and a referenced symbol node of
    the output is an old one or carries a reference beyond the old table -/
theorem collectAll_ext (d d' : Decls) (nodes nodes' : List AstNode) (hk : KInv d.symbols nodes) (hf : SymFun nodes)
    (h : collectAll d nodes = .ok (d', nodes')) :
    NameExt d.symbols d'.symbols ∧ SymFun nodes' ∧
      ∀ n ∈ nodes', ∀ r, symRef n = some r → n ∈ nodes ∨ d.symbols.decls.length ≤ r := by
  unfold collectAll at h
  simp only [bind, Except.bind] at h
  cases h1 : collectBankdefs d nodes with
  | error e => rw [h1] at h; cases h
  | ok x1 =>
    obtain ⟨d1, n1⟩ := x1
    rw [h1] at h
    simp only at h
    cases h2 : collectBanks d1 n1 with
    | error e => rw [h2] at h; cases h
    | ok x2 =>
      obtain ⟨d2, n2⟩ := x2
      rw [h2] at h
      simp only at h
      cases h3 : collectRuledefs d2 n2 with
      | error e => rw [h3] at h; cases h
      | ok x3 =>
        obtain ⟨d3, n3⟩ := x3
        rw [h3] at h
        simp only at h
        cases h4 : collectSymbols d3 n3 with
        | error e => rw [h4] at h; cases h
        | ok x4 =>
          obtain ⟨d4, n4⟩ := x4
          rw [h4] at h
          simp only at h
          have k1 := collectBankdefs_kinv d d1 nodes n1 hk h1
          have k2 := collectBanks_kinv d1 d2 n1 n2 k1 h2
          have k3 := collectRuledefs_kinv d2 d3 n2 n3 k2 h3
          have e1 := (collect_symbols_same d d1 nodes n1).1 h1
          have e2 := (collect_symbols_same d1 d2 n1 n2).2.1 h2
          have e3 := (collect_symbols_same d2 d3 n2 n3).2.2 h3
          have e13 : d3.symbols = d.symbols := by rw [e3, e2, e1]
          have r1 := collectBankdefs_refSub d d1 nodes n1 h1
          have r2 := collectBanks_refSub d1 d2 n1 n2 h2
          have r3 := collectRuledefs_refSub d2 d3 n2 n3 h3
          have r13 : RefSub n3 nodes := r3.trans (r2.trans r1)
          have f3 : SymFun n3 := hf.sub r13
          have f4 := collectSymbols_symFun d3 d4 n3 n4 k3 f3 h4
          obtain ⟨x4, o4⟩ := collectSymbols_ext d3 d4 n3 n4 h4
          have x5 := collectFunctions_ext d4 d' n4 nodes' h
          have r5 := collectFunctions_refSub d4 d' n4 nodes' h
          refine ⟨?_, f4.sub r5, ?_⟩
          · have := x4.trans x5
            rw [e13] at this; exact this
          · intro n hn r hr
            have hn4 := r5 n hn (by rw [hr]; rfl)
            rcases o4 n hn4 r hr with h | h
            · exact Or.inl (r13 n h (by rw [hr]; rfl))
            · right; rw [e13] at h; exact h

/-! ## the facts about symbol slots -/

theorem evalSimple_indep (d1 d2 : Decls) (f1 f2 : Defs) (e : Expr) (hk : staticallyKnown pureP e = true) :
    evalSimple d2 f2 e = evalSimple d1 f1 e := by
  rw [evalSimple_eq, evalSimple_eq]
  have ag : Agree pureP (simpleEnv d1 f1) (simpleEnv d2 f2) := by
    refine ⟨fun l path hq => (by cases hq), fun _ _ _ => rfl, ?_⟩
    intro n hq _
    exact ⟨n, simpleEnv_asmBuiltin d1 f1 n hq, simpleEnv_asmBuiltin d2 f2 n hq⟩
  have hp : ProviderOK pureP := fun n _ => rfl
  have hc : CtxInv pureP {} := ⟨fun n _ _ => rfl, fun n l hl _ => by cases hl⟩
  rw [(eval_static pureP hp _ _ ag {} e hk hc).1]

def notDefined (opts : Opts) (d : Decls) (r : Nat) : Bool :=
  (opts.defines.find? (·.1 == (d.symbols.decls.getD r default).name)).isNone

/-- what holds of the slot of a referenced symbol node -/
def NI (opts : Opts) (d : Decls) (defs : Defs) (n : AstNode) : Prop :=
  match n with
  | .symbol _ _ .label _ (some r) => (defs.sym r).value = .unknown
  | .symbol _ _ (.constant e) _ (some r) =>
    ((defs.symbols.getD r none).isSome = true → (defs.sym r).known = staticallyKnown pureP e) ∧
    ((defs.sym r).resolved = true → (defs.sym r).known = true → notDefined opts d r = true →
      (defs.sym r).value ≠ .unknown ∧ ∀ d' defs', evalSimple d' defs' e = .ok (defs.sym r).value)
  | _ => True

structure FInv (opts : Opts) (d : Decls) (defs : Defs) (nodes : List AstNode) : Prop where
  kinv : KInv d.symbols nodes
  fn : SymFun nodes
  s0 : ∀ r, (defs.symbols.getD r none).isSome = true → r < d.symbols.decls.length
  ni : ∀ n ∈ nodes, NI opts d defs n

def SlotsOK (defs : Defs) (nodes : List AstNode) : Prop :=
  ∀ n ∈ nodes, ∀ r, symRef n = some r → (defs.symbols.getD r none).isSome = true

theorem sym_of_noslot (defs : Defs) (r : Nat) (h : (defs.symbols.getD r none).isSome = false) : defs.sym r = {} := by
  unfold Defs.sym
  cases hx : defs.symbols.getD r none with
  | none => rfl
  | some s => rw [hx] at h; cases h

theorem FInv.collect {opts : Opts} {d d' : Decls} {defs : Defs} {nodes nodes' : List AstNode} (f : FInv opts d defs nodes)
    (h : collectAll d nodes = .ok (d', nodes')) : FInv opts d' defs nodes' := by
  obtain ⟨hext, hfn, hsrc⟩ := collectAll_ext d d' nodes nodes' f.kinv f.fn h
  refine ⟨collectAll_kinv d d' nodes nodes' f.kinv h, hfn, fun r hr => Nat.lt_of_lt_of_le (f.s0 r hr) hext.1, ?_⟩
  intro n hn
  cases hr : symRef n with
  | none =>
    -- not a referenced symbol node
    cases n with
    | symbol l nm kd ne rr =>
      cases rr with
      | none => cases kd <;> trivial
      | some r => cases hr
    | _ => trivial
  | some r =>
    rcases hsrc n hn r hr with hold | hnew
    · -- an old node: the name of its declaration is unchanged
      have hni := f.ni n hold
      have hkn := f.kinv n hold
      cases n with
      | symbol l nm kd ne rr =>
        cases rr with
        | none => cases hr
        | some r' =>
          simp only [symRef, Option.some.injEq] at hr
          subst hr
          simp only [KN] at hkn
          cases kd with
          | label => exact hni
          | constant e =>
            simp only [NI] at hni ⊢
            refine ⟨hni.1, fun h1 h2 h3 => hni.2 h1 h2 ?_⟩
            unfold notDefined at h3 ⊢
            rw [hext.2 r' hkn.1] at h3
            exact h3
      | _ => cases hr
    · -- a new node: its slot does not exist yet
      have hno : (defs.symbols.getD r none).isSome = false := by
        cases hx : (defs.symbols.getD r none).isSome with
        | false => rfl
        | true => have := f.s0 r hx; omega
      have hs := sym_of_noslot defs r hno
      cases n with
      | symbol l nm kd ne rr =>
        cases rr with
        | none => cases hr
        | some r' =>
          simp only [symRef, Option.some.injEq] at hr
          subst hr
          cases kd with
          | label => simp only [NI, hs]
          | constant e =>
            simp only [NI, hs, hno]
            exact ⟨fun h => (by cases h), fun h => (by cases h)⟩
      | _ => cases hr

theorem slot_padset (l : List (Option SymDef)) (r r' : Nat) (sd : SymDef) :
    ((padTo l r none).set r (some sd)).getD r' none = if r' = r then some sd else l.getD r' none := by
  by_cases h : r' = r
  · subst h
    simp only [if_true]
    exact getD_set_self_lt _ _ _ _ (padTo_length_gt _ _ _)
  · simp only [h, if_false]
    rw [getD_set_ne _ _ _ _ _ (Ne.symm h), padTo_getD]

/-- `NI` reads the state through the slot and the entry of the node's own symbol only -/
theorem NI_congr (opts : Opts) (d : Decls) (defs defs' : Defs) (n : AstNode)
    (h : ∀ r, symRef n = some r → defs'.sym r = defs.sym r ∧ (defs'.symbols.getD r none).isSome = (defs.symbols.getD r none).isSome)
    (hn : NI opts d defs n) : NI opts d defs' n := by
  cases n with
  | symbol l nm kd ne rr =>
    cases rr with
    | none => cases kd <;> trivial
    | some r =>
      obtain ⟨h1, h2⟩ := h r rfl
      cases kd with
      | label => simp only [NI, h1] at hn ⊢; exact hn
      | constant e => simp only [NI, h1, h2] at hn ⊢; exact hn
  | _ => trivial

theorem FInv.define_step {opts : Opts} {d : Decls} {defs : Defs} {nodes : List AstNode} (f : FInv opts d defs nodes)
    (lv : Nat) (nm : String) (kind : SymKind) (ne : Bool) (r : Nat) (hn : AstNode.symbol lv nm kind ne (some r) ∈ nodes)
    (hno : (defs.symbols.getD r none).isSome = false) (known : Bool)
    (hk : ∀ e, kind = .constant e → known = staticallyKnown pureP e) :
    FInv opts d { defs with symbols := (padTo defs.symbols r none).set r (some { noEmit := ne, known := known }) } nodes := by
  refine ⟨f.kinv, f.fn, fun r' hr' => ?_, fun m hm => ?_⟩
  · simp only [slot_padset] at hr'
    by_cases he : r' = r
    · subst he
      have := f.kinv _ hn
      simp only [KN] at this
      exact this.1
    · simp only [he, if_false] at hr'
      exact f.s0 r' hr'
  · by_cases hr : symRef m = some r
    · have hm' : m = AstNode.symbol lv nm kind ne (some r) := f.fn m hm _ hn r hr rfl
      subst hm'
      cases kind with
      | label =>
        simp only [NI, sym_padset, if_true]
      | constant e =>
        simp only [NI, sym_padset, slot_padset, if_true]
        exact ⟨fun _ => hk e rfl, fun h => (by cases h)⟩
    · refine NI_congr opts d defs _ m (fun r' hr' => ?_) (f.ni m hm)
      have hne : r' ≠ r := fun he => hr (by rw [hr', he])
      simp only [sym_padset, slot_padset, hne, if_false]
      exact ⟨trivial, trivial⟩

def defineStep (defs : Defs) (n : AstNode) : Defs :=
  match n with
  | .symbol _ _ kind ne (some r) =>
    if ((defs.symbols.getD r none).isSome) then defs
    else
      let known := match kind with
        | .constant e => staticallyKnown { queryFunction := asmBuiltinKnown } e
        | .label => false
      { defs with symbols := (padTo defs.symbols r none).set r (some { noEmit := ne, known := known }) }
  | _ => defs

theorem defineSymbols_eq (defs : Defs) (l : List AstNode) : defineSymbols defs l = l.foldl defineStep defs := rfl

theorem FInv.define_one {opts : Opts} {d : Decls} {defs : Defs} {nodes : List AstNode} (f : FInv opts d defs nodes)
    (n : AstNode) (hn : n ∈ nodes) :
    FInv opts d (Casm.defineStep defs n) nodes ∧
      (∀ r, symRef n = some r → ((Casm.defineStep defs n).symbols.getD r none).isSome = true) ∧
      (∀ r, (defs.symbols.getD r none).isSome = true → ((Casm.defineStep defs n).symbols.getD r none).isSome = true) := by
  cases n with
  | symbol lv nm kind ne rr =>
    cases rr with
    | none => exact ⟨f, fun _ h => (by cases h), fun _ h => h⟩
    | some r =>
      by_cases hs : (defs.symbols.getD r none).isSome = true
      · have : Casm.defineStep defs (.symbol lv nm kind ne (some r)) = defs := by simp only [Casm.defineStep, hs, if_true]
        rw [this]
        refine ⟨f, fun r' hr' => ?_, fun _ h => h⟩
        simp only [symRef, Option.some.injEq] at hr'
        subst hr'; exact hs
      · have hno : (defs.symbols.getD r none).isSome = false := by simpa using hs
        have key : ∀ (known : Bool), (∀ e, kind = .constant e → known = staticallyKnown pureP e) →
            let defs1 : Defs := { defs with symbols := (padTo defs.symbols r none).set r (some { noEmit := ne, known := known }) }
            FInv opts d defs1 nodes ∧
              (∀ r', symRef (AstNode.symbol lv nm kind ne (some r)) = some r' → (defs1.symbols.getD r' none).isSome = true) ∧
              (∀ r', (defs.symbols.getD r' none).isSome = true → (defs1.symbols.getD r' none).isSome = true) := by
          intro known hk
          refine ⟨f.define_step lv nm kind ne r hn hno known hk, fun r' hr' => ?_, fun r' hr' => ?_⟩
          · simp only [symRef, Option.some.injEq] at hr'
            subst hr'
            simp only [slot_padset, if_true, Option.isSome_some]
          · simp only [slot_padset]
            by_cases he : r' = r
            · simp only [he, if_true, Option.isSome_some]
            · simp only [he, if_false]; exact hr'
        cases kind with
        | label =>
          have : Casm.defineStep defs (.symbol lv nm .label ne (some r)) =
              { defs with symbols := (padTo defs.symbols r none).set r (some { noEmit := ne, known := false }) } := by
            simp only [Casm.defineStep, hno, Bool.false_eq_true, if_false]
          rw [this]
          exact key false (fun e he => by cases he)
        | constant e =>
          have : Casm.defineStep defs (.symbol lv nm (.constant e) ne (some r)) =
              { defs with symbols := (padTo defs.symbols r none).set r (some { noEmit := ne, known := staticallyKnown pureP e }) } := by
            simp only [Casm.defineStep, hno, Bool.false_eq_true, if_false]
            rfl
          rw [this]
          exact key _ (fun e' he => by injection he with he; rw [he])
  | _ => exact ⟨f, fun _ h => (by cases h), fun _ h => h⟩

theorem FInv.define {opts : Opts} {d : Decls} {nodes : List AstNode} :
    ∀ (l : List AstNode) (defs : Defs), (∀ n ∈ l, n ∈ nodes) → FInv opts d defs nodes →
      FInv opts d (defineSymbols defs l) nodes ∧
      (∀ n ∈ l, ∀ r, symRef n = some r → ((defineSymbols defs l).symbols.getD r none).isSome = true) ∧
      (∀ r, (defs.symbols.getD r none).isSome = true → ((defineSymbols defs l).symbols.getD r none).isSome = true) := by
  intro l
  induction l with
  | nil => intro defs _ f; exact ⟨f, fun _ hn => (by cases hn), fun _ h => h⟩
  | cons n rest ih =>
    intro defs hsub f
    have hrest : ∀ m ∈ rest, m ∈ nodes := fun m hm => hsub m (List.mem_cons_of_mem _ hm)
    obtain ⟨f1, s1, m1⟩ := f.define_one n (hsub n List.mem_cons_self)
    obtain ⟨f2, s2, m2⟩ := ih (Casm.defineStep defs n) hrest f1
    rw [defineSymbols_eq, List.foldl_cons, ← defineSymbols_eq]
    refine ⟨f2, fun m hm r hr => ?_, fun r hr => m2 r (m1 r hr)⟩
    cases hm with
    | head => exact m2 r (s1 r hr)
    | tail _ hm => exact s2 m hm r hr

/-- the entry `resolve_constants_simple` writes for an evaluated constant -/
def writeOf (opts : Opts) (s : SymDef) (v : Value) : SymDef :=
  match v with
  | .unknown => { s with value := v }
  | _ => if opts.optStatic && s.known then { s with value := v, resolved := true } else { s with value := v }

/-- induction principle for `resolve_constants_simple`: every write is one of two kinds, at a
    constant node of the list, on a symbol that is not marked -/
theorem resolveConstantsSimple_ind (opts : Opts) (d : Decls) (nodes : List AstNode) (P : Defs → Prop)
    (hdef : ∀ defs lv nm e ne r dv, AstNode.symbol lv nm (.constant e) ne (some r) ∈ nodes → P defs → (defs.sym r).resolved = false →
      opts.defines.find? (·.1 == (d.symbols.decls.getD r default).name) = some dv →
      P (defs.setSym r { defs.sym r with value := dv.2, resolved := true }))
    (hev : ∀ defs lv nm e ne r v, AstNode.symbol lv nm (.constant e) ne (some r) ∈ nodes → P defs → (defs.sym r).resolved = false →
      opts.defines.find? (·.1 == (d.symbols.decls.getD r default).name) = none → evalSimple d defs e = .ok v →
      P (defs.setSym r (writeOf opts (defs.sym r) v))) :
    ∀ (l : List AstNode), (∀ n ∈ l, n ∈ nodes) → ∀ (defs defs' : Defs) (c : Nat), P defs →
      resolveConstantsSimple opts d defs l = .ok (defs', c) → P defs' := by
  have key : ∀ (l : List AstNode), (∀ n ∈ l, n ∈ nodes) → ∀ (acc : Except String (Defs × Nat)) (defs' : Defs) (c : Nat),
      (∀ x k, acc = .ok (x, k) → P x) →
      l.foldl (fun acc n =>
        match acc with
        | .error e => .error e
        | .ok (defs, count) =>
          match n with
          | .symbol _ _ (.constant e) _ (some r) =>
            let s := defs.sym r
            if s.resolved then .ok (defs, count + 1)
            else
              let fullName := (d.symbols.decls.getD r default).name
              match opts.defines.find? (·.1 == fullName) with
              | some dv => .ok (defs.setSym r { s with value := dv.2, resolved := true }, count + 1)
              | none =>
                match evalSimple d defs e with
                | .error m => .error m
                | .ok v =>
                  let s' := { s with value := v }
                  match v with
                  | .unknown => .ok (defs.setSym r s', count)
                  | _ =>
                    if opts.optStatic && s.known then .ok (defs.setSym r { s' with resolved := true }, count + 1)
                    else .ok (defs.setSym r s', count + 1)
          | _ => .ok (defs, count)) acc = .ok (defs', c) → P defs' := by
    intro l
    induction l with
    | nil => intro _ acc defs' c hacc h; exact hacc defs' c h
    | cons n rest ih =>
      intro hsub acc defs' c hacc h
      rw [List.foldl_cons] at h
      refine ih (fun m hm => hsub m (List.mem_cons_of_mem _ hm)) _ defs' c ?_ h
      intro x k hx
      have hn := hsub n List.mem_cons_self
      cases acc with
      | error e => cases hx
      | ok y =>
        obtain ⟨y1, y2⟩ := y
        have hy := hacc y1 y2 rfl
        simp only at hx
        split at hx
        · rename_i lv nm e ne r
          split at hx
          · injection hx with hx; injection hx with h1 _; rw [← h1]; exact hy
          · rename_i hres
            have hres' : (y1.sym r).resolved = false := by simpa using hres
            split at hx
            · rename_i dv hfind
              injection hx with hx; injection hx with h1 _; rw [← h1]
              exact hdef y1 lv nm e ne r dv hn hy hres' hfind
            · rename_i hfind
              split at hx
              · cases hx
              · rename_i v hevs
                have hw := hev y1 lv nm e ne r v hn hy hres' hfind hevs
                split at hx
                · injection hx with hx; injection hx with h1 _; rw [← h1]
                  simpa [writeOf] using hw
                · rename_i hnu
                  split at hx
                  · rename_i hc
                    injection hx with hx; injection hx with h1 _; rw [← h1]
                    have : writeOf opts (y1.sym r) v = { y1.sym r with value := v, resolved := true } := by
                      unfold writeOf
                      split
                      · exact absurd rfl (hnu)
                      · simp only [hc, if_true]
                    rw [this] at hw; exact hw
                  · rename_i hc
                    injection hx with hx; injection hx with h1 _; rw [← h1]
                    have : writeOf opts (y1.sym r) v = { y1.sym r with value := v } := by
                      unfold writeOf
                      split
                      · exact absurd rfl (hnu)
                      · simp only [hc, Bool.false_eq_true, if_false]
                    rw [this] at hw; exact hw
        · injection hx with hx; injection hx with h1 _; rw [← h1]; exact hy
  intro l hsub defs defs' c hp h
  unfold resolveConstantsSimple at h
  exact key l hsub (.ok (defs, 0)) defs' c (fun x k hx => by injection hx with hx; injection hx with h1 _; rw [← h1]; exact hp) h

theorem slot_setSym (defs : Defs) (r r' : Nat) (s' : SymDef) (hs : (defs.symbols.getD r none).isSome = true) :
    ((defs.setSym r s').symbols.getD r' none).isSome = (defs.symbols.getD r' none).isSome := by
  unfold Defs.setSym
  simp only
  rcases getD_set_eq_or defs.symbols r r' (some s') none with h | ⟨h1, h2⟩
  · rw [h]
  · subst h1; rw [h2, hs]; rfl

theorem sym_setSym_self (defs : Defs) (r : Nat) (s' : SymDef) (hs : (defs.symbols.getD r none).isSome = true) :
    (defs.setSym r s').sym r = s' := by
  have hin : r < defs.symbols.length := by
    by_cases hl : r < defs.symbols.length
    · exact hl
    · have : defs.symbols.getD r none = none := by simp [List.getD_eq_getElem?_getD, Nat.not_lt.mp hl]
      rw [this] at hs; cases hs
  unfold Defs.setSym Defs.sym
  simp only [getD_set_self_lt defs.symbols r _ none hin]
  rfl

/-- one write of `resolve_constants_simple` -/
theorem FInv.write {opts : Opts} {d : Decls} {defs : Defs} {nodes : List AstNode} (f : FInv opts d defs nodes) (hs : SlotsOK defs nodes)
    (lv : Nat) (nm : String) (e : Expr) (ne : Bool) (r : Nat) (hn : AstNode.symbol lv nm (.constant e) ne (some r) ∈ nodes)
    (s' : SymDef) (hni : NI opts d (defs.setSym r s') (.symbol lv nm (.constant e) ne (some r))) :
    FInv opts d (defs.setSym r s') nodes ∧ SlotsOK (defs.setSym r s') nodes := by
  have hslot := hs _ hn r rfl
  refine ⟨⟨f.kinv, f.fn, fun r' hr' => f.s0 r' (by rw [slot_setSym defs r r' s' hslot] at hr'; exact hr'), fun m hm => ?_⟩,
    fun m hm r' hr' => by rw [slot_setSym defs r r' s' hslot]; exact hs m hm r' hr'⟩
  by_cases hr : symRef m = some r
  · have hm' : m = AstNode.symbol lv nm (.constant e) ne (some r) := f.fn m hm _ hn r hr rfl
    rw [hm']; exact hni
  · refine NI_congr opts d defs _ m (fun r' hr' => ?_) (f.ni m hm)
    have hne : r' ≠ r := fun he => hr (by rw [hr', he])
    refine ⟨?_, slot_setSym defs r r' s' hslot⟩
    rcases sym_setSym defs r r' s' with h | ⟨h1, _⟩
    · exact h
    · exact absurd h1 hne

theorem FInv.step_def {opts : Opts} {d : Decls} {x : Defs} {nodes : List AstNode} (fx : FInv opts d x nodes) (sx : SlotsOK x nodes)
    (lv : Nat) (nm : String) (e : Expr) (ne : Bool) (r : Nat) (dv : String × Value)
    (hn : AstNode.symbol lv nm (.constant e) ne (some r) ∈ nodes)
    (hfind : opts.defines.find? (·.1 == (d.symbols.decls.getD r default).name) = some dv) :
    FInv opts d (x.setSym r { x.sym r with value := dv.2, resolved := true }) nodes ∧
      SlotsOK (x.setSym r { x.sym r with value := dv.2, resolved := true }) nodes := by
  have hslot := sx _ hn r rfl
  refine fx.write sx lv nm e ne r hn _ ?_
  have hni := fx.ni _ hn
  simp only [NI] at hni ⊢
  rw [sym_setSym_self x r _ hslot, slot_setSym x r r _ hslot]
  refine ⟨hni.1, fun _ _ hnd => ?_⟩
  unfold notDefined at hnd
  rw [hfind] at hnd
  cases hnd

theorem FInv.step_ev {opts : Opts} {d : Decls} {x : Defs} {nodes : List AstNode} (fx : FInv opts d x nodes) (sx : SlotsOK x nodes)
    (lv : Nat) (nm : String) (e : Expr) (ne : Bool) (r : Nat) (v : Value)
    (hn : AstNode.symbol lv nm (.constant e) ne (some r) ∈ nodes) (hres : (x.sym r).resolved = false)
    (hev : evalSimple d x e = .ok v) :
    FInv opts d (x.setSym r (writeOf opts (x.sym r) v)) nodes ∧ SlotsOK (x.setSym r (writeOf opts (x.sym r) v)) nodes := by
  have hslot := sx _ hn r rfl
  refine fx.write sx lv nm e ne r hn _ ?_
  have hni := fx.ni _ hn
  simp only [NI] at hni ⊢
  rw [sym_setSym_self x r _ hslot, slot_setSym x r r _ hslot]
  have hkn : (writeOf opts (x.sym r) v).known = (x.sym r).known := by
    unfold writeOf; split <;> (try split) <;> rfl
  refine ⟨fun hsl => by rw [hkn]; exact hni.1 hsl, fun hr hk _ => ?_⟩
  rw [hkn] at hk
  unfold writeOf at hr ⊢
  split at hr
  · simp only at hr; rw [hres] at hr; cases hr
  · rename_i hnu
    split at hr
    · rename_i hc
      simp only [hc, if_true]
      have hpure : staticallyKnown pureP e = true := by rw [← hni.1 hslot]; exact hk
      refine ⟨fun hu => hnu (by simpa using hu), fun d' defs'' => ?_⟩
      rw [evalSimple_indep d d' x defs'' e hpure]; exact hev
    · simp only at hr; rw [hres] at hr; cases hr

/-- **`resolve_constants_simple` keeps the slot facts** -/
theorem FInv.consts {opts : Opts} {d : Decls} {defs defs' : Defs} {nodes : List AstNode} {c : Nat}
    (f : FInv opts d defs nodes) (hs : SlotsOK defs nodes)
    (h : resolveConstantsSimple opts d defs nodes = .ok (defs', c)) : FInv opts d defs' nodes ∧ SlotsOK defs' nodes := by
  refine resolveConstantsSimple_ind opts d nodes (fun x => FInv opts d x nodes ∧ SlotsOK x nodes) ?_ ?_ nodes (fun _ hn => hn)
    defs defs' c ⟨f, hs⟩ h
  · intro x lv nm e ne r dv hn hp _ hfind
    exact hp.1.step_def hp.2 lv nm e ne r dv hn hfind
  · intro x lv nm e ne r v hn hp hres _ hev
    exact hp.1.step_ev hp.2 lv nm e ne r v hn hres hev

/-- the step function of `resolve_constants_simple` -/
def constStep (opts : Opts) (d : Decls) (acc : Except String (Defs × Nat)) (n : AstNode) : Except String (Defs × Nat) :=
  match acc with
  | .error e => .error e
  | .ok (defs, count) =>
    match n with
    | .symbol _ _ (.constant e) _ (some r) =>
      let s := defs.sym r
      if s.resolved then .ok (defs, count + 1)
      else
        let fullName := (d.symbols.decls.getD r default).name
        match opts.defines.find? (·.1 == fullName) with
        | some dv => .ok (defs.setSym r { s with value := dv.2, resolved := true }, count + 1)
        | none =>
          match evalSimple d defs e with
          | .error m => .error m
          | .ok v =>
            let s' := { s with value := v }
            match v with
            | .unknown => .ok (defs.setSym r s', count)
            | _ =>
              if opts.optStatic && s.known then .ok (defs.setSym r { s' with resolved := true }, count + 1)
              else .ok (defs.setSym r s', count + 1)
    | _ => .ok (defs, count)

theorem resolveConstantsSimple_eq (opts : Opts) (d : Decls) (defs : Defs) (l : List AstNode) :
    resolveConstantsSimple opts d defs l = l.foldl (constStep opts d) (.ok (defs, 0)) := rfl

theorem resolveIfs_refSub (d : Decls) (defs : Defs) (nodes out : List AstNode) (k : Nat)
    (h : resolveIfs d defs nodes = .ok (out, k)) : RefSub out nodes := by
  unfold resolveIfs at h
  have key : ∀ (l : List AstNode) (acc : Except String (List AstNode × Nat)) (out : List AstNode) (k : Nat),
      (∀ n ∈ l, n ∈ nodes) → (∀ o c, acc = .ok (o, c) → RefSub o nodes) →
      l.foldl (fun acc n =>
        match acc with
        | .error e => .error e
        | .ok (out, count) =>
          match n with
          | .ifDir cond t f =>
            match evalSimple d defs cond with
            | .error m => .error m
            | .ok (.bool true) => .ok (t.map AstNode.fresh ++ out, count + 1)
            | .ok (.bool false) => .ok ((f.getD []).map AstNode.fresh ++ out, count + 1)
            | .ok _ => .ok (n :: out, count)
          | _ => .ok (n :: out, count)) acc = .ok (out, k) → RefSub out nodes := by
    intro l
    induction l with
    | nil => intro acc out k _ ha h; exact ha out k h
    | cons n rest ih =>
      intro acc out k hl ha h
      rw [List.foldl_cons] at h
      refine ih _ out k (fun x hx => hl x (List.mem_cons_of_mem _ hx)) ?_ h
      intro o c ho
      have hn := hl n (List.mem_cons_self ..)
      cases acc with
      | error e => cases ho
      | ok x =>
        obtain ⟨o0, c0⟩ := x
        have h0 := ha o0 c0 rfl
        have hcons : RefSub (n :: o0) nodes := by
          intro x hx hr
          cases hx with
          | head => exact hn
          | tail _ hx => exact h0 x hx hr
        have hfresh : ∀ (t : List AstNode), RefSub (t.map AstNode.fresh ++ o0) nodes := by
          intro t x hx hr
          rcases List.mem_append.mp hx with hx | hx
          · obtain ⟨y, _, rfl⟩ := List.mem_map.mp hx
            rw [symRef_fresh] at hr; cases hr
          · exact h0 x hx hr
        simp only at ho
        split at ho
        · split at ho
          · cases ho
          · injection ho with ho; injection ho with h1 _; rw [← h1]; exact hfresh _
          · injection ho with ho; injection ho with h1 _; rw [← h1]; exact hfresh _
          · injection ho with ho; injection ho with h1 _; rw [← h1]; exact hcons
        · injection ho with ho; injection ho with h1 _; rw [← h1]; exact hcons
  exact key nodes.reverse (.ok ([], 0)) out k (fun n hn => List.mem_reverse.mp hn)
    (fun o c ho => by injection ho with ho; injection ho with h1 _; rw [← h1]; intro x hx; cases hx) h

theorem FInv.sub {opts : Opts} {d : Decls} {defs : Defs} {nodes out : List AstNode} (f : FInv opts d defs nodes)
    (hk : KInv d.symbols out) (hs : RefSub out nodes) : FInv opts d defs out := by
  refine ⟨hk, f.fn.sub hs, f.s0, fun n hn => ?_⟩
  cases hr : symRef n with
  | none =>
    cases n with
    | symbol l nm kd ne rr =>
      cases rr with
      | none => cases kd <;> trivial
      | some r => cases hr
    | _ => trivial
  | some r => exact f.ni n (hs n hn (by rw [hr]; rfl))

theorem SlotsOK.sub {defs : Defs} {nodes out : List AstNode} (h : SlotsOK defs nodes) (hs : RefSub out nodes) : SlotsOK defs out :=
  fun n hn r hr => h n (hs n hn (by rw [hr]; rfl)) r hr

/-- **the declaration loop establishes the slot facts** -/
theorem declLoop_finv (opts : Opts) :
    ∀ (fuel : Nat) (d : Decls) (defs : Defs) (nodes : List AstNode) (prev : Nat) (d' : Decls) (defs' : Defs) (nodes' : List AstNode),
      FInv opts d defs nodes → declLoop opts fuel d defs nodes prev = .ok (d', defs', nodes') →
      FInv opts d' defs' nodes' ∧ SlotsOK defs' nodes' := by
  intro fuel
  induction fuel with
  | zero => intro d defs nodes prev d' defs' nodes' _ h; simp [declLoop] at h
  | succ f ih =>
    intro d defs nodes prev d' defs' nodes' fi h
    simp only [declLoop] at h
    cases hc : collectAll d nodes with
    | error e => rw [hc] at h; cases h
    | ok x =>
      obtain ⟨d1, n1⟩ := x
      rw [hc] at h
      simp only at h
      have f1 := fi.collect hc
      obtain ⟨f2, s2, _⟩ := FInv.define (opts := opts) (d := d1) (nodes := n1) n1 defs (fun _ hn => hn) f1
      cases hr : resolveConstantsSimple opts d1 (defineSymbols defs n1) n1 with
      | error e => rw [hr] at h; cases h
      | ok y =>
        obtain ⟨defs2, cnt⟩ := y
        rw [hr] at h
        simp only at h
        obtain ⟨f3, s3⟩ := f2.consts (fun n hn r hr' => s2 n hn r hr') hr
        split at h
        · cases h
        · rename_i nodes2 ifs hri
          have hsub := resolveIfs_refSub d1 defs2 n1 nodes2 ifs hri
          have hk2 := resolveIfs_kinv d1.symbols _ _ _ _ _ f3.kinv hri
          split at h
          · injection h with h; injection h with h1 h; injection h with h2 h3
            subst h1 h2 h3
            exact ⟨f3.sub hk2 hsub, s3.sub hsub⟩
          · exact ih _ _ _ _ _ _ _ (f3.sub hk2 hsub) h

/-! ## `define_remaining` and `match_all` -/

theorem FInv.symbols_congr {opts : Opts} {d : Decls} {defs defs' : Defs} {nodes : List AstNode} (h : defs'.symbols = defs.symbols)
    (f : FInv opts d defs nodes) : FInv opts d defs' nodes := by
  refine ⟨f.kinv, f.fn, fun r hr => f.s0 r (by rw [h] at hr; exact hr), fun n hn => ?_⟩
  exact NI_congr opts d defs defs' n (fun r _ => ⟨sym_of_symbols_eq h r, by rw [h]⟩) (f.ni n hn)

theorem SlotsOK.symbols_congr {defs defs' : Defs} {nodes : List AstNode} (h : defs'.symbols = defs.symbols)
    (s : SlotsOK defs nodes) : SlotsOK defs' nodes := fun n hn r hr => by rw [h]; exact s n hn r hr

/-- the function symbols are defined beside the symbol nodes' slots -/
theorem fnFold_finv (opts : Opts) (d : Decls) (base : Defs) (nodes : List AstNode) :
    ∀ (l : List AstNode) (acc : List FnDef × List (Option SymDef)), (∀ n ∈ l, n ∈ nodes) →
      FInv opts d { base with symbols := acc.2 } nodes → SlotsOK { base with symbols := acc.2 } nodes →
      FInv opts d { base with symbols := (l.foldl (fun (acc : List FnDef × List (Option SymDef)) n =>
        match n with
        | .fn _ ps body (some r) =>
          let idx := acc.1.length
          (acc.1 ++ [⟨r, ps, body⟩],
           (padTo acc.2 r none).set r (some { noEmit := true, known := true, value := .fn idx, resolved := true }))
        | _ => acc) acc).2 } nodes ∧
      SlotsOK { base with symbols := (l.foldl (fun (acc : List FnDef × List (Option SymDef)) n =>
        match n with
        | .fn _ ps body (some r) =>
          let idx := acc.1.length
          (acc.1 ++ [⟨r, ps, body⟩],
           (padTo acc.2 r none).set r (some { noEmit := true, known := true, value := .fn idx, resolved := true }))
        | _ => acc) acc).2 } nodes := by
  intro l
  induction l with
  | nil => intro acc _ f s; exact ⟨f, s⟩
  | cons n rest ih =>
    intro acc hsub f s
    rw [List.foldl_cons]
    have hrest : ∀ m ∈ rest, m ∈ nodes := fun m hm => hsub m (List.mem_cons_of_mem _ hm)
    split
    · rename_i nm ps body r
      have hkn := f.kinv _ (hsub _ List.mem_cons_self)
      simp only [KN] at hkn
      apply ih _ hrest
      · -- FInv after defining the function symbol at `r`
        refine ⟨f.kinv, f.fn, fun r' hr' => ?_, fun m hm => ?_⟩
        · simp only [slot_padset] at hr'
          by_cases he : r' = r
          · rw [he]; exact hkn.1
          · simp only [he, if_false] at hr'; exact f.s0 r' hr'
        · refine NI_congr opts d { base with symbols := acc.2 } _ m (fun r' hr' => ?_) (f.ni m hm)
          have hne : r' ≠ r := by
            intro he
            subst he
            have hkm := f.kinv m hm
            cases m with
            | symbol l2 n2 k2 ne2 rr =>
              cases rr with
              | none => cases hr'
              | some r2 =>
                simp only [symRef, Option.some.injEq] at hr'
                subst hr'
                simp only [KN] at hkm
                rw [hkn.2] at hkm
                cases k2 <;> (simp [kindOfSym] at hkm)
            | _ => cases hr'
          have h1 := sym_padset { base with symbols := acc.2 } r r' { noEmit := true, known := true, value := .fn acc.1.length, resolved := true }
          simp only [hne, if_false] at h1
          refine ⟨h1, ?_⟩
          simp only [slot_padset, hne, if_false]
      · intro m hm r' hr'
        simp only [slot_padset]
        by_cases he : r' = r
        · simp only [he, if_true, Option.isSome_some]
        · simp only [he, if_false]; exact s m hm r' hr'
    · exact ih acc hrest f s

theorem foldl_assignRef_refSub (nodes : List AstNode) : ∀ (l : List AstNode) (acc : Defs × List AstNode),
    (∀ n ∈ l, n ∈ nodes) → RefSub acc.2 nodes → RefSub (l.foldl assignRef acc).2 nodes := by
  intro l
  induction l with
  | nil => intro acc _ h; exact h
  | cons n rest ih =>
    intro acc hsub h
    rw [List.foldl_cons]
    refine ih _ (fun m hm => hsub m (List.mem_cons_of_mem _ hm)) ?_
    have hn := hsub n List.mem_cons_self
    obtain ⟨df, out⟩ := acc
    intro x hx hr
    unfold assignRef at hx
    simp only at hx
    split at hx <;> (
      simp only at hx
      rcases List.mem_append.mp hx with hx | hx
      · exact h x hx hr
      · simp only [List.mem_singleton] at hx
        first
          | (subst hx; cases hr; done)
          | (subst hx; exact hn))

theorem defineRemaining_finv (opts : Opts) (d : Decls) (defs defs' : Defs) (nodes nodes' : List AstNode)
    (f : FInv opts d defs nodes) (sl : SlotsOK defs nodes) (h : defineRemaining d defs nodes = .ok (defs', nodes')) :
    FInv opts d defs' nodes' ∧ SlotsOK defs' nodes' := by
  have hk' := defineRemaining_kinv d.symbols d defs defs' nodes nodes' f.kinv h
  unfold defineRemaining at h
  simp only [bind, Except.bind] at h
  split at h
  · cases h
  · split at h
    · cases h
    · simp only [pure, Except.pure] at h
      injection h with h
      injection h with h1 h2
      obtain ⟨ff, sf⟩ := fnFold_finv opts d defs nodes nodes ([], defs.symbols) (fun _ hn => hn)
        (FInv.symbols_congr (defs := defs) rfl f) (SlotsOK.symbols_congr (defs := defs) rfl sl)
      have hsub : RefSub nodes' nodes := by
        rw [← h2]; exact foldl_assignRef_refSub nodes nodes _ (fun _ hn => hn) (fun _ hx => by cases hx)
      refine ⟨(FInv.symbols_congr ?_ ff).sub hk' hsub, (SlotsOK.symbols_congr ?_ sf).sub hsub⟩
      · rw [← h1]; exact foldl_assignRef_symbols nodes _ _
      · rw [← h1]; exact foldl_assignRef_symbols nodes _ _

/-- the slot facts, for the state that enters `match_all` -/
theorem frontEndPre_finv (opts : Opts) (fs : SrcFiles) (roots : List (List Char))
    (d : Decls) (defs : Defs) (nodes : List AstNode) (hp : frontEndPre opts fs roots = .ok (d, defs, nodes)) :
    FInv opts d defs nodes ∧ SlotsOK defs nodes := by
  unfold frontEndPre at hp
  split at hp
  · cases hp
  · rename_i nodes0 hparse
    split at hp
    · cases hp
    · simp only at hp
      split at hp
      · cases hp
      · rename_i bm _ _ d2 defs2 nodes2 hl
        split at hp
        · cases hp
        · split at hp
          · cases hp
          · rename_i defs3 nodes3 hdr
            injection hp with hp; injection hp with h1 h2
            injection h2 with h2 h3
            subst h1 h2 h3
            have hfresh : ∀ x ∈ nodes0, ∃ y, x = AstNode.fresh y := by
              cases hpm : parseMany fs roots with
              | error e => rw [hpm] at hparse; cases hparse
              | ok ns =>
                rw [hpm] at hparse
                injection hparse with hparse
                rw [← hparse]
                intro x hx
                obtain ⟨y, _, rfl⟩ := List.mem_map.mp hx
                exact ⟨y, rfl⟩
            have f0 : FInv opts ({ banks := bm } : Decls) {} nodes0 := by
              refine ⟨fun x hx => ?_, fun a ha b hb r h1 _ => ?_, fun r hr => (by cases hr), fun n hn => ?_⟩
              · obtain ⟨y, rfl⟩ := hfresh x hx; exact KN_fresh _ y
              · obtain ⟨y, rfl⟩ := hfresh a ha; rw [symRef_fresh] at h1; cases h1
              · obtain ⟨y, rfl⟩ := hfresh n hn
                cases y <;> first | trivial | (rename_i kd _ _; cases kd <;> trivial)
            obtain ⟨f2, s2⟩ := declLoop_finv opts _ _ _ _ _ _ _ _ f0 hl
            exact defineRemaining_finv opts _ defs2 _ nodes2 _ f2 s2 hdr

/-- **the slot facts hold of the front end's result** -/
theorem frontEnd_finv (opts : Opts) (fs : SrcFiles) (roots : List (List Char)) (st : Static) (nodes : List AstNode) (defs0 : Defs)
    (h : frontEnd opts fs roots = .ok (st, nodes, defs0)) :
    st.opts = opts ∧ FInv opts st.decls defs0 nodes ∧ SlotsOK defs0 nodes := by
  unfold frontEnd at h
  split at h
  · cases h
  · rename_i d defsR nodesR hp
    split at h
    rename_i defsM rep hm
    split at h
    · cases h
    · injection h with h; injection h with h1 h2
      injection h2 with h2 h3
      subst h1 h2 h3
      obtain ⟨ff, sf⟩ := frontEndPre_finv opts fs roots d defsR nodesR hp
      have hm' : defsM = (matchAll opts d defsR nodesR).1 := by rw [hm]
      have hs : defsM.symbols = defsR.symbols := by
        rw [hm', matchAll_eq]
        have : ∀ (l : List AstNode) (acc : Defs × List String × List String),
            (l.foldl (matchStep opts d) acc).1.symbols = acc.1.symbols := by
          intro l
          induction l with
          | nil => intro acc; rfl
          | cons n rest ih =>
            intro acc
            rw [List.foldl_cons, ih]
            obtain ⟨a, b, c⟩ := acc
            unfold matchStep
            simp only
            split
            · split <;> rfl
            · rfl
            · rfl
        exact this nodesR (defsR, [], [])
      exact ⟨rfl, FInv.symbols_congr hs ff, SlotsOK.symbols_congr hs sf⟩

/-! ## what the resolver-side developments need, proved of the front end -/

/-- **every symbol node of the front end's result has its slot, and no label a value** -/
theorem frontEnd_nodesOK (opts : Opts) (fs : SrcFiles) (roots : List (List Char)) (st : Static) (nodes : List AstNode) (defs0 : Defs)
    (h : frontEnd opts fs roots = .ok (st, nodes, defs0)) : NodesOK defs0 nodes := by
  obtain ⟨_, ff, sf⟩ := frontEnd_finv opts fs roots st nodes defs0 h
  intro n hn
  have symOK : ∀ r, symRef n = some r → SymOK defs0 r := by
    intro r hr
    have := sf n hn r hr
    cases hx : defs0.symbols.getD r none with
    | none => rw [hx] at this; cases this
    | some s => exact Or.inr ⟨s, hx⟩
  unfold NodeOK
  split
  · rename_i r
    refine ⟨symOK r rfl, fun x hx => ?_⟩
    have hni := ff.ni _ hn
    simp only [NI] at hni
    rw [hni] at hx; cases hx
  · rename_i r
    exact symOK r rfl
  · trivial

/-- **the facts about constants that the simulation of the two settings uses hold of the front end's result** -/
theorem frontEnd_frontOKS (opts : Opts) (fs : SrcFiles) (roots : List (List Char)) (st : Static) (nodes : List AstNode) (defs0 : Defs)
    (h : frontEnd opts fs roots = .ok (st, nodes, defs0)) : FrontOKS st nodes defs0 (markedByBoth st defs0) := by
  obtain ⟨hso, ff, sf⟩ := frontEnd_finv opts fs roots st nodes defs0 h
  refine ⟨?_, ?_, ?_, ?_⟩
  · intro l nm e ne r hm hk
    have hni := ff.ni _ hm
    simp only [NI] at hni
    rw [← hni.1 (sf _ hm r rfl)]; exact hk
  · intro l nm e ne l' nm' e' ne' r hm hm'
    have := ff.fn _ hm' _ hm r rfl rfl
    injection this with _ _ h3 _ _
    injection h3
  · intro r hr
    unfold markedByBoth at hr
    simp only [Bool.and_eq_true] at hr
    exact hr.1
  · intro l nm e ne r hm hres hh
    have hni := ff.ni _ hm
    simp only [NI] at hni
    unfold markedByBoth at hh
    rw [hres] at hh
    simp only [Bool.true_and, Bool.not_eq_false', Bool.and_eq_true] at hh
    obtain ⟨⟨hk, _⟩, hnd⟩ := hh
    have hnd' : notDefined opts st.decls r = true := by
      unfold notDefined
      rw [← hso]; exact hnd
    obtain ⟨hv, hp⟩ := hni.2 hres hk hnd'
    have hpure : staticallyKnown pureP e = true := by rw [← hni.1 (sf _ hm r rfl)]; exact hk
    obtain ⟨c, hc⟩ := evalSimple_pure st st.decls defs0 e hpure (defs0.sym r).value (hp st.decls defs0) hv
    exact ⟨hk, (defs0.sym r).value, c, hc, rfl⟩

end Casm
