import Casm.Proofs.KindInv
import Casm.Proofs.FrontSyms
/-!
# Casm.Proofs.FrontInv — what the front end guarantees about symbol nodes

Through the declaration loop, `define_remaining` and `match_all`: a reference denotes one symbol node
(`SymFun`); the slot of every symbol node exists; labels have no value yet; the flag of a constant is
the analysis of its expression; a constant marked by the static-value optimisation only holds the
value of its (statically known) expression.
-/
namespace Casm

def symRef : AstNode → Option Nat
  | .symbol _ _ _ _ (some r) => some r
  | _ => none

/-- a reference denotes one symbol node -/
def SymFun (l : List AstNode) : Prop := ∀ a ∈ l, ∀ b ∈ l, ∀ r, symRef a = some r → symRef b = some r → a = b

/-- every referenced symbol node of `out` is a node of `nodes` -/
def RefSub (out nodes : List AstNode) : Prop := ∀ n ∈ out, (symRef n).isSome = true → n ∈ nodes

theorem RefSub.refl (l : List AstNode) : RefSub l l := fun _ h _ => h
theorem RefSub.trans {a b c : List AstNode} (h1 : RefSub a b) (h2 : RefSub b c) : RefSub a c :=
  fun n hn hr => h2 n (h1 n hn hr) hr

theorem SymFun.sub {out nodes : List AstNode} (h : SymFun nodes) (hs : RefSub out nodes) : SymFun out :=
  fun a ha b hb r h1 h2 => h a (hs a ha (by rw [h1]; rfl)) b (hs b hb (by rw [h2]; rfl)) r h1 h2

theorem symRef_fresh (n : AstNode) : symRef n.fresh = none := by
  cases n <;> rfl

/-- a pass over the nodes that leaves referenced symbol nodes alone and creates none -/
theorem mapNodesE_refSub {σ} (f : σ → AstNode → Except String (σ × AstNode))
    (hstep : ∀ s n s' n', f s n = .ok (s', n') → (symRef n').isSome = true → n' = n) :
    ∀ (nodes : List AstNode) (s : σ) (acc : List AstNode) (s' : σ) (out : List AstNode) (base : List AstNode),
      RefSub acc base → (∀ n ∈ nodes, n ∈ base) → mapNodesE f s nodes acc = .ok (s', out) → RefSub out base := by
  intro nodes
  induction nodes with
  | nil =>
    intro s acc s' out base ha _ h
    simp only [mapNodesE] at h
    injection h with h; injection h with _ h2
    subst h2
    exact fun n hn hr => ha n (List.mem_reverse.mp hn) hr
  | cons n rest ih =>
    intro s acc s' out base ha hb h
    simp only [mapNodesE] at h
    cases hf : f s n with
    | error e => rw [hf] at h; cases h
    | ok x =>
      obtain ⟨s1, n1⟩ := x
      rw [hf] at h
      refine ih s1 _ s' out base ?_ (fun m hm => hb m (List.mem_cons_of_mem _ hm)) h
      intro m hm hr
      cases hm with
      | head => rw [hstep s n s1 n1 hf hr]; exact hb n List.mem_cons_self
      | tail _ hm => exact ha m hm hr

theorem collectBankdefs_refSub (d d' : Decls) (nodes nodes' : List AstNode) (h : collectBankdefs d nodes = .ok (d', nodes')) :
    RefSub nodes' nodes := by
  unfold collectBankdefs at h
  refine mapNodesE_refSub _ ?_ nodes d [] d' nodes' nodes (fun _ hn => by cases hn) (fun _ hn => hn) h
  intro s n s' n' hf hr
  split at hf
  · split at hf
    · cases hf
    · injection hf with hf; injection hf with _ h2; subst h2; cases hr
  · injection hf with hf; injection hf with _ h2; exact h2.symm

theorem collectBanks_refSub (d d' : Decls) (nodes nodes' : List AstNode) (h : collectBanks d nodes = .ok (d', nodes')) :
    RefSub nodes' nodes := by
  unfold collectBanks at h
  refine mapNodesE_refSub _ ?_ nodes d [] d' nodes' nodes (fun _ hn => by cases hn) (fun _ hn => hn) h
  intro s n s' n' hf hr
  split at hf
  · split at hf
    · cases hf
    · injection hf with hf; injection hf with _ h2; subst h2; cases hr
  · injection hf with hf; injection hf with _ h2; exact h2.symm

theorem collectRuledefs_refSub (d d' : Decls) (nodes nodes' : List AstNode) (h : collectRuledefs d nodes = .ok (d', nodes')) :
    RefSub nodes' nodes := by
  unfold collectRuledefs at h
  refine mapNodesE_refSub _ ?_ nodes d [] d' nodes' nodes (fun _ hn => by cases hn) (fun _ hn => hn) h
  intro s n s' n' hf hr
  split at hf
  · simp only at hf
    split at hf
    · cases hf
    · injection hf with hf; injection hf with _ h2; subst h2; cases hr
  · injection hf with hf; injection hf with _ h2; exact h2.symm

theorem collectFunctions_refSub (d d' : Decls) (nodes nodes' : List AstNode) (h : collectFunctions d nodes = .ok (d', nodes')) :
    RefSub nodes' nodes := by
  unfold collectFunctions at h
  refine mapNodesE_refSub _ ?_ nodes d [] d' nodes' nodes (fun _ hn => by cases hn) (fun _ hn => hn) h
  intro s n s' n' hf hr
  split at hf
  · split at hf
    · cases hf
    · injection hf with hf; injection hf with _ h2; subst h2; cases hr
  · injection hf with hf; injection hf with _ h2; exact h2.symm

/-- a pass over the nodes, with an invariant of the whole list -/
theorem mapNodesE_list {σ} (f : σ → AstNode → Except String (σ × AstNode)) (J : σ → List AstNode → Prop)
    (hstep : ∀ s pre n post s' n', J s (pre ++ n :: post) → f s n = .ok (s', n') → J s' (pre ++ n' :: post)) :
    ∀ (nodes : List AstNode) (s : σ) (acc : List AstNode) (s' : σ) (out : List AstNode),
      J s (acc.reverse ++ nodes) → mapNodesE f s nodes acc = .ok (s', out) → J s' out := by
  intro nodes
  induction nodes with
  | nil =>
    intro s acc s' out hj h
    simp only [mapNodesE] at h
    injection h with h; injection h with h1 h2
    subst h1; subst h2
    simpa using hj
  | cons n rest ih =>
    intro s acc s' out hj h
    simp only [mapNodesE] at h
    cases hf : f s n with
    | error e => rw [hf] at h; cases h
    | ok x =>
      obtain ⟨s1, n1⟩ := x
      rw [hf] at h
      refine ih s1 _ s' out ?_ h
      have := hstep s acc.reverse n rest s1 n1 hj hf
      simpa [List.reverse_cons, List.append_assoc] using this

theorem symFun_replace_same (pre post : List AstNode) (n : AstNode) (h : SymFun (pre ++ n :: post)) : SymFun (pre ++ n :: post) := h

/-- `collect_symbols` gives new symbol nodes fresh references -/
theorem collectSymbols_symFun (d d' : Decls) (nodes nodes' : List AstNode) (hk : KInv d.symbols nodes) (hf : SymFun nodes)
    (h : collectSymbols d nodes = .ok (d', nodes')) : SymFun nodes' := by
  unfold collectSymbols at h
  split at h
  · cases h
  · rename_i dd ctx ns hm
    injection h with h; injection h with h1 h2
    subst h1; subst h2
    have := mapNodesE_list _ (fun (s : Decls × List String) l => KInv s.1.symbols l ∧ SymFun l) ?_ nodes (d, []) [] (dd, ctx) ns
      (by simpa using ⟨hk, hf⟩) hm
    · exact this.2
    · intro s pre n post s' n' hj hstep
      obtain ⟨hki, hsf⟩ := hj
      split at hstep
      · rename_i level name kind ne ref
        cases ref with
        | some r =>
          simp only at hstep
          injection hstep with hstep; injection hstep with h1 h2
          subst h1; subst h2
          exact ⟨hki, hsf⟩
        | none =>
          simp only at hstep
          split at hstep
          · cases hstep
          · rename_i r m hd
            injection hstep with hstep; injection hstep with h1 h2
            subst h1; subst h2
            obtain ⟨hr, hlen, hkind, hext⟩ := declare_kind _ _ _ _ _ _ _ hd
            have hold : ∀ x, x ∈ pre ∨ x ∈ post → x ∈ pre ++ AstNode.symbol level name kind ne none :: post := by
              intro x hx
              rcases hx with hx | hx
              · exact List.mem_append_left _ hx
              · exact List.mem_append_right _ (List.mem_cons_of_mem _ hx)
            have hfresh : ∀ x, x ∈ pre ∨ x ∈ post → symRef x ≠ some r := by
              intro x hx heq
              have hkn := hki x (hold x hx)
              cases x with
              | symbol l2 n2 k2 ne2 r2 =>
                cases r2 with
                | none => cases heq
                | some r2 =>
                  simp only [symRef, Option.some.injEq] at heq
                  subst heq
                  simp only [KN] at hkn
                  omega
              | _ => cases heq
            constructor
            · intro x hx
              rcases List.mem_append.mp hx with hx | hx
              · exact KN_mono hext x (hki x (hold x (Or.inl hx)))
              · cases hx with
                | head =>
                  simp only [KN]
                  refine ⟨by omega, ?_⟩
                  rw [hkind]; cases kind <;> rfl
                | tail _ hx => exact KN_mono hext x (hki x (hold x (Or.inr hx)))
            · intro a ha b hb r0 h1 h2
              have cls : ∀ x, x ∈ pre ++ AstNode.symbol level name kind ne (some r) :: post →
                  x = AstNode.symbol level name kind ne (some r) ∨ (x ∈ pre ∨ x ∈ post) := by
                intro x hx
                rcases List.mem_append.mp hx with hx | hx
                · exact Or.inr (Or.inl hx)
                · cases hx with
                  | head => exact Or.inl rfl
                  | tail _ hx => exact Or.inr (Or.inr hx)
              rcases cls a ha with ea | oa
              · rcases cls b hb with eb | ob
                · rw [ea, eb]
                · exfalso
                  rw [ea] at h1
                  simp only [symRef, Option.some.injEq] at h1
                  subst h1
                  exact hfresh b ob h2
              · rcases cls b hb with eb | ob
                · exfalso
                  rw [eb] at h2
                  simp only [symRef, Option.some.injEq] at h2
                  subst h2
                  exact hfresh a oa h1
                · exact hsf a (hold a oa) b (hold b ob) r0 h1 h2
      · injection hstep with hstep; injection hstep with h1 h2
        subst h1; subst h2
        exact ⟨hki, hsf⟩

/-- declarations are only appended, and keep their full name -/
def NameExt (m m' : SymMgr) : Prop :=
  m.decls.length ≤ m'.decls.length ∧
  ∀ i, i < m.decls.length → (m'.decls.getD i default).name = (m.decls.getD i default).name

theorem NameExt.refl (m : SymMgr) : NameExt m m := ⟨Nat.le_refl _, fun _ _ => rfl⟩

theorem NameExt.trans {a b c : SymMgr} (h1 : NameExt a b) (h2 : NameExt b c) : NameExt a c :=
  ⟨Nat.le_trans h1.1 h2.1, fun i hi => by rw [h2.2 i (Nat.lt_of_lt_of_le hi h1.1), h1.2 i hi]⟩

theorem declare_name (m m' : SymMgr) (ctx : List String) (name : String) (level : Nat) (kind : DeclKind) (idx : Nat)
    (h : m.declare ctx name level kind = .ok (idx, m')) : NameExt m m' := by
  unfold SymMgr.declare at h
  split at h
  · cases h
  · simp only at h
    split at h
    · cases h
    · injection h with h; injection h with h1 h2
      subst h1
      cases hp : (m.getParent none (ctx.take level)).getD none with
      | none =>
        rw [hp] at h2; simp only at h2; subst h2
        refine ⟨by simp, ?_⟩
        intro i hi
        simp [List.getD_eq_getElem?_getD, List.getElem?_append_left hi]
      | some p =>
        rw [hp] at h2; simp only at h2; subst h2
        refine ⟨by simp, ?_⟩
        intro i hi
        have hi' : i < (m.decls.modify p fun d => { d with children := d.children ++ [(name, m.decls.length)] }).length := by simpa using hi
        simp only [List.getD_eq_getElem?_getD, List.getElem?_append_left hi', List.getElem?_modify]
        by_cases hpi : p = i
        · subst hpi
          simp only [if_true]
          cases hg : m.decls[p]? <;> simp
        · simp [hpi]

/-- where the referenced symbol nodes of `collect_symbols`' output come from -/
theorem collectSymbols_ext (d d' : Decls) (nodes nodes' : List AstNode)
    (h : collectSymbols d nodes = .ok (d', nodes')) :
    NameExt d.symbols d'.symbols ∧
      ∀ n ∈ nodes', ∀ r, symRef n = some r → n ∈ nodes ∨ d.symbols.decls.length ≤ r := by
  unfold collectSymbols at h
  split at h
  · cases h
  · rename_i dd ctx ns hm
    injection h with h; injection h with h1 h2
    subst h1; subst h2
    have key := mapNodesE_nodes _ (fun (s : Decls × List String) => NameExt d.symbols s.1.symbols)
      (fun _ n => ∀ r, symRef n = some r → n ∈ nodes ∨ d.symbols.decls.length ≤ r) ?_ nodes (d, []) [] (dd, ctx) ns (NameExt.refl _)
      (fun n hn r _ => Or.inl hn) (fun _ hn => by cases hn) hm
    · exact key
    · intro s n s' n' hi hq hf
      split at hf
      · rename_i level name kind ne ref
        cases ref with
        | some r =>
          simp only at hf
          injection hf with hf; injection hf with h1 h2
          subst h1; subst h2
          exact ⟨hi, hq, fun _ h => h⟩
        | none =>
          simp only at hf
          split at hf
          · cases hf
          · rename_i r m hd
            injection hf with hf; injection hf with h1 h2
            subst h1; subst h2
            obtain ⟨hr, _, _, _⟩ := declare_kind _ _ _ _ _ _ _ hd
            refine ⟨hi.trans (declare_name _ _ _ _ _ _ _ hd), ?_, fun _ h => h⟩
            intro r0 hr0
            simp only [symRef, Option.some.injEq] at hr0
            subst hr0
            right
            rw [hr]; exact hi.1
      · injection hf with hf; injection hf with h1 h2
        subst h1; subst h2
        exact ⟨hi, hq, fun _ h => h⟩

theorem collectFunctions_ext (d d' : Decls) (nodes nodes' : List AstNode)
    (h : collectFunctions d nodes = .ok (d', nodes')) : NameExt d.symbols d'.symbols := by
  unfold collectFunctions at h
  refine (mapNodesE_nodes _ (fun (s : Decls) => NameExt d.symbols s.symbols) (fun _ _ => True) ?_ nodes d [] d' nodes'
    (NameExt.refl _) (fun _ _ => trivial) (fun _ _ => trivial) h).1
  intro s n s' n' hi _ hf
  split at hf
  · split at hf
    · cases hf
    · rename_i r m hd
      injection hf with hf; injection hf with h1 h2
      subst h1; subst h2
      exact ⟨hi.trans (declare_name _ _ _ _ _ _ _ hd), trivial, fun _ _ => trivial⟩
  · injection hf with hf; injection hf with h1 h2
    subst h1; subst h2
    exact ⟨hi, trivial, fun _ _ => trivial⟩

theorem collect_symbols_same (d d' : Decls) (nodes nodes' : List AstNode) :
    (collectBankdefs d nodes = .ok (d', nodes') → d'.symbols = d.symbols) ∧
    (collectBanks d nodes = .ok (d', nodes') → d'.symbols = d.symbols) ∧
    (collectRuledefs d nodes = .ok (d', nodes') → d'.symbols = d.symbols) := by
  refine ⟨fun h => ?_, fun h => ?_, fun h => ?_⟩
  · unfold collectBankdefs at h
    refine (mapNodesE_nodes _ (fun (s : Decls) => s.symbols = d.symbols) (fun _ _ => True) ?_ nodes d [] d' nodes' rfl
      (fun _ _ => trivial) (fun _ _ => trivial) h).1
    intro s n s' n' hi _ hf
    split at hf
    · split at hf
      · cases hf
      · injection hf with hf; injection hf with h1 h2; subst h1; exact ⟨hi, trivial, fun _ _ => trivial⟩
    · injection hf with hf; injection hf with h1 h2; subst h1; exact ⟨hi, trivial, fun _ _ => trivial⟩
  · unfold collectBanks at h
    refine (mapNodesE_nodes _ (fun (s : Decls) => s.symbols = d.symbols) (fun _ _ => True) ?_ nodes d [] d' nodes' rfl
      (fun _ _ => trivial) (fun _ _ => trivial) h).1
    intro s n s' n' hi _ hf
    split at hf
    · split at hf
      · cases hf
      · injection hf with hf; injection hf with h1 h2; subst h1; exact ⟨hi, trivial, fun _ _ => trivial⟩
    · injection hf with hf; injection hf with h1 h2; subst h1; exact ⟨hi, trivial, fun _ _ => trivial⟩
  · unfold collectRuledefs at h
    refine (mapNodesE_nodes _ (fun (s : Decls) => s.symbols = d.symbols) (fun _ _ => True) ?_ nodes d [] d' nodes' rfl
      (fun _ _ => trivial) (fun _ _ => trivial) h).1
    intro s n s' n' hi _ hf
    split at hf
    · simp only at hf
      split at hf
      · cases hf
      · injection hf with hf; injection hf with h1 h2; subst h1; exact ⟨hi, trivial, fun _ _ => trivial⟩
    · injection hf with hf; injection hf with h1 h2; subst h1; exact ⟨hi, trivial, fun _ _ => trivial⟩

/-- **`collect_all`**: names are kept, references stay functional, and a referenced symbol node of
    the output is an old one or carries a reference beyond the old table -/
theorem collectAll_ext (d d' : Decls) (nodes nodes' : List AstNode) (hk : KInv d.symbols nodes) (hf : SymFun nodes)
    (h : collectAll d nodes = .ok (d', nodes')) :
    NameExt d.symbols d'.symbols ∧ SymFun nodes' ∧
      ∀ n ∈ nodes', ∀ r, symRef n = some r → n ∈ nodes ∨ d.symbols.decls.length ≤ r := by
  unfold collectAll at h
  simp only [bind, Except.bind] at h
  cases h1 : collectBankdefs d nodes with
  | error e => rw [h1] at h; cases h
  | ok x1 =>
    obtain ⟨d1, n1⟩ := x1
    rw [h1] at h
    simp only at h
    cases h2 : collectBanks d1 n1 with
    | error e => rw [h2] at h; cases h
    | ok x2 =>
      obtain ⟨d2, n2⟩ := x2
      rw [h2] at h
      simp only at h
      cases h3 : collectRuledefs d2 n2 with
      | error e => rw [h3] at h; cases h
      | ok x3 =>
        obtain ⟨d3, n3⟩ := x3
        rw [h3] at h
        simp only at h
        cases h4 : collectSymbols d3 n3 with
        | error e => rw [h4] at h; cases h
        | ok x4 =>
          obtain ⟨d4, n4⟩ := x4
          rw [h4] at h
          simp only at h
          have k1 := collectBankdefs_kinv d d1 nodes n1 hk h1
          have k2 := collectBanks_kinv d1 d2 n1 n2 k1 h2
          have k3 := collectRuledefs_kinv d2 d3 n2 n3 k2 h3
          have e1 := (collect_symbols_same d d1 nodes n1).1 h1
          have e2 := (collect_symbols_same d1 d2 n1 n2).2.1 h2
          have e3 := (collect_symbols_same d2 d3 n2 n3).2.2 h3
          have e13 : d3.symbols = d.symbols := by rw [e3, e2, e1]
          have r1 := collectBankdefs_refSub d d1 nodes n1 h1
          have r2 := collectBanks_refSub d1 d2 n1 n2 h2
          have r3 := collectRuledefs_refSub d2 d3 n2 n3 h3
          have r13 : RefSub n3 nodes := r3.trans (r2.trans r1)
          have f3 : SymFun n3 := hf.sub r13
          have f4 := collectSymbols_symFun d3 d4 n3 n4 k3 f3 h4
          obtain ⟨x4, o4⟩ := collectSymbols_ext d3 d4 n3 n4 h4
          have x5 := collectFunctions_ext d4 d' n4 nodes' h
          have r5 := collectFunctions_refSub d4 d' n4 nodes' h
          refine ⟨?_, f4.sub r5, ?_⟩
          · have := x4.trans x5
            rw [e13] at this; exact this
          · intro n hn r hr
            have hn4 := r5 n hn (by rw [hr]; rfl)
            rcases o4 n hn4 r hr with h | h
            · exact Or.inl (r13 n h (by rw [hr]; rfl))
            · right; rw [e13] at h; exact h

end Casm
