import Casm.Proofs.ViewCongr
/-!
# Casm.Proofs.FirstCongr — evaluation does not read the "first pass" flag

`is_first_iteration` is consulted by the three item resolvers that mark items, nowhere else: the
evaluator, candidate resolution and `asm` blocks (which set the flag of their own inner passes) are
the same functions whatever the flag of the context they are given.
-/
namespace Casm

def RCtx.setFirst (c : RCtx) (b : Bool) : RCtx := { c with first := b }

theorem evalVariable_first (st : Static) (d : Defs) (c : RCtx) (b : Bool) : evalVariable st d (c.setFirst b) = evalVariable st d c := rfl
theorem evalAddress_first (d : Defs) (c : RCtx) (b : Bool) : evalAddress d (c.setFirst b) = evalAddress d c := rfl

structure FirstEq (st : Static) (d : Defs) (fuel : Nat) : Prop where
  env : ∀ c b, mkEnv st d fuel (RCtx.setFirst c b) = mkEnv st d fuel c
  rmatch : ∀ c b, resolveMatch st d fuel (RCtx.setFirst c b) = resolveMatch st d fuel c
  rargs : ∀ c b, resolveArgs st d fuel (RCtx.setFirst c b) = resolveArgs st d fuel c
  rmatches : ∀ c b, resolveMatches st d fuel (RCtx.setFirst c b) = resolveMatches st d fuel c
  renc : ∀ c b, resolveEncoding st d fuel (RCtx.setFirst c b) = resolveEncoding st d fuel c
  easm : ∀ c b, evalAsm st d fuel (RCtx.setFirst c b) = evalAsm st d fuel c
  aiter : ∀ c b, asmIterate st d fuel (RCtx.setFirst c b) = asmIterate st d fuel c
  aonce : ∀ c b, asmOnce st d fuel (RCtx.setFirst c b) = asmOnce st d fuel c

theorem firstEq (st : Static) (d : Defs) : ∀ fuel, FirstEq st d fuel := by
  intro fuel
  induction fuel with
  | zero =>
    refine ⟨?_, ?_, ?_, ?_, ?_, ?_, ?_, ?_⟩
    · intro c b; simp only [mkEnv, evalVariable_first]
    · intro c b; funext m a; simp only [resolveMatch]
    · intro c b; funext r args i a b'; simp only [resolveArgs]
    · intro c b; funext ms a acc; simp only [resolveMatches]
    · intro c b; funext ms a; simp only [resolveEncoding]
    · intro c b; funext t e; simp only [evalAsm]
    · intro c b; funext ns e l bu i; rw [asmIterate, asmIterate]
    · intro c b; funext ns e l cu r u; simp only [asmOnce]
  | succ f ih =>
    refine ⟨?_, ?_, ?_, ?_, ?_, ?_, ?_, ?_⟩
    · intro c b; simp only [mkEnv, evalVariable_first, ih.env, ih.easm]
    · intro c b; funext m a; simp only [resolveMatch, ih.rargs, ih.env]
    · intro c b; funext r args i a b'
      cases args with
      | nil => simp only [resolveArgs]
      | cons x rest => cases x <;> simp only [resolveArgs, ih.env, ih.rmatch, ih.rargs]
    · intro c b; funext ms a acc
      cases ms with
      | nil => simp only [resolveMatches]
      | cons x rest => simp only [resolveMatches, ih.rmatch, ih.rmatches]
    · intro c b; funext ms a
      have hg : (RCtx.setFirst c b).canGuess = c.canGuess := rfl
      simp only [resolveEncoding, ih.rmatches, hg]
    · intro c b; funext t e; simp only [evalAsm, ih.aiter]
    · intro c b; funext ns e l bu i
      rw [asmIterate, asmIterate]
      have h1 : ∀ x y, ({ RCtx.setFirst c b with first := x, last := y } : RCtx) = { c with first := x, last := y } := fun _ _ => rfl
      have h2 : (RCtx.setFirst c b).cur = c.cur := rfl
      have h3 : (RCtx.setFirst c b).canGuess = c.canGuess := rfl
      have h4 : (RCtx.setFirst c b).symCtx = c.symCtx := rfl
      have h5 : (RCtx.setFirst c b).bank = c.bank := rfl
      have h6 : (RCtx.setFirst c b).last = c.last := rfl
      simp only [h2, h3, h4, h5, h6, ih.aiter]
    · intro c b; funext ns e l cu r u
      cases ns with
      | nil => simp only [asmOnce]
      | cons x rest =>
        have h1 : ∀ k, ({ RCtx.setFirst c b with cur := k } : RCtx) = RCtx.setFirst { c with cur := k } b := fun _ => rfl
        have h2 : ∀ (x : RCtx), (RCtx.setFirst x b).canGuess = x.canGuess := fun _ => rfl
        cases x <;> simp only [asmOnce, h1, h2, evalAddress_first, ih.renc, ih.aonce]

theorem resolverEval_first (st : Static) (d : Defs) (c : RCtx) (b : Bool) :
    resolverEval st d (c.setFirst b) = resolverEval st d c := by
  funext e x; simp only [resolverEval, (firstEq st d evalFuel).env]

theorem allDefinite_first (st : Static) (d : Defs) (c : RCtx) (b : Bool) (cs : List IMatch) :
    allDefinite st d (c.setFirst b) cs = allDefinite st d c cs := by
  unfold allDefinite
  rw [(firstEq st d (evalFuel - 1)).rmatches]

end Casm
