import Casm.Model.Overlap
/-! Invariant and characterisation of the overlap checker. -/
namespace Casm

def Disj (a b : OEntry) : Prop := a.pos + a.size ≤ b.pos ∨ b.pos + b.size ≤ a.pos

/-- sorted by position, consecutive entries do not overlap, all sizes positive -/
def OInv : List OEntry → Prop
  | [] => True
  | [a] => 0 < a.size
  | a :: b :: r => 0 < a.size ∧ a.pos + a.size ≤ b.pos ∧ OInv (b :: r)

theorem OInv.tail {a : OEntry} {l : List OEntry} (h : OInv (a :: l)) : OInv l := by
  cases l with
  | nil => trivial
  | cons b r => exact h.2.2

theorem OInv.head_size {a : OEntry} {l : List OEntry} (h : OInv (a :: l)) : 0 < a.size := by
  cases l with
  | nil => exact h
  | cons b r => exact h.1

/-- everything after the head starts at or after the head's end -/
theorem OInv.head_le {a : OEntry} {l : List OEntry} (h : OInv (a :: l)) :
    ∀ e ∈ l, a.pos + a.size ≤ e.pos := by
  induction l generalizing a with
  | nil => intro e he; cases he
  | cons b r ih =>
    intro e he
    rcases List.mem_cons.1 he with rfl | he
    · exact h.2.1
    · have hb := ih h.2.2 e he
      have := h.2.1
      have := OInv.head_size h.2.2
      omega

theorem OInv.sizes {l : List OEntry} (h : OInv l) : ∀ e ∈ l, 0 < e.size := by
  induction l with
  | nil => intro e he; cases he
  | cons a r ih =>
    intro e he
    rcases List.mem_cons.1 he with rfl | he
    · exact h.head_size
    · exact ih h.tail e he

/-- pairwise disjointness of an invariant list -/
theorem OInv.pairwise {l : List OEntry} (h : OInv l) : l.Pairwise Disj := by
  induction l with
  | nil => exact List.Pairwise.nil
  | cons a r ih =>
    refine List.Pairwise.cons ?_ (ih h.tail)
    intro e he
    exact Or.inl (h.head_le e he)

theorem oinv_cons {a : OEntry} {l : List OEntry} (ha : 0 < a.size)
    (hl : OInv l) (hb : ∀ b, l.head? = some b → a.pos + a.size ≤ b.pos) : OInv (a :: l) := by
  cases l with
  | nil => exact ha
  | cons b r => exact ⟨ha, hb b rfl, hl⟩

/-- gluing two invariant lists -/
theorem oinv_append {l r : List OEntry} (hl : OInv l) (hr : OInv r)
    (hb : ∀ a b, l.getLast? = some a → r.head? = some b → a.pos + a.size ≤ b.pos) : OInv (l ++ r) := by
  induction l with
  | nil => simpa using hr
  | cons a t ih =>
    cases t with
    | nil =>
      simp only [List.singleton_append]
      exact oinv_cons hl hr (fun b hb' => hb a b rfl hb')
    | cons c u =>
      have hh : OInv (c :: u ++ r) := ih hl.tail (by
        intro x y hx hy
        exact hb x y (by simpa [List.getLast?_cons_cons] using hx) hy)
      exact ⟨hl.1, hl.2.1, hh⟩

theorem oinv_of_append_left {l r : List OEntry} (h : OInv (l ++ r)) : OInv l := by
  induction l with
  | nil => trivial
  | cons a t ih =>
    cases t with
    | nil => exact h.head_size
    | cons c u => exact ⟨h.1, h.2.1, ih h.2.2⟩

theorem oinv_of_append_right {l r : List OEntry} (h : OInv (l ++ r)) : OInv r := by
  induction l with
  | nil => simpa using h
  | cons a t ih => exact ih h.tail

/-- in an invariant list every entry ends at or before the end of the last one -/
theorem OInv.le_last {l : List OEntry} (h : OInv l) (z : OEntry) (hz : l.getLast? = some z) :
    ∀ e ∈ l, e.pos + e.size ≤ z.pos + z.size := by
  induction l with
  | nil => intro e he; cases he
  | cons a t ih =>
    cases t with
    | nil =>
      intro e he
      simp at hz he
      subst hz; subst he; exact Nat.le_refl _
    | cons c u =>
      intro e he
      have hz' : (c :: u).getLast? = some z := by simpa [List.getLast?_cons_cons] using hz
      rcases List.mem_cons.1 he with rfl | he
      · have h1 := ih h.2.2 hz' c (List.mem_cons_self)
        have := h.2.1
        have := (OInv.sizes h.2.2) c (List.mem_cons_self)
        omega
      · exact ih h.2.2 hz' e he

/-! ### `lowerBound` splits the list -/

theorem take_lowerBound (es : List OEntry) (p : Nat) :
    es.take (lowerBound es p) = es.takeWhile (fun e => e.pos < p) := by
  unfold lowerBound
  induction es with
  | nil => rfl
  | cons a t ih =>
    by_cases h : a.pos < p
    · simp [List.takeWhile_cons, h, ih]
    · simp [List.takeWhile_cons, h]

theorem drop_lowerBound (es : List OEntry) (p : Nat) :
    es.drop (lowerBound es p) = es.dropWhile (fun e => e.pos < p) := by
  unfold lowerBound
  induction es with
  | nil => rfl
  | cons a t ih =>
    by_cases h : a.pos < p
    · simp [List.takeWhile_cons, List.dropWhile_cons, h, ih]
    · simp [List.takeWhile_cons, List.dropWhile_cons, h]

theorem getElem?_lowerBound (es : List OEntry) (p : Nat) :
    es[lowerBound es p]? = (es.dropWhile (fun e => e.pos < p)).head? := by
  rw [← drop_lowerBound, List.head?_drop]

theorem lowerBound_le (es : List OEntry) (p : Nat) : lowerBound es p ≤ es.length := by
  unfold lowerBound
  induction es with
  | nil => simp
  | cons a t ih =>
    by_cases h : a.pos < p
    · simp [List.takeWhile_cons, h]; exact ih
    · simp [List.takeWhile_cons, h]

theorem getElem?_lowerBound_pred (es : List OEntry) (p : Nat) (h : 0 < lowerBound es p) :
    es[lowerBound es p - 1]? = (es.takeWhile (fun e => e.pos < p)).getLast? := by
  rw [← take_lowerBound, List.getLast?_eq_getElem?, List.length_take]
  have hle := lowerBound_le es p
  rw [Nat.min_eq_left hle, List.getElem?_take]
  have : lowerBound es p - 1 < lowerBound es p := by omega
  simp [this]

theorem lowerBound_zero_iff (es : List OEntry) (p : Nat) :
    lowerBound es p = 0 ↔ es.takeWhile (fun e => e.pos < p) = [] := by
  unfold lowerBound; exact List.length_eq_zero_iff

theorem takeWhile_all (es : List OEntry) (p : Nat) :
    ∀ e ∈ es.takeWhile (fun e => e.pos < p), e.pos < p := by
  induction es with
  | nil => intro e he; cases he
  | cons a t ih =>
    intro e he
    by_cases h : a.pos < p
    · simp only [List.takeWhile_cons, h, decide_true, if_true, List.mem_cons] at he
      rcases he with rfl | he
      · exact h
      · exact ih e he
    · simp [List.takeWhile_cons, h] at he

theorem dropWhile_head (es : List OEntry) (p : Nat) (b : OEntry)
    (h : (es.dropWhile (fun e => e.pos < p)).head? = some b) : p ≤ b.pos := by
  have := List.head?_dropWhile_not (fun e : OEntry => decide (e.pos < p)) es
  rw [h] at this
  simp at this
  exact this

end Casm

namespace Casm

theorem takeWhile_append_dropWhile' (es : List OEntry) (p : Nat) :
    es.takeWhile (fun e => e.pos < p) ++ es.dropWhile (fun e => e.pos < p) = es :=
  List.takeWhile_append_dropWhile

/-- what `check_overlap` computes, in terms of the split at `position` -/
theorem checkOverlap_spec (es : List OEntry) (p s : Nat) (hs : 0 < s) (hinv : OInv es) :
    let l := es.takeWhile (fun e => e.pos < p)
    let r := es.dropWhile (fun e => e.pos < p)
    ((checkOverlap es p s).2 = true ↔
        ((∃ b, r.head? = some b ∧ p + s > b.pos) ∨ (∃ a, l.getLast? = some a ∧ a.pos + a.size > p))) ∧
    ((checkOverlap es p s).2 = false → (checkOverlap es p s).1 = l.length) := by
  intro l r
  have hl_len : lowerBound es p = l.length := rfl
  have hget : es[lowerBound es p]? = r.head? := getElem?_lowerBound es p
  have hsizes := OInv.sizes hinv
  unfold checkOverlap
  simp only
  rw [hget]
  cases hr : r.head? with
  | none =>
    simp only
    by_cases hi : lowerBound es p > 0
    · rw [if_pos hi, getElem?_lowerBound_pred es p hi]
      show _ ∧ _
      cases hla : l.getLast? with
      | none =>
        have : (List.takeWhile (fun e => decide (e.pos < p)) es).getLast? = none := hla
        simp [this, hl_len]
      | some a =>
        have : (List.takeWhile (fun e => decide (e.pos < p)) es).getLast? = some a := hla
        simp only [this]
        by_cases hov : a.pos + a.size > p
        · simp [hov]
        · simp [hov, hl_len]
    · rw [if_neg hi]
      have h0 : l = [] := (lowerBound_zero_iff es p).1 (by omega)
      simp [h0, hl_len]
  | some b =>
    have hbmem : b ∈ es := by
      have h1 : b ∈ r := List.mem_of_mem_head? hr
      have h2 := takeWhile_append_dropWhile' es p
      rw [← h2]; exact List.mem_append_right _ h1
    have hbs : 0 < b.size := hsizes b hbmem
    have hbp : p ≤ b.pos := dropWhile_head es p b hr
    simp only
    by_cases heq : b.pos = p
    · rw [if_pos heq]
      simp only [hbs, hs, and_self, decide_true, true_iff]
      refine ⟨Or.inl ⟨b, rfl, by omega⟩, by simp⟩
    · rw [if_neg heq]
      by_cases hnext : p + s > b.pos
      · rw [if_pos hnext]
        simp only [true_iff]
        exact ⟨Or.inl ⟨b, rfl, hnext⟩, by simp⟩
      · rw [if_neg hnext]
        by_cases hi : lowerBound es p > 0
        · rw [if_pos hi, getElem?_lowerBound_pred es p hi]
          cases hla : l.getLast? with
          | none =>
            have : (List.takeWhile (fun e => decide (e.pos < p)) es).getLast? = none := hla
            simp [this, hnext, hl_len]
          | some a =>
            have : (List.takeWhile (fun e => decide (e.pos < p)) es).getLast? = some a := hla
            simp only [this]
            by_cases hov : a.pos + a.size > p
            · simp [hov]
            · simp [hov, hnext, hl_len]
        · rw [if_neg hi]
          have h0 : l = [] := (lowerBound_zero_iff es p).1 (by omega)
          simp [h0, hnext, hl_len]

end Casm
