import Casm.Proofs.SwitchSim
import Casm.Proofs.FirstCongr
/-!
# Casm.Proofs.Corner — a stable first pass leaves a fixed point of the guessing pass

The one case in which the two settings of the static-value optimisation do not run in lockstep: the
optimised first pass reports "stable" (every emitting item was frozen, nothing else changed).  Then
nothing but encodings of frozen items and marks changed, no later item read them, and the guessing
pass on the resulting state changes nothing.
-/
namespace Casm

/-- equal but for marks and for the entries of marked instructions and data elements -/
structure StEq (a b : Defs) : Prop where
  sv : ∀ r, (b.sym r).value = (a.sym r).value
  sm : ∀ r, (a.sym r).resolved = true → (b.sym r).resolved = true
  res : b.res = a.res
  aligns : b.aligns = a.aligns
  addrs : b.addrs = a.addrs
  banks : b.banks = a.banks
  ruledefs : b.ruledefs = a.ruledefs
  fns : b.fns = a.fns
  im : ∀ ref, (a.instrs.getD ref default).resolved = true → (b.instrs.getD ref default).resolved = true
  dm : ∀ ref, (a.datas.getD ref default).resolved = true → (b.datas.getD ref default).resolved = true
  iu : ∀ ref, (b.instrs.getD ref default).resolved = false → b.instrs.getD ref default = a.instrs.getD ref default
  du : ∀ ref, (b.datas.getD ref default).resolved = false → b.datas.getD ref default = a.datas.getD ref default
  su : ∀ r, (b.sym r).resolved = false → b.sym r = a.sym r
  ifz : ∀ ref, (a.instrs.getD ref default).resolved = true → b.instrs.getD ref default = a.instrs.getD ref default
  dfz : ∀ ref, (a.datas.getD ref default).resolved = true → b.datas.getD ref default = a.datas.getD ref default

theorem StEq.refl (a : Defs) : StEq a a :=
  ⟨fun _ => rfl, fun _ h => h, rfl, rfl, rfl, rfl, rfl, rfl, fun _ h => h, fun _ h => h, fun _ _ => rfl, fun _ _ => rfl, fun _ _ => rfl,
   fun _ _ => rfl, fun _ _ => rfl⟩

theorem StEq.trans {a b c : Defs} (h1 : StEq a b) (h2 : StEq b c) : StEq a c := by
  refine ⟨fun r => (h2.sv r).trans (h1.sv r), fun r h => h2.sm r (h1.sm r h), h2.res.trans h1.res, h2.aligns.trans h1.aligns,
    h2.addrs.trans h1.addrs, h2.banks.trans h1.banks, h2.ruledefs.trans h1.ruledefs, h2.fns.trans h1.fns,
    fun r h => h2.im r (h1.im r h), fun r h => h2.dm r (h1.dm r h), fun r h => ?_, fun r h => ?_, fun r h => ?_,
    fun r h => ?_, fun r h => ?_⟩
  rotate_left 3
  · have e1 := h1.ifz r h
    rw [h2.ifz r (by rw [e1]; exact h), e1]
  · have e1 := h1.dfz r h
    rw [h2.dfz r (by rw [e1]; exact h), e1]
  · have e2 := h2.iu r h
    rw [e2]
    exact h1.iu r (by rw [← e2]; exact h)
  · have e2 := h2.du r h
    rw [e2]
    exact h1.du r (by rw [← e2]; exact h)
  · have e2 := h2.su r h
    rw [e2]
    exact h1.su r (by rw [← e2]; exact h)

theorem StEq.view {a b : Defs} (h : StEq a b) : SameView a b := ⟨h.sv, h.banks, h.ruledefs, h.fns⟩

/-- the item of node `n` (element `k`) carries a mark -/
abbrev markedA (d : Defs) (n : AstNode) (k : Nat) : Bool := markedS (fun _ => false) d n k

/-! ## what a stable step of the first pass does -/

theorem setFirst_last (c : RCtx) (b : Bool) : (c.setFirst b).last = c.last := rfl
theorem setFirst_first (c : RCtx) (b : Bool) : (c.setFirst b).first = b := rfl

theorem getD_ge'' {α} (l : List α) (i : Nat) (d : α) (h : ¬ i < l.length) : l.getD i d = d := by
  simp [List.getD_eq_getElem?_getD, Nat.not_lt.mp h]

theorem instr_known_inrange (d : Defs) (ref : Nat) (h : (d.instrs.getD ref default).known = true) : ref < d.instrs.length := by
  by_cases hl : ref < d.instrs.length
  · exact hl
  · rw [getD_ge'' _ _ _ hl] at h; cases h

theorem data_known_inrange (d : Defs) (ref : Nat) (h : (d.datas.getD ref default).known = true) : ref < d.datas.length := by
  by_cases hl : ref < d.datas.length
  · exact hl
  · rw [getD_ge'' _ _ _ hl] at h; cases h

/-- an instruction step whose result carries no mark did not freeze: it is the step of a later pass -/
theorem resolveInstruction_nf (st : Static) (d d' : Defs) (ctx : RCtx) (ref : Nat) (s : Bool) (r : List String)
    (h : resolveInstruction st d ctx ref = .ok (d', s, r)) (hu : (d'.instrs.getD ref default).resolved = false) :
    resolveInstruction st d (ctx.setFirst false) ref = .ok (d', s, r) := by
  unfold resolveInstruction at h ⊢
  simp only [(firstEq st d evalFuel).renc, allDefinite_first, setFirst_last, setFirst_first, Bool.and_false, Bool.false_and] at h ⊢
  split at h
  · rename_i hres; simp only [hres, if_true]; exact h
  · rename_i hres
    simp only [hres, if_false]
    cases he : resolveEncoding st d evalFuel ctx ((d.instrs.getD ref default).cands.map (·.m)) {} with
    | error m => rw [he] at h; exact h
    | ok x =>
      obtain ⟨encs, rp⟩ := x
      rw [he] at h
      simp only at h ⊢
      cases encs with
      | none => exact h
      | some l =>
        simp only [Option.bind_some] at h ⊢
        rcases Option.eq_none_or_eq_some (l.head?.map (·.2)) with hc | ⟨e, hc⟩
        · simp only [hc] at h ⊢; exact h
        · simp only [hc] at h ⊢
          split at h
          · -- frozen: the result would carry the mark
            rename_i hfz
            exfalso
            injection h with h; injection h with h1 _
            subst h1
            simp only [Bool.and_eq_true] at hfz
            have hk := hfz.1.1.2
            have hin := instr_known_inrange d ref hk
            simp only [getD_set_self_lt d.instrs ref _ default hin] at hu
            cases hu
          · have hres' : (d.instrs.getD ref default).resolved = false := by simpa using hres
            simp only [hres'] at h
            simp only [Bool.false_eq_true, if_false]
            exact h

theorem dataStore_nf (st : Static) (d d' : Defs) (ctx : RCtx) (ref : Nat) (x : Option BI) (s : Bool) (r : List String)
    (h : dataStore st d ctx ref x = .ok (d', s, r)) (hu : (d'.datas.getD ref default).resolved = false) :
    dataStore st d (ctx.setFirst false) ref x = .ok (d', s, r) := by
  unfold dataStore at h ⊢
  simp only [setFirst_last, setFirst_first, Bool.and_false, Bool.false_and] at h ⊢
  cases x with
  | none => exact h
  | some b =>
    simp only at h ⊢
    split at h
    · rename_i hfz
      exfalso
      injection h with h; injection h with h1 _
      subst h1
      simp only [Bool.and_eq_true] at hfz
      have hin := data_known_inrange d ref hfz.1.2
      simp only [getD_set_self_lt d.datas ref _ default hin] at hu
      cases hu
    · simp only [Bool.false_eq_true, if_false]
      exact h

theorem resolveData_nf (st : Static) (d d' : Defs) (ctx : RCtx) (ref : Nat) (sz : Option Nat) (e : Expr) (s : Bool) (r : List String)
    (h : resolveData st d ctx ref sz e = .ok (d', s, r)) (hu : (d'.datas.getD ref default).resolved = false) :
    resolveData st d (ctx.setFirst false) ref sz e = .ok (d', s, r) := by
  unfold resolveData at h ⊢
  simp only [resolverEval_first, setFirst_last] at h ⊢
  split at h
  · rename_i hres; simp only [hres, if_true]; exact h
  · rename_i hres
    simp only [hres, if_false]
    cases hev : resolverEval st d ctx {} e with
    | error m => rw [hev] at h; exact h
    | ok x =>
      rw [hev] at h
      simp only at h ⊢
      cases hde : dataEnc (ctx.last || (d.datas.getD ref default).known) x.1 with
      | error m => rw [hde] at h; exact h
      | ok enc =>
        rw [hde] at h
        simp only at h ⊢
        cases hdc : dataCheck (ctx.last || (d.datas.getD ref default).known) sz enc with
        | error m => rw [hdc] at h; exact h
        | ok u =>
          rw [hdc] at h
          exact dataStore_nf st d d' ctx ref _ s r h hu

theorem setFirst_bank (c : RCtx) (b : Bool) : (c.setFirst b).bank = c.bank := rfl

theorem resolveInstruction_shape (st : Static) (d d' : Defs) (ctx : RCtx) (ref : Nat) (s : Bool) (r : List String)
    (h : resolveInstruction st d ctx ref = .ok (d', s, r)) :
    d' = d ∨ ∃ X, d' = { d with instrs := d.instrs.set ref X } := by
  unfold resolveInstruction at h
  simp only at h
  repeat' (first | (split at h))
  all_goals first
    | (cases h; done)
    | (injection h with h; injection h with h1 _; subst h1; first | exact Or.inl rfl | exact Or.inr ⟨_, rfl⟩)

theorem resolveData_shape (st : Static) (d d' : Defs) (ctx : RCtx) (ref : Nat) (sz : Option Nat) (e : Expr) (s : Bool) (r : List String)
    (h : resolveData st d ctx ref sz e = .ok (d', s, r)) :
    d' = d ∨ ∃ X, d' = { d with datas := d.datas.set ref X } := by
  unfold resolveData at h
  simp only at h
  unfold dataStore at h
  simp only at h
  repeat' (first | (split at h))
  all_goals first
    | (cases h; done)
    | (injection h with h; injection h with h1 _; subst h1; first | exact Or.inl rfl | exact Or.inr ⟨_, rfl⟩)

theorem stEq_of_instr_set (d : Defs) (ref : Nat) (X : InstrDef)
    (hx : X.resolved = true) (hfz : ∀ r, (d.instrs.getD r default).resolved = true →
      ({ d with instrs := d.instrs.set ref X } : Defs).instrs.getD r default = d.instrs.getD r default) :
    StEq d { d with instrs := d.instrs.set ref X } := by
  refine ⟨fun _ => rfl, fun _ h => h, rfl, rfl, rfl, rfl, rfl, rfl, fun r h => ?_, fun _ h => h, fun r h => ?_, fun _ _ => rfl, fun _ _ => rfl,
    hfz, fun _ _ => rfl⟩
  · rcases getD_set_eq_or d.instrs ref r X default with h1 | ⟨h1, h2⟩
    · simp only; rw [h1]; exact h
    · subst h1; simp only; rw [h2]; exact hx
  · simp only at h ⊢
    rcases getD_set_eq_or d.instrs ref r X default with h1 | ⟨h1, h2⟩
    · exact h1
    · subst h1; rw [h2, hx] at h; cases h

theorem stEq_of_data_set (d : Defs) (ref : Nat) (X : DataDef) (hx : X.resolved = true)
    (hfz : ∀ r, (d.datas.getD r default).resolved = true →
      ({ d with datas := d.datas.set ref X } : Defs).datas.getD r default = d.datas.getD r default) :
    StEq d { d with datas := d.datas.set ref X } := by
  refine ⟨fun _ => rfl, fun _ h => h, rfl, rfl, rfl, rfl, rfl, rfl, fun _ h => h, fun r h => ?_, fun _ _ => rfl, fun r h => ?_, fun _ _ => rfl,
    fun _ _ => rfl, hfz⟩
  · rcases getD_set_eq_or d.datas ref r X default with h1 | ⟨h1, h2⟩
    · simp only; rw [h1]; exact h
    · subst h1; simp only; rw [h2]; exact hx
  · simp only at h ⊢
    rcases getD_set_eq_or d.datas ref r X default with h1 | ⟨h1, h2⟩
    · exact h1
    · subst h1; rw [h2, hx] at h; cases h

theorem resolveConstant_dich (st : Static) (d d' : Defs) (ctx : RCtx) (ref : Nat) (e : Expr) (r : List String)
    (hok : SymOK d ref) (h : resolveConstant st d ctx ref e = .ok (d', true, r)) :
    StEq d d' ∧ ((d'.sym ref).resolved = false → d' = d ∧ resolveConstant st d (ctx.setFirst false) ref e = .ok (d, true, r)) := by
  unfold resolveConstant at h ⊢
  simp only [resolverEval_first, setFirst_last, setFirst_first, Bool.and_false, Bool.false_and] at h ⊢
  split at h
  · rename_i hres
    injection h with h; injection h with h1 h2; injection h2 with _ h3
    subst h1; subst h3
    refine ⟨StEq.refl d, fun hu => ?_⟩
    rw [hres] at hu; cases hu
  · rename_i hres
    have hres' : (d.sym ref).resolved = false := by simpa using hres
    simp only [hres', Bool.false_eq_true, if_false]
    cases hev : resolverEval st d ctx {} e with
    | error m => rw [hev] at h; cases h
    | ok x =>
      obtain ⟨v, c⟩ := x
      rw [hev] at h
      simp only at h ⊢
      split at h
      · injection h with h; injection h with _ h2; injection h2 with h2 _; cases h2
      · rename_i hst
        have hvs : valuesStable v (d.sym ref).value = true := by simpa using hst
        have hv : v = (d.sym ref).value := valuesStable_eq _ _ hvs
        injection h with h; injection h with h1 h2; injection h2 with _ h3
        subst h3
        subst hv
        simp only [hvs, Bool.not_true, Bool.false_eq_true, if_false]
        have hself : ({ d.sym ref with value := (d.sym ref).value, resolved := false } : SymDef) = d.sym ref := by
          rw [← hres']
        constructor
        · -- StEq
          subst h1
          refine ⟨fun r' => ?_, fun r' hr => ?_, rfl, rfl, rfl, rfl, rfl, rfl, fun _ h => h, fun _ h => h, fun _ _ => rfl, fun _ _ => rfl, fun r' hu => ?_,
            fun _ _ => rfl, fun _ _ => rfl⟩
          · rcases sym_setSym d ref r' { d.sym ref with value := (d.sym ref).value, resolved := st.opts.optStatic && ctx.first && (d.sym ref).known } with h1 | ⟨h0, h1⟩
            · rw [h1]
            · subst h0; rw [h1]
          · rcases sym_setSym d ref r' { d.sym ref with value := (d.sym ref).value, resolved := st.opts.optStatic && ctx.first && (d.sym ref).known } with h1 | ⟨h0, h1⟩
            · rw [h1]; exact hr
            · subst h0; rw [hres'] at hr; cases hr
          · rcases sym_setSym d ref r' { d.sym ref with value := (d.sym ref).value, resolved := st.opts.optStatic && ctx.first && (d.sym ref).known } with h1 | ⟨h0, h1⟩
            · exact h1
            · subst h0
              rw [h1] at hu ⊢
              simp only at hu
              rw [hu]; exact hself
        · intro hu
          rw [hself, setSym_self d ref hok]
          refine ⟨?_, rfl⟩
          rw [← h1]
          rcases hok with hlen | ⟨s0, hs0⟩
          · unfold Defs.setSym
            rw [List.set_eq_of_length_le hlen]
          · have hin : ref < d.symbols.length := by
              by_cases hl : ref < d.symbols.length
              · exact hl
              · rw [getD_ge'' _ _ _ hl] at hs0; cases hs0
            have : (d'.sym ref).resolved = (st.opts.optStatic && ctx.first && (d.sym ref).known) := by
              rw [← h1]
              unfold Defs.setSym Defs.sym
              simp only [getD_set_self_lt d.symbols ref _ none hin]
              rfl
            rw [this] at hu
            rw [hu, hself, setSym_self d ref (Or.inr ⟨s0, hs0⟩)]

theorem resolveRes_first (st : Static) (d : Defs) (c : RCtx) (b : Bool) (ref : Nat) (e : Expr) :
    resolveRes st d (c.setFirst b) ref e = resolveRes st d c ref e := by
  unfold resolveRes; rw [resolverEval_first]; rfl
theorem resolveAlign_first (st : Static) (d : Defs) (c : RCtx) (b : Bool) (ref : Nat) (e : Expr) :
    resolveAlign st d (c.setFirst b) ref e = resolveAlign st d c ref e := by
  unfold resolveAlign; rw [resolverEval_first]; rfl
theorem resolveAddr_first (st : Static) (d : Defs) (c : RCtx) (b : Bool) (ref : Nat) (e : Expr) :
    resolveAddr st d (c.setFirst b) ref e = resolveAddr st d c ref e := by
  unfold resolveAddr; rw [resolverEval_first]; rfl
theorem resolveAssert_first (st : Static) (d : Defs) (c : RCtx) (b : Bool) (e : Expr) :
    resolveAssert st d (c.setFirst b) e = resolveAssert st d c e := by
  unfold resolveAssert; rw [resolverEval_first]; rfl

/-- **a stable step of any pass**: it changed nothing but (possibly) the entry and mark of an item it
    froze; if the item carries no mark afterwards, the step changed nothing at all and is the step a
    later pass performs -/
theorem dispatch_dich (st : Static) (d d' : Defs) (ctx : RCtx) (n : AstNode) (k : Nat) (r : List String)
    (hok : NodeOK d n) (h : dispatch st d ctx n k = .ok (d', true, r)) :
    StEq d d' ∧ (markedA d' n k = false → d' = d ∧ dispatch st d (ctx.setFirst false) n k = .ok (d, true, r)) := by
  have fr := dispatch_frame st d d' ctx n k true r h
  unfold dispatch at h ⊢
  split at h
  · rename_i level name kind ne ref
    cases kind with
    | label =>
      have hd : d' = d := resolveLabel_id st d d' ctx ref r hok h
      subst hd
      exact ⟨StEq.refl _, fun _ => ⟨rfl, h⟩⟩
    | constant e =>
      obtain ⟨h1, h2⟩ := resolveConstant_dich st d d' ctx ref e r hok h
      refine ⟨h1, fun hu => h2 ?_⟩
      simpa [markedA, markedS] using hu
  · rename_i src ref
    by_cases hu : (d'.instrs.getD ref default).resolved = false
    · have nf := resolveInstruction_nf st d d' ctx ref true r h hu
      have hd : d' = d := resolveInstruction_id st d d' (ctx.setFirst false) ref r rfl nf
      subst hd
      exact ⟨StEq.refl _, fun _ => ⟨rfl, nf⟩⟩
    · have hm : (d'.instrs.getD ref default).resolved = true := by simpa using hu
      refine ⟨?_, fun hh => ?_⟩
      · rcases resolveInstruction_shape st d d' ctx ref true r h with hd | ⟨X, hd⟩
        · rw [hd]; exact StEq.refl d
        · subst hd
          by_cases hin : ref < d.instrs.length
          · simp only [getD_set_self_lt d.instrs ref X default hin] at hm
            exact stEq_of_instr_set d ref X hm fr.ifz
          · have : d.instrs.set ref X = d.instrs := List.set_eq_of_length_le (Nat.not_lt.mp hin)
            rw [this]; exact StEq.refl d
      · simp only [markedA, markedS] at hh
        rw [hm] at hh; cases hh
  · rename_i sz es refs
    by_cases hu : (d'.datas.getD (refs.getD k 0) default).resolved = false
    · have nf := resolveData_nf st d d' ctx _ sz _ true r h hu
      have hd : d' = d := resolveData_id st d d' (ctx.setFirst false) _ sz _ r rfl nf
      subst hd
      exact ⟨StEq.refl _, fun _ => ⟨rfl, nf⟩⟩
    · have hm : (d'.datas.getD (refs.getD k 0) default).resolved = true := by simpa using hu
      refine ⟨?_, fun hh => ?_⟩
      · rcases resolveData_shape st d d' ctx _ sz _ true r h with hd | ⟨X, hd⟩
        · rw [hd]; exact StEq.refl d
        · subst hd
          by_cases hin : refs.getD k 0 < d.datas.length
          · simp only [getD_set_self_lt d.datas _ X default hin] at hm
            exact stEq_of_data_set d _ X hm fr.dfz
          · have : d.datas.set (refs.getD k 0) X = d.datas := List.set_eq_of_length_le (Nat.not_lt.mp hin)
            rw [this]; exact StEq.refl d
      · simp only [markedA, markedS] at hh
        rw [hm] at hh; cases hh
  · have hd : d' = d := resolveRes_id st d d' ctx _ _ r h
    subst hd
    refine ⟨StEq.refl _, fun _ => ⟨rfl, ?_⟩⟩
    rw [resolveRes_first]; exact h
  · have hd : d' = d := resolveAlign_id st d d' ctx _ _ r h
    subst hd
    refine ⟨StEq.refl _, fun _ => ⟨rfl, ?_⟩⟩
    rw [resolveAlign_first]; exact h
  · have hd : d' = d := resolveAddr_id st d d' ctx _ _ r h
    subst hd
    refine ⟨StEq.refl _, fun _ => ⟨rfl, ?_⟩⟩
    rw [resolveAddr_first]; exact h
  · have hd : d' = d := resolveAssert_id st d d' ctx _ true r h
    subst hd
    refine ⟨StEq.refl _, fun _ => ⟨rfl, ?_⟩⟩
    rw [resolveAssert_first]; exact h
  · injection h with h; injection h with h1 h2; injection h2 with _ h3
    subst h1; subst h3
    exact ⟨StEq.refl _, fun _ => ⟨rfl, rfl⟩⟩

/-! ## a step writes the entry of its own item only -/

macro "same_tac" : tactic => `(tactic| (
  repeat' (first | (rename_i h; split at h))
  all_goals (first | (rename_i h; cases h; done) | (rename_i h; cases h; exact ⟨rfl, rfl⟩))))

theorem simple_items (st : Static) (d d' : Defs) (ctx : RCtx) (s : Bool) (r : List String) :
    (∀ ref, resolveLabel st d ctx ref = .ok (d', s, r) → d'.instrs = d.instrs ∧ d'.datas = d.datas) ∧
    (∀ ref e, resolveConstant st d ctx ref e = .ok (d', s, r) → d'.instrs = d.instrs ∧ d'.datas = d.datas) ∧
    (∀ ref e, resolveRes st d ctx ref e = .ok (d', s, r) → d'.instrs = d.instrs ∧ d'.datas = d.datas) ∧
    (∀ ref e, resolveAlign st d ctx ref e = .ok (d', s, r) → d'.instrs = d.instrs ∧ d'.datas = d.datas) ∧
    (∀ ref e, resolveAddr st d ctx ref e = .ok (d', s, r) → d'.instrs = d.instrs ∧ d'.datas = d.datas) ∧
    (∀ e, resolveAssert st d ctx e = .ok (d', s, r) → d'.instrs = d.instrs ∧ d'.datas = d.datas) := by
  refine ⟨?_, ?_, ?_, ?_, ?_, ?_⟩
  · intro ref h; unfold resolveLabel at h; simp only at h; revert h; intro h; same_tac
  · intro ref e h; unfold resolveConstant at h; simp only at h; revert h; intro h; same_tac
  · intro ref e h; unfold resolveRes at h; simp only at h; revert h; intro h; same_tac
  · intro ref e h; unfold resolveAlign at h; simp only at h; revert h; intro h; same_tac
  · intro ref e h; unfold resolveAddr at h; simp only at h; revert h; intro h; same_tac
  · intro e h; rw [resolveAssert_id st d d' ctx e s r h]; exact ⟨rfl, rfl⟩

theorem dispatch_other_instr (st : Static) (d d' : Defs) (ctx : RCtx) (n : AstNode) (k : Nat) (s : Bool) (r : List String)
    (h : dispatch st d ctx n k = .ok (d', s, r)) (ref : Nat) (hn : ∀ src, n ≠ .instr src (some ref)) :
    d'.instrs.getD ref default = d.instrs.getD ref default := by
  obtain ⟨s1, s2, s3, s4, s5, s6⟩ := simple_items st d d' ctx s r
  unfold dispatch at h
  split at h
  · rename_i level name kind ne ref'
    cases kind with
    | label => rw [(s1 _ h).1]
    | constant e => rw [(s2 _ _ h).1]
  · rename_i src ref'
    have hne : ref' ≠ ref := fun he => hn src (by rw [he])
    rcases resolveInstruction_shape st d d' ctx ref' s r h with hd | ⟨X, hd⟩
    · rw [hd]
    · rw [hd]; exact getD_set_ne _ _ _ _ _ hne
  · rcases resolveData_shape st d d' ctx _ _ _ s r h with hd | ⟨X, hd⟩ <;> rw [hd]
  · rw [(s3 _ _ h).1]
  · rw [(s4 _ _ h).1]
  · rw [(s5 _ _ h).1]
  · rw [(s6 _ h).1]
  · injection h with h; injection h with h1 _; rw [← h1]

theorem dispatch_other_data (st : Static) (d d' : Defs) (ctx : RCtx) (n : AstNode) (k : Nat) (s : Bool) (r : List String)
    (h : dispatch st d ctx n k = .ok (d', s, r)) (ref : Nat) (hn : ∀ sz es refs, n = .data sz es refs → refs.getD k 0 ≠ ref) :
    d'.datas.getD ref default = d.datas.getD ref default := by
  obtain ⟨s1, s2, s3, s4, s5, s6⟩ := simple_items st d d' ctx s r
  unfold dispatch at h
  split at h
  · rename_i level name kind ne ref'
    cases kind with
    | label => rw [(s1 _ h).2]
    | constant e => rw [(s2 _ _ h).2]
  · rcases resolveInstruction_shape st d d' ctx _ s r h with hd | ⟨X, hd⟩ <;> rw [hd]
  · rename_i sz es refs
    have hne := hn sz es refs rfl
    rcases resolveData_shape st d d' ctx _ _ _ s r h with hd | ⟨X, hd⟩
    · rw [hd]
    · rw [hd]; exact getD_set_ne _ _ _ _ _ hne
  · rw [(s3 _ _ h).2]
  · rw [(s4 _ _ h).2]
  · rw [(s5 _ _ h).2]
  · rw [(s6 _ h).2]
  · injection h with h; injection h with h1 _; rw [← h1]

/-! ## the flag and the messages of a step depend on the state only through its values and the item's own entry -/

def flagsOf (x : ItemRes) : Except String (Bool × List String) := x.map (·.2)

macro "flags_tac" : tactic => `(tactic| (repeat' (first | rfl | split | (dsimp only))))

theorem resolveRes_flags (st : Static) (a D : Defs) (e : StEq a D) (ctx : RCtx) (ref : Nat) (x : Expr) :
    flagsOf (resolveRes st D ctx ref x) = flagsOf (resolveRes st a ctx ref x) := by
  unfold resolveRes flagsOf
  rw [resolverEval_view st e.view, e.banks, e.res]
  flags_tac

theorem resolveAlign_flags (st : Static) (a D : Defs) (e : StEq a D) (ctx : RCtx) (ref : Nat) (x : Expr) :
    flagsOf (resolveAlign st D ctx ref x) = flagsOf (resolveAlign st a ctx ref x) := by
  unfold resolveAlign flagsOf
  rw [resolverEval_view st e.view, e.aligns]
  flags_tac

theorem resolveAddr_flags (st : Static) (a D : Defs) (e : StEq a D) (ctx : RCtx) (ref : Nat) (x : Expr) :
    flagsOf (resolveAddr st D ctx ref x) = flagsOf (resolveAddr st a ctx ref x) := by
  unfold resolveAddr flagsOf
  rw [resolverEval_view st e.view, e.banks, e.addrs]
  flags_tac

theorem resolveAssert_flags (st : Static) (a D : Defs) (e : StEq a D) (ctx : RCtx) (x : Expr) :
    flagsOf (resolveAssert st D ctx x) = flagsOf (resolveAssert st a ctx x) := by
  unfold resolveAssert flagsOf
  rw [resolverEval_view st e.view]
  flags_tac

theorem resolveLabel_flags (st : Static) (a D : Defs) (e : StEq a D) (ctx : RCtx) (ref : Nat) :
    flagsOf (resolveLabel st D ctx ref) = flagsOf (resolveLabel st a ctx ref) := by
  unfold resolveLabel flagsOf
  rw [evalAddress_view e.view]
  dsimp only
  rw [e.sv ref]
  flags_tac

theorem resolveConstant_flags (st : Static) (a D : Defs) (e : StEq a D) (ctx : RCtx) (ref : Nat) (x : Expr)
    (hu : (D.sym ref).resolved = false) :
    flagsOf (resolveConstant st D ctx ref x) = flagsOf (resolveConstant st a ctx ref x) := by
  unfold resolveConstant flagsOf
  rw [resolverEval_view st e.view, e.su ref hu]
  flags_tac

theorem resolveInstruction_flags (st : Static) (a D : Defs) (e : StEq a D) (ctx : RCtx) (ref : Nat)
    (hu : (D.instrs.getD ref default).resolved = false) :
    flagsOf (resolveInstruction st D ctx ref) = flagsOf (resolveInstruction st a ctx ref) := by
  have hall : allDefinite st D ctx = allDefinite st a ctx := by
    funext cs; unfold allDefinite; rw [(viewEq st e.view (evalFuel - 1)).rmatches]
  unfold resolveInstruction flagsOf
  rw [(viewEq st e.view evalFuel).renc, e.iu ref hu, hall]
  flags_tac

theorem resolveData_flags (st : Static) (a D : Defs) (e : StEq a D) (ctx : RCtx) (ref : Nat) (sz : Option Nat) (x : Expr)
    (hu : (D.datas.getD ref default).resolved = false) :
    flagsOf (resolveData st D ctx ref sz x) = flagsOf (resolveData st a ctx ref sz x) := by
  unfold resolveData dataStore flagsOf
  rw [resolverEval_view st e.view, e.du ref hu]
  flags_tac

theorem dispatch_flags (st : Static) (a D : Defs) (e : StEq a D) (ctx : RCtx) (n : AstNode) (k : Nat)
    (hu : markedA D n k = false) :
    flagsOf (dispatch st D ctx n k) = flagsOf (dispatch st a ctx n k) := by
  unfold dispatch
  split
  · rename_i level name kind ne ref
    cases kind with
    | label => exact resolveLabel_flags st a D e ctx ref
    | constant x =>
      refine resolveConstant_flags st a D e ctx ref x ?_
      simpa [markedA, markedS] using hu
  · exact resolveInstruction_flags st a D e ctx _ (by simpa [markedA, markedS] using hu)
  · exact resolveData_flags st a D e ctx _ _ _ (by simpa [markedA, markedS] using hu)
  · exact resolveRes_flags st a D e ctx _ _
  · exact resolveAlign_flags st a D e ctx _ _
  · exact resolveAddr_flags st a D e ctx _ _
  · exact resolveAssert_flags st a D e ctx _
  · rfl

/-- **the step of a later pass, repeated on a state that differs by marks and frozen entries only** -/
theorem dispatch_cong (st : Static) (a D : Defs) (e : StEq a D) (ctx : RCtx) (hf : ctx.first = false) (n : AstNode) (k : Nat)
    (r : List String) (hu : markedA D n k = false) (hok : NodeOK D n)
    (h : dispatch st a ctx n k = .ok (a, true, r)) : dispatch st D ctx n k = .ok (D, true, r) := by
  have hfl := dispatch_flags st a D e ctx n k hu
  rw [h] at hfl
  cases hd : dispatch st D ctx n k with
  | error m => rw [hd] at hfl; cases hfl
  | ok x =>
    obtain ⟨D', s, r'⟩ := x
    rw [hd] at hfl
    simp only [flagsOf, Except.map] at hfl
    injection hfl with hfl
    injection hfl with h1 h2
    subst h1; subst h2
    rw [dispatch_id st D D' ctx n k r' hf hok hd]

/-! ## the two passes, node by node -/

theorem passNode_inv (st : Static) (first last : Bool) (a a' : PassSt) (n : AstNode) (k : Nat)
    (h : passNode st first last a n k = .ok a') :
    ∃ it s r, visit a.defs.banks a.it (nodeItem st a.defs n k) = .ok it ∧
      dispatch st a.defs ⟨first, last, stepCtx st a.symCtx n, it.bank, it.pos⟩ n k = .ok (a'.defs, s, r) ∧
      advance a'.defs.banks it (nodeItem st a'.defs n k) = .ok a'.it ∧ a'.symCtx = stepCtx st a.symCtx n ∧
      a'.stable = (a.stable && s) ∧ a'.reported = a.reported ++ r := by
  rw [passNode_eq'] at h
  split at h
  · cases h
  · rename_i it hv
    split at h
    · cases h
    · rename_i defs stable reported hd
      split at h
      · cases h
      · rename_i it' ha
        injection h with h
        subst h
        exact ⟨it, stable, reported, hv, hd, ha, rfl, rfl, rfl⟩

theorem visit_cong (st : Static) (a D : Defs) (e : StEq a D) (bk : List Bank) (it : IterSt) (n : AstNode) (k : Nat) :
    visit bk it (nodeItem st D n k) = visit bk it (nodeItem st a n k) := by
  unfold nodeItem
  split
  · rfl
  · rfl
  · rename_i kind _ r
    cases kind with
    | label => simp only [e.sv r]
    | constant x => rfl
  · rfl
  · rfl
  · rw [e.res]
  · rw [e.aligns]
  · rw [e.addrs]
  · rfl

/-- the own entry of the item of node `n`, element `k` -/
def OwnSame (x y : Defs) (n : AstNode) (k : Nat) : Prop :=
  match n with
  | .instr _ (some ref) => y.instrs.getD ref default = x.instrs.getD ref default
  | .data _ _ refs => y.datas.getD (refs.getD k 0) default = x.datas.getD (refs.getD k 0) default
  | _ => True

theorem nodeItem_own (st : Static) (x y : Defs) (e : StEq x y) (n : AstNode) (k : Nat) (h : OwnSame x y n k) :
    nodeItem st y n k = nodeItem st x n k := by
  unfold nodeItem
  unfold OwnSame at h
  split
  · rfl
  · rfl
  · rename_i kind _ r
    cases kind with
    | label => simp only [e.sv r]
    | constant x => rfl
  · simp only at h; rw [h]
  · simp only at h; rw [h]
  · rw [e.res]
  · rw [e.aligns]
  · rw [e.addrs]
  · rfl

/-- facts of one stable step of any pass -/
theorem passNode_facts (st : Static) (first last : Bool) (a a' : PassSt) (n : AstNode) (k : Nat)
    (h : passNode st first last a n k = .ok a') (hs : a'.stable = true) (hok : NodeOK a.defs n) :
    a.stable = true ∧ StEq a.defs a'.defs ∧
      (∀ ref, (∀ src, n ≠ .instr src (some ref)) → a'.defs.instrs.getD ref default = a.defs.instrs.getD ref default) ∧
      (∀ ref, (∀ sz es refs, n = .data sz es refs → refs.getD k 0 ≠ ref) → a'.defs.datas.getD ref default = a.defs.datas.getD ref default) := by
  obtain ⟨it, s, r, hv, hd, ha, hsc, hst, hrep⟩ := passNode_inv st first last a a' n k h
  rw [hst] at hs
  simp only [Bool.and_eq_true] at hs
  obtain ⟨hs0, hs1⟩ := hs
  subst hs1
  exact ⟨hs0, (dispatch_dich st a.defs a'.defs _ n k r hok hd).1,
    fun ref hn => dispatch_other_instr st a.defs a'.defs _ n k true r hd ref hn,
    fun ref hn => dispatch_other_data st a.defs a'.defs _ n k true r hd ref hn⟩

theorem nodesOK_step (st : Static) (first last : Bool) (nodes : List AstNode) (hwf : NoClash nodes) (a a' : PassSt) (n : AstNode) (k : Nat)
    (hn : n ∈ nodes) (h : passNode st first last a n k = .ok a') (hok : NodesOK a.defs nodes) : NodesOK a'.defs nodes := by
  obtain ⟨h1, _⟩ := passNode_ok_step st first last a a' n k h
  exact fun m hm => h1 m (hwf n hn m hm) (hok m hm)

/-- facts of the element loop of one node in a stable pass -/
theorem go_facts (st : Static) (first last : Bool) (nodes : List AstNode) (hwf : NoClash nodes) (n : AstNode) (hn : n ∈ nodes) :
    ∀ (fuel k : Nat) (a a1 : PassSt), passNodes.go st first last n k fuel a = .ok a1 → a1.stable = true → NodesOK a.defs nodes →
      a.stable = true ∧ StEq a.defs a1.defs ∧ NodesOK a1.defs nodes ∧
      (∀ ref, (∀ src, n ≠ .instr src (some ref)) → a1.defs.instrs.getD ref default = a.defs.instrs.getD ref default) ∧
      (∀ ref, (∀ sz es refs, n = .data sz es refs → ∀ k', k ≤ k' → k' < k + fuel → refs.getD k' 0 ≠ ref) →
        a1.defs.datas.getD ref default = a.defs.datas.getD ref default) := by
  intro fuel
  induction fuel with
  | zero =>
    intro k a a1 h hs hok
    simp only [passNodes.go] at h
    injection h with h; subst h
    exact ⟨hs, StEq.refl _, hok, fun _ _ => rfl, fun _ _ => rfl⟩
  | succ f ih =>
    intro k a a1 h hs hok
    simp only [passNodes.go] at h
    cases hp : passNode st first last a n k with
    | error m => rw [hp] at h; cases h
    | ok a' =>
      rw [hp] at h
      simp only at h
      have hok' := nodesOK_step st first last nodes hwf a a' n k hn hp hok
      obtain ⟨s2, e2, ok2, i2, d2⟩ := ih (k + 1) a' a1 h hs hok'
      obtain ⟨s1, e1, i1, d1⟩ := passNode_facts st first last a a' n k hp s2 (hok n hn)
      refine ⟨s1, e1.trans e2, ok2, fun ref hr => (i2 ref hr).trans (i1 ref hr), fun ref hr => ?_⟩
      rw [d2 ref (fun sz es refs he k' h1 h2 => hr sz es refs he k' (by omega) (by omega))]
      exact d1 ref (fun sz es refs he => hr sz es refs he k (Nat.le_refl k) (by omega))

/-- facts of the rest of a stable pass -/
theorem passNodes_facts (st : Static) (first last : Bool) (nodes : List AstNode) (hwf : NoClash nodes) :
    ∀ (rest : List AstNode) (a a1 : PassSt), (∀ m ∈ rest, m ∈ nodes) → passNodes st first last rest a = .ok a1 → a1.stable = true →
      NodesOK a.defs nodes →
      a.stable = true ∧ StEq a.defs a1.defs ∧ NodesOK a1.defs nodes ∧
      (∀ ref, (∀ src, AstNode.instr src (some ref) ∉ rest) → a1.defs.instrs.getD ref default = a.defs.instrs.getD ref default) ∧
      (∀ ref, (∀ sz es refs, AstNode.data sz es refs ∈ rest → ∀ k', k' < es.length → refs.getD k' 0 ≠ ref) →
        a1.defs.datas.getD ref default = a.defs.datas.getD ref default) := by
  intro rest
  induction rest with
  | nil =>
    intro a a1 _ h hs hok
    simp only [passNodes] at h
    injection h with h; subst h
    exact ⟨hs, StEq.refl _, hok, fun _ _ => rfl, fun _ _ => rfl⟩
  | cons n rest ih =>
    intro a a1 hsub h hs hok
    rw [passNodes_cons] at h
    cases hg : passNodes.go st first last n 0 (nodeElems n) a with
    | error e => rw [hg] at h; cases h
    | ok a' =>
      rw [hg] at h
      simp only at h
      have hn : n ∈ nodes := hsub n List.mem_cons_self
      obtain ⟨s2, e2, ok2, i2, d2⟩ := ih a' a1 (fun m hm => hsub m (List.mem_cons_of_mem _ hm)) h hs
        (go_facts st first last nodes hwf n hn (nodeElems n) 0 a a' hg (by
          -- stability of the intermediate state follows from the rest
          exact passNodes_stable_mono st first last rest a' a1 h hs) hok).2.2.1
      have hs' : a'.stable = true := s2
      obtain ⟨s1, e1, _, i1, d1⟩ := go_facts st first last nodes hwf n hn (nodeElems n) 0 a a' hg hs' hok
      refine ⟨s1, e1.trans e2, ok2, fun ref hr => ?_, fun ref hr => ?_⟩
      · rw [i2 ref (fun src hm => hr src (List.mem_cons_of_mem _ hm))]
        exact i1 ref (fun src he => hr src (by rw [he]; exact List.mem_cons_self))
      · rw [d2 ref (fun sz es refs hm => hr sz es refs (List.mem_cons_of_mem _ hm))]
        refine d1 ref (fun sz es refs he k' _ h2 => hr sz es refs (by rw [he]; exact List.mem_cons_self) k' ?_)
        rw [he] at h2
        simpa [nodeElems] using h2

/-- the step of the second pass on the final state `D` of a stable first pass -/
theorem corner_passNode (st : Static) (first : Bool) (a a' : PassSt) (n : AstNode) (k : Nat) (D : Defs)
    (h : passNode st first false a n k = .ok a') (hs : a'.stable = true) (hok : NodeOK a.defs n)
    (e' : StEq a'.defs D) (hokD : NodeOK D n) (hown : nodeItem st D n k = nodeItem st a'.defs n k) :
    passNode st false false ⟨D, a.it, a.symCtx, true, []⟩ n k = .ok ⟨D, a'.it, a'.symCtx, true, []⟩ := by
  obtain ⟨it, s, r, hv, hd, ha, hsc, hst, hrep⟩ := passNode_inv st first false a a' n k h
  have hs1 : s = true := by
    rw [hst] at hs
    simp only [Bool.and_eq_true] at hs
    exact hs.2
  subst hs1
  obtain ⟨e1, hun⟩ := dispatch_dich st a.defs a'.defs _ n k r hok hd
  have e : StEq a.defs D := e1.trans e'
  rw [passNode_eq']
  simp only
  rw [e.banks, visit_cong st a.defs D e, hv]
  simp only
  have hq : r = [] := dispatch_quiet st _ _ _ rfl n k _ _ hd
  subst hq
  have hdD : dispatch st D ⟨false, false, stepCtx st a.symCtx n, it.bank, it.pos⟩ n k = .ok (D, true, []) := by
    cases hm : markedA D n k with
    | true => exact dispatch_markedS (fun _ => false) st D _ n k hm
    | false =>
      have hm' : markedA a'.defs n k = false := by
        cases n with
        | instr src rr =>
          cases rr with
          | none => rfl
          | some ref =>
            simp only [markedA, markedS] at hm ⊢
            cases hx : (a'.defs.instrs.getD ref default).resolved with
            | false => rfl
            | true => rw [e'.im ref hx] at hm; cases hm
        | data sz es refs =>
          simp only [markedA, markedS] at hm ⊢
          cases hx : (a'.defs.datas.getD (refs.getD k 0) default).resolved with
          | false => rfl
          | true => rw [e'.dm _ hx] at hm; cases hm
        | symbol l nm kd ne rr =>
          cases rr with
          | none => cases kd <;> rfl
          | some r0 =>
            cases kd with
            | label => rfl
            | constant x =>
              simp only [markedA, markedS, Bool.not_false, Bool.and_true] at hm ⊢
              cases hx : (a'.defs.sym r0).resolved with
              | false => rfl
              | true => rw [e'.sm r0 hx] at hm; cases hm
        | _ => rfl
      obtain ⟨hda, hnf⟩ := hun hm'
      exact dispatch_cong st a.defs D e _ rfl n k [] hm hokD hnf
  rw [hdD]
  simp only
  rw [hown, e'.banks, ha, hsc]
  rfl

/-- instruction and data-element references are pairwise distinct -/
structure Uniq (nodes : List AstNode) : Prop where
  instr : ∀ pre src ref post, nodes = pre ++ .instr src (some ref) :: post → ∀ src', AstNode.instr src' (some ref) ∉ post
  dataIn : ∀ sz es refs, AstNode.data sz es refs ∈ nodes → ∀ k1 k2, k1 < es.length → k2 < es.length →
    refs.getD k1 0 = refs.getD k2 0 → k1 = k2
  dataOut : ∀ pre sz es refs post, nodes = pre ++ .data sz es refs :: post → ∀ sz' es' refs', AstNode.data sz' es' refs' ∈ post →
    ∀ k k', k < es.length → k' < es'.length → refs.getD k 0 ≠ refs'.getD k' 0

theorem OwnSame.trans {x y z : Defs} {n : AstNode} {k : Nat} (h1 : OwnSame x y n k) (h2 : OwnSame y z n k) : OwnSame x z n k := by
  unfold OwnSame at *
  split <;> simp_all

theorem corner_go (st : Static) (first : Bool) (nodes : List AstNode) (hwf : NoClash nodes) (u : Uniq nodes) (D : Defs)
    (hokD : NodesOK D nodes) (n : AstNode) (hn : n ∈ nodes) :
    ∀ (fuel k : Nat) (a a1 : PassSt), k + fuel ≤ nodeElems n → passNodes.go st first false n k fuel a = .ok a1 → a1.stable = true →
      NodesOK a.defs nodes → StEq a1.defs D → (∀ k', k ≤ k' → k' < k + fuel → OwnSame a1.defs D n k') →
      passNodes.go st false false n k fuel ⟨D, a.it, a.symCtx, true, []⟩ = .ok ⟨D, a1.it, a1.symCtx, true, []⟩ := by
  intro fuel
  induction fuel with
  | zero =>
    intro k a a1 _ h _ _ _ _
    simp only [passNodes.go] at h ⊢
    injection h with h; subst h; rfl
  | succ f ih =>
    intro k a a1 hkf h hs hok e1 hown
    simp only [passNodes.go] at h ⊢
    cases hp : passNode st first false a n k with
    | error m => rw [hp] at h; cases h
    | ok a' =>
      rw [hp] at h
      simp only at h
      have hok' := nodesOK_step st first false nodes hwf a a' n k hn hp hok
      obtain ⟨s2, e2, _g1, i2, d2⟩ := go_facts st first false nodes hwf n hn f (k + 1) a' a1 h hs hok'
      have hown' : OwnSame a'.defs D n k := by
        have h1 : OwnSame a'.defs a1.defs n k := by
          unfold OwnSame
          split
          · rename_i src ref
            -- an instruction node has one element: nothing follows
            have hf : f = 0 := by simp [nodeElems] at hkf; omega
            subst hf
            simp only [passNodes.go] at h
            injection h with h; rw [h]
          · rename_i sz es refs
            refine d2 _ (fun sz' es' refs' he k' hk1 hk2 heq => ?_)
            injection he with h1 h2 h3
            subst h1 h2 h3
            have hlen : k + (f + 1) ≤ es.length := by simpa [nodeElems] using hkf
            have := u.dataIn sz es refs hn k' k (by omega) (by omega) heq
            omega
          · trivial
        exact h1.trans (hown k (Nat.le_refl k) (by omega))
      have step := corner_passNode st first a a' n k D hp s2 (hok n hn) (e2.trans e1) (hokD n hn)
        (nodeItem_own st a'.defs D (e2.trans e1) n k hown')
      rw [step]
      simp only
      exact ih (k + 1) a' a1 (by omega) h hs hok' e1 (fun k' h1 h2 => hown k' (by omega) (by omega))

theorem corner_passNodes (st : Static) (first : Bool) (nodes : List AstNode) (hwf : NoClash nodes) (u : Uniq nodes) (D : Defs)
    (hokD : NodesOK D nodes) :
    ∀ (rest pre : List AstNode) (a a1 : PassSt), nodes = pre ++ rest → passNodes st first false rest a = .ok a1 → a1.stable = true →
      NodesOK a.defs nodes → StEq a1.defs D → (∀ n ∈ rest, ∀ k', k' < nodeElems n → OwnSame a1.defs D n k') →
      passNodes st false false rest ⟨D, a.it, a.symCtx, true, []⟩ = .ok ⟨D, a1.it, a1.symCtx, true, []⟩ := by
  intro rest
  induction rest with
  | nil =>
    intro pre a a1 _ h _ _ _ _
    simp only [passNodes] at h ⊢
    injection h with h; subst h; rfl
  | cons n rest ih =>
    intro pre a a1 hsplit h hs hok e1 hown
    rw [passNodes_cons] at h ⊢
    have hn : n ∈ nodes := by rw [hsplit]; simp
    have hsub : ∀ m ∈ rest, m ∈ nodes := fun m hm => by rw [hsplit]; simp [hm]
    cases hg : passNodes.go st first false n 0 (nodeElems n) a with
    | error e => rw [hg] at h; cases h
    | ok a' =>
      rw [hg] at h
      simp only at h
      have hs' : a'.stable = true := passNodes_stable_mono st first false rest a' a1 h hs
      obtain ⟨_g1, _g2, hok', _g3, _g4⟩ := go_facts st first false nodes hwf n hn (nodeElems n) 0 a a' hg hs' hok
      obtain ⟨_g5, e2, _g6, i2, d2⟩ := passNodes_facts st first false nodes hwf rest a' a1 hsub h hs hok'
      have hown' : ∀ k', 0 ≤ k' → k' < 0 + nodeElems n → OwnSame a'.defs D n k' := by
        intro k' _ hk'
        have h1 : OwnSame a'.defs a1.defs n k' := by
          unfold OwnSame
          split
          · rename_i src ref
            exact i2 ref (u.instr pre src ref rest hsplit)
          · rename_i sz es refs
            refine d2 _ (fun sz' es' refs' hm k2 hk2 heq => ?_)
            have hlen : k' < es.length := by simpa [nodeElems] using hk'
            exact u.dataOut pre sz es refs rest hsplit sz' es' refs' hm k' k2 hlen hk2 heq.symm
          · trivial
        exact h1.trans (hown n List.mem_cons_self k' (by omega))
      rw [corner_go st first nodes hwf u D hokD n hn (nodeElems n) 0 a a' (by omega) hg hs' hok (e2.trans e1) hown']
      simp only
      exact ih (pre ++ [n]) a' a1 (by rw [hsplit]; simp) h hs hok' e1
        (fun m hm k' hk' => hown m (List.mem_cons_of_mem _ hm) k' hk')

theorem OwnSame.refl (x : Defs) (n : AstNode) (k : Nat) : OwnSame x x n k := by
  unfold OwnSame; split <;> trivial

/-- **a stable pass leaves a fixed point of the guessing pass** -/
theorem corner_resolveOnce (st : Static) (first : Bool) (nodes : List AstNode) (hwf : NoClash nodes) (u : Uniq nodes)
    (d0 d1 : Defs) (r1 : List String) (hok0 : NodesOK d0 nodes)
    (h : resolveOnce st nodes first false d0 = .ok (d1, true, r1)) :
    resolveOnce st nodes false false d1 = .ok (d1, true, []) := by
  have hokD : NodesOK d1 nodes := pass_establishes_ok st nodes first false d0 d1 true r1 h hwf
  unfold resolveOnce at h ⊢
  cases hp : passNodes st first false nodes ⟨d0, initIter d0.banks, [], true, []⟩ with
  | error e => rw [hp] at h; cases h
  | ok a1 =>
    rw [hp] at h
    injection h with h; injection h with h1 h2; injection h2 with h2 _
    have e : StEq d0 a1.defs := (passNodes_facts st first false nodes hwf nodes _ a1 (fun _ hm => hm) hp h2 hok0).2.1
    have hb : d1.banks = d0.banks := by rw [← h1]; exact e.banks
    have := corner_passNodes st first nodes hwf u d1 hokD nodes [] ⟨d0, initIter d0.banks, [], true, []⟩ a1 rfl hp h2 hok0
      (by rw [h1]; exact StEq.refl d1) (fun n _ k' _ => by rw [h1]; exact OwnSame.refl d1 n k')
    rw [hb, this]

/-! ## the two settings: the same outcome at every budget of at least two -/

/-- an outcome without its iteration count -/
def dropK (x : Nat × Defs × List String) : Defs × List String := (x.2.1, x.2.2)

theorem finish_dropK (st : Static) (nodes : List AstNode) (i j : Nat) (d : Defs) (rep : List String) :
    (finish st nodes (.ok (i, d, rep, false))).map dropK = (finish st nodes (.ok (j, d, rep, false))).map dropK := by
  simp only [finish]
  cases resolveOnce st nodes false true d with
  | error e => obtain ⟨m, r⟩ := e; rfl
  | ok x =>
    obtain ⟨d', s, r⟩ := x
    cases s <;> rfl

theorem usFin_dropK (H : Nat → Bool) (x y : Except (List String) (Nat × Defs × List String))
    (h : x.map dropK = y.map dropK) : (x.map (usFin H)).map dropK = (y.map (usFin H)).map dropK := by
  cases x with
  | error e =>
    cases y with
    | error e' => simp only [Except.map] at h ⊢; exact h
    | ok b => simp [Except.map] at h
  | ok a =>
    cases y with
    | error e' => simp [Except.map] at h
    | ok b =>
      simp only [Except.map, Except.ok.injEq, dropK, usFin] at h ⊢
      obtain ⟨h4, h5⟩ := Prod.mk.inj h
      rw [h4, h5]

/-- **C08 for the static switch, at the level of the iteration**: for every budget of at least two the
    two assemblers fail with the same messages or succeed with the same values and messages; only the
    iteration count may differ (by the one pass the unoptimised assembler needs more when the
    optimised first pass is already stable). -/
theorem resolveIterativelyN_switch_outcome (H : Nat → Bool) (st : Static) (nodes : List AstNode) (d0 : Defs)
    (f : FrontOK st nodes d0) (fs : FrontOKS st nodes d0 H) (ho : st.opts.optStatic = true) (hwf : NoClash nodes)
    (u : Uniq nodes) (hok0 : NodesOK d0 nodes) (m : Nat) :
    (resolveIterativelyN (st.withStatic false) nodes (m + 2) (d0.unfS H)).map dropK =
      ((resolveIterativelyN st nodes (m + 2) d0).map (usFin H)).map dropK := by
  by_cases hagree : ∀ d1 r1, resolveOnce st nodes true false d0 = .ok (d1, true, r1) →
      resolveOnce (st.withStatic false) nodes true false (d0.unfS H) = .ok (d1.unfS H, true, r1)
  · rw [resolveIterativelyN_switch_lockstep H st nodes d0 f fs ho m hagree]
  · have hex : ∃ d1 r1, resolveOnce st nodes true false d0 = .ok (d1, true, r1) ∧
        ¬ resolveOnce (st.withStatic false) nodes true false (d0.unfS H) = .ok (d1.unfS H, true, r1) := by
      refine Classical.byContradiction fun hno => hagree fun d1 r1 hp => ?_
      exact Classical.byContradiction fun hn => hno ⟨d1, r1, hp, hn⟩
    obtain ⟨d1, r1, hp, hn⟩ := hex
    have g0 := good_init st nodes d0 f
    have gc0 := goodC_init st nodes d0 H fs
    have sim := resolveOnce_sim H st nodes d0 f fs true false (fun _ => rfl) d0 g0 gc0 (by simpa using ho)
    rw [hp] at sim
    obtain ⟨gc1, s2, e2, _, _⟩ := sim
    have hs2 : s2 = false := by
      cases s2 with
      | false => rfl
      | true => exact absurd e2 hn
    subst hs2
    obtain ⟨g1, k31⟩ := resolveOnce_good st nodes d0 f true false d0 d1 true r1 g0 (by simpa using ho) hp
    rw [resolveIterativelyN_finish, resolveIterativelyN_finish, iterLoop_first, iterLoop_first, hp, e2]
    simp only [if_true, Bool.false_eq_true, if_false]
    cases m with
    | zero =>
      -- budget 2: the second pass of the unoptimised assembler is the confirming pass of the other
      have h1 : ¬ (1 ≥ 0 + 2) := by omega
      have h2 : ((1 + 1 : Nat) == 1) = false := by decide
      have h3 : ((1 + 1 : Nat) == 0 + 2) = true := by decide
      rw [iterLoop]
      simp only [h1, if_false, h2, h3]
      have sim2 := resolveOnce_sim H st nodes d0 f fs false true (fun hh => by cases hh) d1 g1 gc1 (by simpa using k31)
      simp only [finish]
      cases hq : resolveOnce st nodes false true d1 with
      | error e =>
        rw [hq] at sim2
        simp only at sim2
        rw [sim2]
        obtain ⟨msg, r⟩ := e
        rfl
      | ok x =>
        obtain ⟨d', s', r2⟩ := x
        rw [hq] at sim2
        obtain ⟨_, s2', e2', _, i2'⟩ := sim2
        have : s2' = s' := i2' rfl
        subst this
        rw [e2']
        cases s2' <;> rfl
    | succ m' =>
      have hq := corner_resolveOnce st true nodes hwf u d0 d1 r1 hok0 hp
      have sim2 := resolveOnce_sim H st nodes d0 f fs false false (fun hh => by cases hh) d1 g1 gc1 (by simpa using k31)
      rw [hq] at sim2
      obtain ⟨_, s2', e2', _, i2'⟩ := sim2
      have : s2' = true := i2' rfl
      subst this
      have h1 : ¬ (1 ≥ m' + 1 + 2) := by omega
      have h2 : ((1 + 1 : Nat) == 1) = false := by decide
      have h3 : ((1 + 1 : Nat) == m' + 1 + 2) = false := by
        have : (1 + 1 : Nat) ≠ m' + 1 + 2 := by omega
        simp
      rw [iterLoop]
      simp only [h1, if_false, h2, h3, e2', if_true, Bool.false_eq_true, List.append_nil]
      rw [finish_sim H st nodes d0 f fs (1 + 1) d1 _ false g1 gc1 k31]
      exact usFin_dropK H _ _ (finish_dropK st nodes (1 + 1) 1 d1 ([] ++ r1))

end Casm
