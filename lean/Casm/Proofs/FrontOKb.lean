import Casm.Proofs.FullFix
/-!
# Casm.Proofs.FrontOKb — the decision procedure `frontOKb` is sound for `FrontOK`
-/
namespace Casm

theorem positions_of_split (nodes pre : List AstNode) (n : AstNode) (post : List AstNode) (h : nodes = pre ++ n :: post) :
    (pre.length, n) ∈ positions nodes ∧ nodes.take pre.length = pre := by
  subst h
  refine ⟨?_, by simp⟩
  unfold positions
  rw [List.mem_filterMap]
  refine ⟨pre.length, List.mem_range.mpr (by simp), ?_⟩
  simp

theorem split_of_mem (nodes : List AstNode) (n : AstNode) (h : n ∈ nodes) : ∃ pre post, nodes = pre ++ n :: post :=
  List.append_of_mem h

theorem all_getD {α} [Inhabited α] (l : List α) (p : α → Bool) (hd : p default = true) (h : l.all p = true) (i : Nat) :
    p (l.getD i default) = true := by
  by_cases hi : i < l.length
  · have : l.getD i default = l[i] := by simp [List.getD_eq_getElem?_getD, hi]
    rw [this]; exact List.all_eq_true.mp h _ (List.getElem_mem hi)
  · have : l.getD i default = default := by simp [List.getD_eq_getElem?_getD, Nat.not_lt.mp hi]
    rw [this]; exact hd

theorem getD_lt' {α} (l : List α) (i : Nat) (d : α) (h : i < l.length) : l.getD i d = l[i] := by
  simp [List.getD_eq_getElem?_getD, h]

theorem getD_ge' {α} (l : List α) (i : Nat) (d : α) (h : ¬ i < l.length) : l.getD i d = d := by
  simp [List.getD_eq_getElem?_getD, Nat.not_lt.mp h]

theorem frontOKb_sound (st : Static) (nodes : List AstNode) (d0 : Defs) (ho : st.opts.optStatic = true)
    (h : frontOKb st nodes d0 = true) : FrontOK st nodes d0 := by
  unfold frontOKb at h
  simp only [Bool.and_eq_true] at h
  obtain ⟨⟨⟨h1, h2⟩, h3⟩, h4⟩ := h
  have pos : ∀ pre n post, nodes = pre ++ n :: post →
      (match n with
      | .instr _ (some ref) =>
        ((positions nodes).all fun q => match q.2 with
           | .instr _ (some ref') => ref' != ref || q.1 == pre.length
           | _ => true)
        && (!(d0.instrs.getD ref default).known || (d0.instrs.getD ref default).cands.all fun c => matchKnown st.decls d0 (ctxAfter st [] pre) 64 c.m)
      | .data _ es refs =>
        (List.range es.length).all fun k =>
          (!(d0.datas.getD (refs.getD k 0) default).known || staticallyKnown pureP (es.getD k default))
          && ((positions nodes).all fun q => match q.2 with
               | .data _ es' refs' => (List.range es'.length).all fun k' => refs'.getD k' 0 != refs.getD k 0 || (q.1 == pre.length && k' == k)
               | _ => true)
      | .symbol _ _ .label _ (some r) => !(d0.sym r).known
      | _ => true) = true := by
    intro pre n post hs
    obtain ⟨hm, ht⟩ := positions_of_split nodes pre n post hs
    have := List.all_eq_true.mp h3 _ hm
    simp only [ht] at this
    exact this
  refine ⟨fun ref => ?_, fun ref => ?_, ?_, ?_, ?_, ?_, ?_, ?_⟩
  · have := all_getD d0.instrs (fun i => !i.resolved) (by rfl) h1 ref
    simpa using this
  · have := all_getD d0.datas (fun x => !x.resolved) (by rfl) h2 ref
    simpa using this
  · -- instrPos
    intro pre src ref post pre' src' post' hs hs'
    have hp := pos pre (.instr src (some ref)) post hs
    simp only [Bool.and_eq_true] at hp
    obtain ⟨hq, _⟩ := positions_of_split nodes pre' (.instr src' (some ref)) post' hs'
    have := List.all_eq_true.mp hp.1 _ hq
    simp only [bne_self_eq_false, Bool.false_or, beq_iff_eq] at this
    have e1 : pre' = pre := by
      have t1 := (positions_of_split nodes pre' _ post' hs').2
      have t2 := (positions_of_split nodes pre _ post hs).2
      rw [← t1, ← t2, this]
    rw [e1]
  · -- instrKnown
    intro pre src ref post hs hk c hc
    have hp := pos pre (.instr src (some ref)) post hs
    simp only [Bool.and_eq_true] at hp
    have := hp.2
    rw [hk] at this
    simp only [Bool.not_true, Bool.false_or] at this
    exact List.all_eq_true.mp this c hc
  · -- dataKnown
    intro pre sz es refs post k hs hk hkn
    have hp := pos pre (.data sz es refs) post hs
    have := List.all_eq_true.mp hp k (List.mem_range.mpr hk)
    simp only [Bool.and_eq_true] at this
    have t := this.1
    rw [hkn] at t
    simpa using t
  · -- dataPos
    intro pre sz es refs post k pre' sz' es' refs' post' k' hs hs' hk hk' hr
    have hp := pos pre (.data sz es refs) post hs
    have := List.all_eq_true.mp hp k (List.mem_range.mpr hk)
    simp only [Bool.and_eq_true] at this
    obtain ⟨hq, _⟩ := positions_of_split nodes pre' (.data sz' es' refs') post' hs'
    have t := List.all_eq_true.mp this.2 _ hq
    simp only at t
    have t2 := List.all_eq_true.mp t k' (List.mem_range.mpr hk')
    rw [hr] at t2
    simp only [bne_self_eq_false, Bool.false_or, Bool.and_eq_true, beq_iff_eq] at t2
    obtain ⟨el, ek⟩ := t2
    have e1 : pre' = pre := by
      have t1 := (positions_of_split nodes pre' _ post' hs').2
      have t3 := (positions_of_split nodes pre _ post hs).2
      rw [← t1, ← t3, el]
    subst e1
    rw [hs] at hs'
    have := List.append_cancel_left hs'
    injection this with hn _
    injection hn with a b c
    subst a b c ek
    exact ⟨rfl, rfl⟩
  · -- labelNotKnown
    intro l nm ne r hm
    obtain ⟨pre, post, hs⟩ := split_of_mem nodes _ hm
    have hp := pos pre _ post hs
    simpa using hp
  · -- j
    intro r hk hv
    have hkr := sym_known_inrange d0 r hk
    rw [ho] at h4
    simp only [Bool.not_true, Bool.false_or] at h4
    have := List.all_eq_true.mp h4 r (List.mem_range.mpr hkr)
    rw [hk] at this
    simp only [Bool.not_true, Bool.false_or] at this
    cases hvv : (d0.sym r).value with
    | unknown => exact absurd hvv hv
    | _ => simpa using this

end Casm
