import Casm.Model.Symbols
/-!
# Casm.Proofs.SymbolLemmas — the declaration table is a faithful map from dotted paths to declarations
-/
namespace Casm

theorem traverse_single (m : SymMgr) (parent : Option Nat) (h : String) :
    m.traverse parent [h] = assocGet (m.childrenOf parent) h := by
  simp [SymMgr.traverse]

theorem traverse_cons_cons (m : SymMgr) (parent : Option Nat) (h h2 : String) (rest : List String) :
    m.traverse parent (h :: h2 :: rest) =
      match assocGet (m.childrenOf parent) h with
      | none => none
      | some c => m.traverse (some c) (h2 :: rest) := by
  simp only [SymMgr.traverse]
  cases assocGet (m.childrenOf parent) h <;> rfl

theorem traverse_cons (m : SymMgr) (parent : Option Nat) (h : String) (rest : List String) (hr : rest ≠ []) :
    m.traverse parent (h :: rest) =
      match assocGet (m.childrenOf parent) h with
      | none => none
      | some c => m.traverse (some c) rest := by
  cases rest with
  | nil => exact absurd rfl hr
  | cons h2 r => exact traverse_cons_cons m parent h h2 r

theorem traverse_append (m : SymMgr) :
    ∀ (A B : List String) (parent : Option Nat), A ≠ [] → B ≠ [] →
      m.traverse parent (A ++ B) = (m.traverse parent A).bind (fun q => m.traverse (some q) B) := by
  intro A
  induction A with
  | nil => intro B parent hA; exact absurd rfl hA
  | cons h t ih =>
    intro B parent _ hB
    cases t with
    | nil =>
      simp only [List.singleton_append, traverse_single]
      rw [traverse_cons m parent h B hB]
      cases assocGet (m.childrenOf parent) h <;> rfl
    | cons h2 t2 =>
      rw [List.cons_append, traverse_cons m parent h ((h2 :: t2) ++ B) (by simp), traverse_cons_cons]
      cases assocGet (m.childrenOf parent) h with
      | none => rfl
      | some c => exact ih B (some c) (by simp) hB

theorem getParent_eq_traverse (m : SymMgr) :
    ∀ (Q : List String) (parent : Option Nat), Q ≠ [] →
      m.getParent parent Q = (match m.traverse parent Q with | some r => some (some r) | none => none) := by
  intro Q
  induction Q with
  | nil => intro parent hQ; exact absurd rfl hQ
  | cons h t ih =>
    intro parent _
    cases t with
    | nil =>
      simp only [SymMgr.getParent, traverse_single]
      cases assocGet (m.childrenOf parent) h <;> rfl
    | cons h2 t2 =>
      rw [traverse_cons_cons]
      simp only [SymMgr.getParent]
      cases assocGet (m.childrenOf parent) h with
      | none => rfl
      | some c =>
        have := ih (some c) (by simp)
        simp only [SymMgr.getParent] at this ⊢
        exact this

/-- the dotted path of a parent reference -/
def pathOf (m : SymMgr) : Option Nat → List String
  | none => []
  | some p => (m.decls.getD p default).ctx

/-- the table is a faithful tree: every child entry points to a declaration whose path is the
    parent's path plus the entry's name, and every declaration is such a child of an earlier one
    (or of the root) -/
structure WFTable (m : SymMgr) : Prop where
  child_sound : ∀ parent h c, assocGet (m.childrenOf parent) h = some c →
    c < m.decls.length ∧ (m.decls.getD c default).ctx = pathOf m parent ++ [h]
  decl_reachable : ∀ i, i < m.decls.length → ∃ parent h,
    (parent = none ∨ ∃ p, parent = some p ∧ p < i) ∧
    (m.decls.getD i default).ctx = pathOf m parent ++ [h] ∧ assocGet (m.childrenOf parent) h = some i

/-- **soundness of path traversal**: what `traverse` finds is a declaration whose path is the
    starting point's path followed by the components walked -/
theorem traverse_sound (m : SymMgr) (wf : WFTable m) :
    ∀ (P : List String) (parent : Option Nat) (r : Nat), m.traverse parent P = some r →
      r < m.decls.length ∧ (m.decls.getD r default).ctx = pathOf m parent ++ P := by
  intro P
  induction P with
  | nil => intro parent r h; simp [SymMgr.traverse] at h
  | cons h t ih =>
    intro parent r hr
    cases t with
    | nil =>
      rw [traverse_single] at hr
      exact wf.child_sound parent h r hr
    | cons h2 t2 =>
      rw [traverse_cons_cons] at hr
      cases hc : assocGet (m.childrenOf parent) h with
      | none => rw [hc] at hr; cases hr
      | some c =>
        rw [hc] at hr
        obtain ⟨_, hctx⟩ := wf.child_sound parent h c hc
        obtain ⟨hlt, hr2⟩ := ih (some c) r hr
        refine ⟨hlt, ?_⟩
        rw [hr2]
        simp only [pathOf, hctx, List.append_assoc, List.singleton_append]

theorem ctx_nonempty (m : SymMgr) (wf : WFTable m) (i : Nat) (hi : i < m.decls.length) : (m.decls.getD i default).ctx ≠ [] := by
  obtain ⟨parent, h, _, hctx, _⟩ := wf.decl_reachable i hi
  rw [hctx]; simp

/-- **completeness**: every declaration is found by walking its own path from the root -/
theorem traverse_complete (m : SymMgr) (wf : WFTable m) :
    ∀ i, i < m.decls.length → m.traverse none (m.decls.getD i default).ctx = some i := by
  intro i
  induction i using Nat.strongRecOn with
  | _ i ih =>
    intro hi
    obtain ⟨parent, h, hpar, hctx, hchild⟩ := wf.decl_reachable i hi
    rcases hpar with hpar | ⟨p, hpar, hp⟩
    · subst hpar
      rw [hctx]
      simp only [pathOf, List.nil_append, traverse_single]
      exact hchild
    · subst hpar
      have hpl : p < m.decls.length := by omega
      have ihp := ih p hp hpl
      rw [hctx]
      simp only [pathOf]
      rw [traverse_append m _ [h] none (ctx_nonempty m wf p hpl) (by simp), ihp]
      simp only [Option.bind_some, traverse_single]
      exact hchild

/-- two declarations with the same path are the same declaration -/
theorem path_unique (m : SymMgr) (wf : WFTable m) (i j : Nat) (hi : i < m.decls.length) (hj : j < m.decls.length)
    (h : (m.decls.getD i default).ctx = (m.decls.getD j default).ctx) : i = j := by
  have h1 := traverse_complete m wf i hi
  have h2 := traverse_complete m wf j hj
  rw [h] at h1
  rw [h1] at h2
  injection h2

/-- a context prefix that denotes the root or an existing declaration -/
def Resolves (m : SymMgr) (Q : List String) : Prop :=
  Q = [] ∨ ∃ p, p < m.decls.length ∧ (m.decls.getD p default).ctx = Q

theorem parent_of_resolved (m : SymMgr) (wf : WFTable m) (Q : List String) (h : Resolves m Q) :
    ∃ parent, (m.getParent none Q).getD none = parent ∧ pathOf m parent = Q ∧
      (parent = none ∧ Q = [] ∨ ∃ p, parent = some p ∧ p < m.decls.length ∧ Q ≠ [] ∧ m.traverse none Q = some p) := by
  rcases h with h | ⟨p, hp, hctx⟩
  · subst h
    exact ⟨none, by simp [SymMgr.getParent], rfl, Or.inl ⟨rfl, rfl⟩⟩
  · have hne : Q ≠ [] := by rw [← hctx]; exact ctx_nonempty m wf p hp
    have ht : m.traverse none Q = some p := by rw [← hctx]; exact traverse_complete m wf p hp
    refine ⟨some p, ?_, hctx, Or.inr ⟨p, rfl, hp, hne, ht⟩⟩
    rw [getParent_eq_traverse m Q none hne, ht]
    rfl

/-- **The table refines the scope rule.** For a context whose first `level` components denote the
    root or a declaration, a reference of that level with path `path` denotes exactly the
    declaration whose full dotted path is those components followed by `path`. -/
theorem lookup_refines_scope (m : SymMgr) (wf : WFTable m) (ctx : List String) (level : Nat) (path : List String) (r : Nat)
    (hl : level ≤ ctx.length) (hres : Resolves m (ctx.take level)) (hp : path ≠ []) :
    m.tryGetByName ctx level path = some r ↔
      r < m.decls.length ∧ (m.decls.getD r default).ctx = ctx.take level ++ path := by
  obtain ⟨parent, hpar, hpath, hcase⟩ := parent_of_resolved m wf _ hres
  have hlv : ¬ level > ctx.length := by omega
  unfold SymMgr.tryGetByName
  simp only [hlv, if_false, hpar]
  constructor
  · intro h
    have := traverse_sound m wf path parent r h
    rw [hpath] at this
    exact this
  · rintro ⟨hr, hctx⟩
    have hc := traverse_complete m wf r hr
    rw [hctx] at hc
    rcases hcase with ⟨hp0, hq0⟩ | ⟨p, hp1, _, hq1, ht⟩
    · rw [hp0]; rw [hq0] at hc; simpa using hc
    · rw [hp1]
      rw [traverse_append m _ path none hq1 hp, ht] at hc
      simpa using hc

/-- a reference that names no declared path denotes nothing -/
theorem lookup_unknown (m : SymMgr) (wf : WFTable m) (ctx : List String) (level : Nat) (path : List String)
    (hl : level ≤ ctx.length) (hres : Resolves m (ctx.take level)) (hp : path ≠ [])
    (hno : ∀ r, r < m.decls.length → (m.decls.getD r default).ctx ≠ ctx.take level ++ path) :
    m.tryGetByName ctx level path = none := by
  cases h : m.tryGetByName ctx level path with
  | none => rfl
  | some r =>
    have := (lookup_refines_scope m wf ctx level path r hl hres hp).mp h
    exact absurd this.2 (hno r this.1)

/-! ## `declare` keeps the table faithful -/

theorem assocGet_append_single (l : List (String × Nat)) (name h : String) (idx : Nat) :
    assocGet (l ++ [(name, idx)]) h =
      match assocGet l h with
      | some c => some c
      | none => if name == h then some idx else none := by
  unfold assocGet
  rw [List.find?_append]
  cases hf : l.find? (fun x => x.1 == h) with
  | some x => simp
  | none =>
    simp only [Option.none_or, Option.map_none, List.find?_cons, List.find?_nil]
    cases hn : (name == h) <;> simp

/-- the result of a successful `declare`, spelled out -/
theorem declare_ok_form (m m' : SymMgr) (ctx : List String) (name : String) (level : Nat) (kind : DeclKind) (idx : Nat)
    (h : m.declare ctx name level kind = .ok (idx, m')) :
    level ≤ ctx.length ∧ idx = m.decls.length ∧
    assocGet (m.childrenOf ((m.getParent none (ctx.take level)).getD none)) name = none ∧
    ∃ decl : SymDecl, decl.ctx = ctx.take level ++ [name] ∧ decl.children = [] ∧
      m' = (match (m.getParent none (ctx.take level)).getD none with
            | some p => { m with decls := (m.decls.modify p fun d => { d with children := d.children ++ [(name, idx)] }) ++ [decl] }
            | none => { m with globals := m.globals ++ [(name, idx)], decls := m.decls ++ [decl] }) := by
  unfold SymMgr.declare at h
  split at h
  · cases h
  · rename_i hl
    simp only at h
    split at h
    · cases h
    · rename_i hdup
      injection h with h
      injection h with h1 h2
      refine ⟨by omega, h1.symm, ?_, ?_⟩
      · cases hx : assocGet (m.childrenOf ((m.getParent none (List.take level ctx)).getD none)) name with
        | none => rfl
        | some c => rw [hx] at hdup; simp at hdup
      · refine ⟨⟨(match (m.getParent none (List.take level ctx)).getD none with
            | some p => (m.decls.getD p default).name ++ "." ++ name
            | none => name), kind, level, List.take level ctx ++ [name], []⟩, rfl, rfl, ?_⟩
        rw [← h2, ← h1]
        cases (m.getParent none (List.take level ctx)).getD none <;> rfl

theorem getD_append_single_lt {α} (l : List α) (a d : α) (i : Nat) (h : i < l.length) : (l ++ [a]).getD i d = l.getD i d := by
  simp [List.getD_eq_getElem?_getD, List.getElem?_append_left h]

theorem getD_append_single_eq {α} (l : List α) (a d : α) : (l ++ [a]).getD l.length d = a := by
  simp [List.getD_eq_getElem?_getD]

theorem getD_append_single_eq' {α} (l : List α) (a d : α) (n : Nat) (h : l.length = n) : (l ++ [a]).getD n d = a := by
  subst h; exact getD_append_single_eq l a d

theorem getD_append_single_gt {α} (l : List α) (a d : α) (i : Nat) (h : l.length < i) : (l ++ [a]).getD i d = d := by
  have : (l ++ [a])[i]? = none := List.getElem?_eq_none (by simp; omega)
  simp [List.getD_eq_getElem?_getD, this]

theorem getD_modify_ne {α} (l : List α) (f : α → α) (p i : Nat) (d : α) (h : p ≠ i) : (l.modify p f).getD i d = l.getD i d := by
  simp [List.getD_eq_getElem?_getD, List.getElem?_modify_ne f l h]

theorem getD_modify_eq {α} (l : List α) (f : α → α) (p : Nat) (d : α) (h : p < l.length) : (l.modify p f).getD p d = f (l.getD p d) := by
  simp [List.getD_eq_getElem?_getD, List.getElem?_modify_eq, List.getElem?_eq_getElem h]

/-- what a successful declaration does to the table, abstractly -/
structure Extends (m m' : SymMgr) (parent : Option Nat) (name : String) (Q : List String) : Prop where
  len : m'.decls.length = m.decls.length + 1
  old_ctx : ∀ i, i < m.decls.length → (m'.decls.getD i default).ctx = (m.decls.getD i default).ctx
  new_ctx : (m'.decls.getD m.decls.length default).ctx = Q ++ [name]
  kids_parent : m'.childrenOf parent = m.childrenOf parent ++ [(name, m.decls.length)]
  kids_new : m'.childrenOf (some m.decls.length) = []
  kids_other : ∀ par, par ≠ parent → par ≠ some m.decls.length → m'.childrenOf par = m.childrenOf par

theorem childrenOf_out_of_range (m : SymMgr) (q : Nat) (h : m.decls.length ≤ q) : m.childrenOf (some q) = [] := by
  simp only [SymMgr.childrenOf]
  have : m.decls[q]? = none := List.getElem?_eq_none h
  simp [List.getD_eq_getElem?_getD, this]
  rfl

theorem extends_wf (m m' : SymMgr) (wf : WFTable m) (parent : Option Nat) (name : String) (Q : List String)
    (hpar : parent = none ∨ ∃ p, parent = some p ∧ p < m.decls.length)
    (hpath : pathOf m parent = Q) (hfresh : assocGet (m.childrenOf parent) name = none)
    (ex : Extends m m' parent name Q) : WFTable m' := by
  have pathOf_old : ∀ par, (par = none ∨ ∃ q, par = some q ∧ q < m.decls.length) → pathOf m' par = pathOf m par := by
    intro par h
    rcases h with h | ⟨q, h, hq⟩
    · subst h; rfl
    · subst h; exact ex.old_ctx q hq
  have valid_of_lookup : ∀ par h c, assocGet (m.childrenOf par) h = some c → (par = none ∨ ∃ q, par = some q ∧ q < m.decls.length) := by
    intro par h c hc
    cases par with
    | none => exact Or.inl rfl
    | some q =>
      by_cases hq : q < m.decls.length
      · exact Or.inr ⟨q, rfl, hq⟩
      · rw [childrenOf_out_of_range m q (by omega)] at hc
        simp [assocGet] at hc
  constructor
  · -- child_sound
    intro par h c hc
    by_cases hp : par = parent
    · subst hp
      rw [ex.kids_parent, assocGet_append_single] at hc
      cases hold : assocGet (m.childrenOf par) h with
      | some c' =>
        rw [hold] at hc
        injection hc with hc; subst hc
        obtain ⟨hlt, hctx⟩ := wf.child_sound par h c' hold
        refine ⟨by rw [ex.len]; omega, ?_⟩
        rw [ex.old_ctx c' hlt, hctx, pathOf_old par hpar]
      | none =>
        rw [hold] at hc
        simp only at hc
        split at hc
        · rename_i hn
          injection hc with hc; subst hc
          have : name = h := by simpa using hn
          subst this
          refine ⟨by rw [ex.len]; omega, ?_⟩
          rw [ex.new_ctx, pathOf_old par hpar, hpath]
        · cases hc
    · by_cases hn : par = some m.decls.length
      · subst hn
        rw [ex.kids_new] at hc
        simp [assocGet] at hc
      · rw [ex.kids_other par hp hn] at hc
        obtain ⟨hlt, hctx⟩ := wf.child_sound par h c hc
        refine ⟨by rw [ex.len]; omega, ?_⟩
        rw [ex.old_ctx c hlt, hctx, pathOf_old par (valid_of_lookup par h c hc)]
  · -- decl_reachable
    intro i hi
    rw [ex.len] at hi
    by_cases hlt : i < m.decls.length
    · obtain ⟨par, h, hpar2, hctx, hchild⟩ := wf.decl_reachable i hlt
      refine ⟨par, h, hpar2, ?_, ?_⟩
      · have hv : par = none ∨ ∃ q, par = some q ∧ q < m.decls.length := by
          rcases hpar2 with hh | ⟨q, hh, hq⟩
          · exact Or.inl hh
          · exact Or.inr ⟨q, hh, by omega⟩
        rw [ex.old_ctx i hlt, hctx, pathOf_old par hv]
      · by_cases hp : par = parent
        · subst hp
          rw [ex.kids_parent, assocGet_append_single, hchild]
        · have hn : par ≠ some m.decls.length := by
            intro he
            subst he
            rw [childrenOf_out_of_range m _ (Nat.le_refl _)] at hchild
            simp [assocGet] at hchild
          rw [ex.kids_other par hp hn]; exact hchild
    · have hi2 : i = m.decls.length := by omega
      subst hi2
      refine ⟨parent, name, hpar, ?_, ?_⟩
      · rw [ex.new_ctx, pathOf_old parent hpar, hpath]
      · rw [ex.kids_parent, assocGet_append_single, hfresh]
        simp

theorem declare_extends (m m' : SymMgr) (wf : WFTable m) (ctx : List String) (name : String) (level : Nat) (kind : DeclKind) (idx : Nat)
    (hres : Resolves m (ctx.take level)) (h : m.declare ctx name level kind = .ok (idx, m')) :
    ∃ parent, (parent = none ∨ ∃ p, parent = some p ∧ p < m.decls.length) ∧ pathOf m parent = ctx.take level ∧
      assocGet (m.childrenOf parent) name = none ∧ Extends m m' parent name (ctx.take level) ∧ idx = m.decls.length := by
  obtain ⟨hl, hidx, hfresh, decl, hdctx, hdkids, hm'⟩ := declare_ok_form m m' ctx name level kind idx h
  obtain ⟨parent, hpar, hpath, hcase⟩ := parent_of_resolved m wf _ hres
  rw [hpar] at hfresh hm'
  subst hidx
  refine ⟨parent, ?_, hpath, hfresh, ?_, rfl⟩
  · rcases hcase with ⟨h0, _⟩ | ⟨p, h1, hp, _, _⟩
    · exact Or.inl h0
    · exact Or.inr ⟨p, h1, hp⟩
  · rcases hcase with ⟨h0, _⟩ | ⟨p, h1, hp, _, _⟩
    · subst h0
      simp only at hm'
      subst hm'
      refine ⟨by simp, ?_, ?_, ?_, ?_, ?_⟩
      · intro i hi; simp only; rw [getD_append_single_lt _ _ _ _ hi]
      · simp only; rw [getD_append_single_eq, hdctx]
      · rfl
      · simp only [SymMgr.childrenOf]; rw [getD_append_single_eq, hdkids]
      · intro par hp1 hp2
        cases par with
        | none => exact absurd rfl hp1
        | some q =>
          simp only [SymMgr.childrenOf]
          by_cases hq : q < m.decls.length
          · rw [getD_append_single_lt _ _ _ _ hq]
          · have hq2 : m.decls.length < q := by
              have : q ≠ m.decls.length := fun he => hp2 (by rw [he])
              omega
            rw [getD_append_single_gt _ _ _ _ hq2]
            have : m.decls[q]? = none := List.getElem?_eq_none (by omega)
            simp [List.getD_eq_getElem?_getD, this]
    · subst h1
      simp only at hm'
      subst hm'
      have hlm : (m.decls.modify p fun d => { d with children := d.children ++ [(name, m.decls.length)] }).length = m.decls.length := List.length_modify _ _ _
      refine ⟨by simp, ?_, ?_, ?_, ?_, ?_⟩
      · intro i hi
        simp only
        rw [getD_append_single_lt _ _ _ _ (by rw [hlm]; exact hi)]
        by_cases hip : p = i
        · subst hip; rw [getD_modify_eq _ _ _ _ hp]
        · rw [getD_modify_ne _ _ _ _ _ hip]
      · simp only
        rw [getD_append_single_eq' _ _ _ _ hlm, hdctx]
      · simp only [SymMgr.childrenOf]
        rw [getD_append_single_lt _ _ _ _ (by rw [hlm]; exact hp), getD_modify_eq _ _ _ _ hp]
      · simp only [SymMgr.childrenOf]
        rw [getD_append_single_eq' _ _ _ _ hlm, hdkids]
      · intro par hp1 hp2
        cases par with
        | none => rfl
        | some q =>
          simp only [SymMgr.childrenOf]
          have hqp : p ≠ q := fun he => hp1 (by rw [he])
          by_cases hq : q < m.decls.length
          · rw [getD_append_single_lt _ _ _ _ (by rw [hlm]; exact hq), getD_modify_ne _ _ _ _ _ hqp]
          · have hq2 : m.decls.length < q := by
              have : q ≠ m.decls.length := fun he => hp2 (by rw [he])
              omega
            rw [getD_append_single_gt _ _ _ _ (by rw [hlm]; exact hq2)]
            have : m.decls[q]? = none := List.getElem?_eq_none (by omega)
            simp [List.getD_eq_getElem?_getD, this]

/-- **a successful declaration keeps the table faithful** and appends a declaration whose
    path is the enclosing path followed by the new name -/
theorem declare_preserves (m m' : SymMgr) (wf : WFTable m) (ctx : List String) (name : String) (level : Nat) (kind : DeclKind) (idx : Nat)
    (hres : Resolves m (ctx.take level)) (h : m.declare ctx name level kind = .ok (idx, m')) :
    WFTable m' ∧ idx = m.decls.length ∧ m'.decls.length = m.decls.length + 1 ∧
      (m'.decls.getD idx default).ctx = ctx.take level ++ [name] ∧
      ∀ i, i < m.decls.length → (m'.decls.getD i default).ctx = (m.decls.getD i default).ctx := by
  obtain ⟨parent, hpar, hpath, hfresh, ex, hidx⟩ := declare_extends m m' wf ctx name level kind idx hres h
  subst hidx
  exact ⟨extends_wf m m' wf parent name _ hpar hpath hfresh ex, rfl, ex.len, ex.new_ctx, ex.old_ctx⟩

theorem new_wf (reportAs : String) : WFTable (SymMgr.new reportAs) := by
  constructor
  · intro parent h c hc
    cases parent with
    | none => simp [SymMgr.new, SymMgr.childrenOf, assocGet] at hc
    | some q =>
      rw [childrenOf_out_of_range _ q (by simp [SymMgr.new])] at hc
      simp [assocGet] at hc
  · intro i hi; simp [SymMgr.new] at hi

/-! ## contexts produced by declarations always resolve -/

/-- every non-empty prefix of a declared path is a declared path (the ancestors exist) -/
theorem ancestor_exists (m : SymMgr) (wf : WFTable m) :
    ∀ i, i < m.decls.length → ∀ k, 0 < k → k ≤ (m.decls.getD i default).ctx.length →
      ∃ j, j < m.decls.length ∧ (m.decls.getD j default).ctx = (m.decls.getD i default).ctx.take k := by
  intro i
  induction i using Nat.strongRecOn with
  | _ i ih =>
    intro hi k hk hkl
    obtain ⟨parent, h, hpar, hctx, _⟩ := wf.decl_reachable i hi
    by_cases hfull : k = (m.decls.getD i default).ctx.length
    · exact ⟨i, hi, by rw [hfull, List.take_length]⟩
    · rw [hctx] at hkl hfull ⊢
      simp only [List.length_append, List.length_singleton] at hkl hfull
      have hk2 : k ≤ (pathOf m parent).length := by omega
      rcases hpar with hp | ⟨p, hp, hpi⟩
      · subst hp; simp [pathOf] at hk2; omega
      · subst hp
        simp only [pathOf] at hk2 ⊢
        rw [List.take_append_of_le_length hk2]
        exact ih p hpi (by omega) k hk hk2

/-- the prefixes of the root context and of any declared path resolve -/
theorem resolves_take (m : SymMgr) (wf : WFTable m) (C : List String)
    (hC : C = [] ∨ ∃ i, i < m.decls.length ∧ (m.decls.getD i default).ctx = C) (level : Nat) : Resolves m (C.take level) := by
  rcases hC with hC | ⟨i, hi, hctx⟩
  · subst hC; left; simp
  · by_cases h0 : level = 0
    · subst h0; left; simp
    · by_cases hl : level ≤ C.length
      · right
        rw [← hctx] at hl ⊢
        exact ancestor_exists m wf i hi level (by omega) hl
      · right
        refine ⟨i, hi, ?_⟩
        rw [hctx, List.take_of_length_le (by omega)]

/-- tables as the assembler builds them: from the empty table by successful declarations, each
    made in the root context or in the context left by an earlier declaration -/
inductive Built : SymMgr → Prop
  | new (reportAs : String) : Built (SymMgr.new reportAs)
  | declare {m m' : SymMgr} {ctx : List String} {name : String} {level : Nat} {kind : DeclKind} {idx : Nat} :
      Built m → (ctx = [] ∨ ∃ i, i < m.decls.length ∧ (m.decls.getD i default).ctx = ctx) →
      m.declare ctx name level kind = .ok (idx, m') → Built m'

theorem built_wf {m : SymMgr} (h : Built m) : WFTable m := by
  induction h with
  | new r => exact new_wf r
  | declare _ hctx hd ih => exact (declare_preserves _ _ ih _ _ _ _ _ (resolves_take _ ih _ hctx _) hd).1

end Casm
