import Casm.Model.Assemble
import Casm.Proofs.StableId
import Casm.Proofs.FrontEndLemmas
/-!
# Casm.Proofs.KindInv — the front end never lets a constant and a label share a symbol slot

Every symbol node that carries an item reference points at a declaration of its own kind (label
nodes at label declarations, constant nodes at constant declarations).  Declarations are only ever
appended and keep their kind, so the invariant survives every declaration pass, every `#if` splice
(which only adds reference-free nodes) and `define_remaining`.  Two nodes of different kind can
therefore not share a slot: `NoClash`.
-/
namespace Casm

def kindOfSym : SymKind → DeclKind
  | .label => .label
  | .constant _ => .constant

/-- declarations are only appended, and keep their kind -/
def KindExt (m m' : SymMgr) : Prop :=
  m.decls.length ≤ m'.decls.length ∧
  ∀ i, i < m.decls.length → (m'.decls.getD i default).kind = (m.decls.getD i default).kind

theorem KindExt.refl (m : SymMgr) : KindExt m m := ⟨Nat.le_refl _, fun _ _ => rfl⟩

theorem KindExt.trans {a b c : SymMgr} (h1 : KindExt a b) (h2 : KindExt b c) : KindExt a c :=
  ⟨Nat.le_trans h1.1 h2.1, fun i hi => by rw [h2.2 i (Nat.lt_of_lt_of_le hi h1.1), h1.2 i hi]⟩

theorem declare_kind (m m' : SymMgr) (ctx : List String) (name : String) (level : Nat) (kind : DeclKind) (idx : Nat)
    (h : m.declare ctx name level kind = .ok (idx, m')) :
    idx = m.decls.length ∧ m'.decls.length = idx + 1 ∧ (m'.decls.getD idx default).kind = kind ∧ KindExt m m' := by
  unfold SymMgr.declare at h
  split at h
  · cases h
  · simp only at h
    split at h
    · cases h
    · injection h with h; injection h with h1 h2
      subst h1
      cases hp : (m.getParent none (ctx.take level)).getD none with
      | none =>
        rw [hp] at h2; simp only at h2; subst h2
        refine ⟨rfl, by simp, by simp [List.getD_eq_getElem?_getD], by simp, ?_⟩
        intro i hi
        simp [List.getD_eq_getElem?_getD, List.getElem?_append_left hi]
      | some p =>
        rw [hp] at h2; simp only at h2; subst h2
        refine ⟨rfl, by simp, ?_, by simp, ?_⟩
        · simp [List.getD_eq_getElem?_getD, List.getElem?_append_right]
        · intro i hi
          have hi' : i < (m.decls.modify p fun d => { d with children := d.children ++ [(name, m.decls.length)] }).length := by simpa using hi
          simp only [List.getD_eq_getElem?_getD, List.getElem?_append_left hi', List.getElem?_modify]
          by_cases hpi : p = i
          · subst hpi
            simp only [if_true]
            cases hg : m.decls[p]? <;> simp
          · simp [hpi]

/-- a symbol node with a reference points at a declaration of its own kind -/
def KN (m : SymMgr) : AstNode → Prop
  | .symbol _ _ k _ (some r) => r < m.decls.length ∧ (m.decls.getD r default).kind = kindOfSym k
  | .fn _ _ _ (some r) => r < m.decls.length ∧ (m.decls.getD r default).kind = .function
  | _ => True

def KInv (m : SymMgr) (nodes : List AstNode) : Prop := ∀ n ∈ nodes, KN m n

theorem KN_mono {m m' : SymMgr} (h : KindExt m m') (n : AstNode) (hn : KN m n) : KN m' n := by
  unfold KN at hn ⊢
  split
  · rename_i l nm k ne r
    simp only at hn
    exact ⟨Nat.lt_of_lt_of_le hn.1 h.1, by rw [h.2 r hn.1]; exact hn.2⟩
  · rename_i nm ps body r
    simp only at hn
    exact ⟨Nat.lt_of_lt_of_le hn.1 h.1, by rw [h.2 r hn.1]; exact hn.2⟩
  · trivial

theorem KN_fresh (m : SymMgr) (n : AstNode) : KN m n.fresh := by
  cases n <;> simp [AstNode.fresh, KN]

theorem KInv_noClash (m : SymMgr) (nodes : List AstNode) (h : KInv m nodes) : NoClash nodes := by
  intro a ha b hb hc
  unfold Clash at hc
  split at hc
  · subst hc
    have h1 := h _ ha
    have h2 := h _ hb
    simp only [KN, kindOfSym] at h1 h2
    rw [h1.2] at h2
    cases h2.2
  · exact hc

/-! ## the declaration passes -/

theorem mapNodesE_nodes {σ} (f : σ → AstNode → Except String (σ × AstNode)) (I : σ → Prop) (Q : σ → AstNode → Prop)
    (hstep : ∀ s n s' n', I s → Q s n → f s n = .ok (s', n') → I s' ∧ Q s' n' ∧ ∀ m, Q s m → Q s' m) :
    ∀ (nodes : List AstNode) (s : σ) (acc : List AstNode) (s' : σ) (out : List AstNode),
      I s → (∀ n ∈ nodes, Q s n) → (∀ n ∈ acc, Q s n) → mapNodesE f s nodes acc = .ok (s', out) →
      I s' ∧ ∀ n ∈ out, Q s' n := by
  intro nodes
  induction nodes with
  | nil =>
    intro s acc s' out hi _ ha h
    simp only [mapNodesE] at h
    injection h with h; injection h with h1 h2
    subst h1; subst h2
    exact ⟨hi, fun n hn => ha n (List.mem_reverse.mp hn)⟩
  | cons n rest ih =>
    intro s acc s' out hi hn ha h
    simp only [mapNodesE] at h
    cases hf : f s n with
    | error e => rw [hf] at h; cases h
    | ok x =>
      obtain ⟨s1, n1⟩ := x
      rw [hf] at h
      obtain ⟨hi1, hq1, hmono⟩ := hstep s n s1 n1 hi (hn n (List.mem_cons_self ..)) hf
      refine ih s1 _ s' out hi1 (fun m hm => hmono m (hn m (List.mem_cons_of_mem _ hm))) ?_ h
      intro m hm
      cases hm with
      | head => exact hq1
      | tail _ hm => exact hmono m (ha m hm)

theorem collectSymbols_kinv (d d' : Decls) (nodes nodes' : List AstNode) (hk : KInv d.symbols nodes)
    (h : collectSymbols d nodes = .ok (d', nodes')) : KindExt d.symbols d'.symbols ∧ KInv d'.symbols nodes' := by
  unfold collectSymbols at h
  split at h
  · cases h
  · rename_i dd ctx ns hm
    injection h with h; injection h with h1 h2
    subst h1; subst h2
    refine mapNodesE_nodes _ (fun (s : Decls × List String) => KindExt d.symbols s.1.symbols)
      (fun s n => KN s.1.symbols n) ?_ nodes (d, []) [] (dd, ctx) ns (KindExt.refl _) hk (fun _ hn => by cases hn) hm
    intro s n s' n' hi hq hf
    split at hf
    · rename_i level name kind ne ref
      cases ref with
      | some r =>
        simp only at hf
        injection hf with hf; injection hf with h1 h2
        subst h1; subst h2
        exact ⟨hi, hq, fun _ h => h⟩
      | none =>
        simp only at hf
        split at hf
        · cases hf
        · rename_i r m hd
          injection hf with hf; injection hf with h1 h2
          subst h1; subst h2
          obtain ⟨hr, hlen, hkind, hext⟩ := declare_kind _ _ _ _ _ _ _ hd
          refine ⟨hi.trans hext, ?_, fun m hm => KN_mono hext m hm⟩
          simp only [KN]
          refine ⟨by omega, ?_⟩
          rw [hkind]; cases kind <;> rfl
    · injection hf with hf; injection hf with h1 h2
      subst h1; subst h2
      exact ⟨hi, hq, fun _ h => h⟩

theorem collectFunctions_kinv (d d' : Decls) (nodes nodes' : List AstNode) (hk : KInv d.symbols nodes)
    (h : collectFunctions d nodes = .ok (d', nodes')) : KindExt d.symbols d'.symbols ∧ KInv d'.symbols nodes' := by
  unfold collectFunctions at h
  refine mapNodesE_nodes _ (fun (s : Decls) => KindExt d.symbols s.symbols)
      (fun s n => KN s.symbols n) ?_ nodes d [] d' nodes' (KindExt.refl _) hk (fun _ hn => by cases hn) h
  intro s n s' n' hi hq hf
  split at hf
  · split at hf
    · cases hf
    · rename_i r m hd
      injection hf with hf; injection hf with h1 h2
      subst h1; subst h2
      obtain ⟨hr, hlen, hkind, hext⟩ := declare_kind _ _ _ _ _ _ _ hd
      exact ⟨hi.trans hext, ⟨by show r < m.decls.length; omega, hkind⟩, fun m hm => KN_mono hext m hm⟩
  · injection hf with hf; injection hf with h1 h2
    subst h1; subst h2
    exact ⟨hi, hq, fun _ h => h⟩

theorem collectBankdefs_kinv (d d' : Decls) (nodes nodes' : List AstNode) (hk : KInv d.symbols nodes)
    (h : collectBankdefs d nodes = .ok (d', nodes')) : KInv d'.symbols nodes' := by
  unfold collectBankdefs at h
  refine (mapNodesE_nodes _ (fun (s : Decls) => s.symbols = d.symbols)
      (fun _ n => KN d.symbols n) ?_ nodes d [] d' nodes' rfl hk (fun _ hn => by cases hn) h).elim ?_
  · intro s n s' n' hi hq hf
    split at hf
    · split at hf
      · cases hf
      · injection hf with hf; injection hf with h1 h2
        subst h1; subst h2
        exact ⟨hi, trivial, fun _ h => h⟩
    · injection hf with hf; injection hf with h1 h2
      subst h1; subst h2
      exact ⟨hi, hq, fun _ h => h⟩
  · intro hs hq; unfold KInv; rw [hs]; exact hq

theorem collectBanks_kinv (d d' : Decls) (nodes nodes' : List AstNode) (hk : KInv d.symbols nodes)
    (h : collectBanks d nodes = .ok (d', nodes')) : KInv d'.symbols nodes' := by
  unfold collectBanks at h
  refine (mapNodesE_nodes _ (fun (s : Decls) => s.symbols = d.symbols)
      (fun _ n => KN d.symbols n) ?_ nodes d [] d' nodes' rfl hk (fun _ hn => by cases hn) h).elim ?_
  · intro s n s' n' hi hq hf
    split at hf
    · split at hf
      · cases hf
      · injection hf with hf; injection hf with h1 h2
        subst h1; subst h2
        exact ⟨hi, trivial, fun _ h => h⟩
    · injection hf with hf; injection hf with h1 h2
      subst h1; subst h2
      exact ⟨hi, hq, fun _ h => h⟩
  · intro hs hq; unfold KInv; rw [hs]; exact hq

theorem collectRuledefs_kinv (d d' : Decls) (nodes nodes' : List AstNode) (hk : KInv d.symbols nodes)
    (h : collectRuledefs d nodes = .ok (d', nodes')) : KInv d'.symbols nodes' := by
  unfold collectRuledefs at h
  refine (mapNodesE_nodes _ (fun (s : Decls) => s.symbols = d.symbols)
      (fun _ n => KN d.symbols n) ?_ nodes d [] d' nodes' rfl hk (fun _ hn => by cases hn) h).elim ?_
  · intro s n s' n' hi hq hf
    split at hf
    · simp only at hf
      split at hf
      · cases hf
      · injection hf with hf; injection hf with h1 h2
        subst h1; subst h2
        exact ⟨hi, trivial, fun _ h => h⟩
    · injection hf with hf; injection hf with h1 h2
      subst h1; subst h2
      exact ⟨hi, hq, fun _ h => h⟩
  · intro hs hq; unfold KInv; rw [hs]; exact hq

theorem collectAll_kinv (d d' : Decls) (nodes nodes' : List AstNode) (hk : KInv d.symbols nodes)
    (h : collectAll d nodes = .ok (d', nodes')) : KInv d'.symbols nodes' := by
  unfold collectAll at h
  simp only [bind, Except.bind] at h
  cases h1 : collectBankdefs d nodes with
  | error e => rw [h1] at h; cases h
  | ok x1 =>
    obtain ⟨d1, n1⟩ := x1
    rw [h1] at h
    simp only at h
    cases h2 : collectBanks d1 n1 with
    | error e => rw [h2] at h; cases h
    | ok x2 =>
      obtain ⟨d2, n2⟩ := x2
      rw [h2] at h
      simp only at h
      cases h3 : collectRuledefs d2 n2 with
      | error e => rw [h3] at h; cases h
      | ok x3 =>
        obtain ⟨d3, n3⟩ := x3
        rw [h3] at h
        simp only at h
        cases h4 : collectSymbols d3 n3 with
        | error e => rw [h4] at h; cases h
        | ok x4 =>
          obtain ⟨d4, n4⟩ := x4
          rw [h4] at h
          simp only at h
          have k1 := collectBankdefs_kinv d d1 nodes n1 hk h1
          have k2 := collectBanks_kinv d1 d2 n1 n2 k1 h2
          have k3 := collectRuledefs_kinv d2 d3 n2 n3 k2 h3
          have k4 := (collectSymbols_kinv d3 d4 n3 n4 k3 h4).2
          exact (collectFunctions_kinv d4 d' n4 nodes' k4 h).2

/-! ## `#if` splicing only adds reference-free nodes -/

theorem resolveIfs_kinv (m : SymMgr) (d : Decls) (defs : Defs) (nodes out : List AstNode) (k : Nat)
    (hk : KInv m nodes) (h : resolveIfs d defs nodes = .ok (out, k)) : KInv m out := by
  unfold resolveIfs at h
  have key : ∀ (l : List AstNode) (acc : Except String (List AstNode × Nat)) (out : List AstNode) (k : Nat),
      (∀ n ∈ l, KN m n) → (∀ o c, acc = .ok (o, c) → KInv m o) →
      l.foldl (fun acc n =>
        match acc with
        | .error e => .error e
        | .ok (out, count) =>
          match n with
          | .ifDir cond t f =>
            match evalSimple d defs cond with
            | .error m => .error m
            | .ok (.bool true) => .ok (t.map AstNode.fresh ++ out, count + 1)
            | .ok (.bool false) => .ok ((f.getD []).map AstNode.fresh ++ out, count + 1)
            | .ok _ => .ok (n :: out, count)
          | _ => .ok (n :: out, count)) acc = .ok (out, k) → KInv m out := by
    intro l
    induction l with
    | nil => intro acc out k _ ha h; exact ha out k h
    | cons n rest ih =>
      intro acc out k hl ha h
      rw [List.foldl_cons] at h
      refine ih _ out k (fun x hx => hl x (List.mem_cons_of_mem _ hx)) ?_ h
      intro o c ho
      have hn := hl n (List.mem_cons_self ..)
      cases acc with
      | error e => cases ho
      | ok x =>
        obtain ⟨o0, c0⟩ := x
        have h0 := ha o0 c0 rfl
        have hcons : KInv m (n :: o0) := by
          intro x hx
          cases hx with
          | head => exact hn
          | tail _ hx => exact h0 x hx
        have hfresh : ∀ (t : List AstNode), KInv m (t.map AstNode.fresh ++ o0) := by
          intro t x hx
          rcases List.mem_append.mp hx with hx | hx
          · obtain ⟨y, _, rfl⟩ := List.mem_map.mp hx
            exact KN_fresh m y
          · exact h0 x hx
        simp only at ho
        split at ho
        · split at ho
          · cases ho
          · injection ho with ho; injection ho with h1 _; rw [← h1]; exact hfresh _
          · injection ho with ho; injection ho with h1 _; rw [← h1]; exact hfresh _
          · injection ho with ho; injection ho with h1 _; rw [← h1]; exact hcons
        · injection ho with ho; injection ho with h1 _; rw [← h1]; exact hcons
  exact key nodes.reverse (.ok ([], 0)) out k (fun n hn => hk n (List.mem_reverse.mp hn))
    (fun o c ho => by injection ho with ho; injection ho with h1 _; rw [← h1]; intro x hx; cases hx) h

theorem declLoop_kinv (opts : Opts) :
    ∀ (fuel : Nat) (d : Decls) (defs : Defs) (nodes : List AstNode) (prev : Nat) (d' : Decls) (defs' : Defs) (nodes' : List AstNode),
      KInv d.symbols nodes → declLoop opts fuel d defs nodes prev = .ok (d', defs', nodes') → KInv d'.symbols nodes' := by
  intro fuel
  induction fuel with
  | zero => intro d defs nodes prev d' defs' nodes' _ h; simp [declLoop] at h
  | succ f ih =>
    intro d defs nodes prev d' defs' nodes' hb h
    simp only [declLoop] at h
    cases hc : collectAll d nodes with
    | error e => rw [hc] at h; cases h
    | ok x =>
      obtain ⟨d1, n1⟩ := x
      rw [hc] at h
      simp only at h
      have hb1 := collectAll_kinv d d1 nodes n1 hb hc
      split at h
      · cases h
      · split at h
        · cases h
        · rename_i nodes2 ifs hr
          have hb2 := resolveIfs_kinv d1.symbols _ _ _ _ _ hb1 hr
          split at h
          · injection h with h; injection h with h1 h2
            injection h2 with _ h3
            rw [← h1, ← h3]; exact hb2
          · exact ih _ _ _ _ _ _ _ hb2 h

/-! ## `define_remaining` passes symbol nodes through -/

theorem assignRef_kn (m : SymMgr) (acc : Defs × List AstNode) (n : AstNode) (hn : KN m n) (ha : KInv m acc.2) :
    KInv m (assignRef acc n).2 := by
  obtain ⟨df, out⟩ := acc
  have key : ∀ x, KN m x → KInv m (out ++ [x]) := by
    intro x hx y hy
    rcases List.mem_append.mp hy with hy | hy
    · exact ha y hy
    · cases hy with
      | head => exact hx
      | tail _ hy => cases hy
  unfold assignRef
  simp only
  split
  all_goals first | exact key _ trivial | exact key _ hn

theorem foldl_assignRef_kinv (m : SymMgr) : ∀ (l : List AstNode) (acc : Defs × List AstNode),
    (∀ n ∈ l, KN m n) → KInv m acc.2 → KInv m (l.foldl assignRef acc).2 := by
  intro l
  induction l with
  | nil => intro acc _ ha; exact ha
  | cons n rest ih =>
    intro acc hl ha
    rw [List.foldl_cons]
    exact ih _ (fun x hx => hl x (List.mem_cons_of_mem _ hx)) (assignRef_kn m acc n (hl n (List.mem_cons_self ..)) ha)

theorem defineRemaining_kinv (m : SymMgr) (d : Decls) (defs defs' : Defs) (nodes nodes' : List AstNode) (hk : KInv m nodes)
    (h : defineRemaining d defs nodes = .ok (defs', nodes')) : KInv m nodes' := by
  unfold defineRemaining at h
  simp only [bind, Except.bind] at h
  split at h
  · cases h
  · split at h
    · cases h
    · simp only [pure, Except.pure] at h
      injection h with h
      injection h with _ h2
      rw [← h2]
      exact foldl_assignRef_kinv m nodes _ hk (fun _ hx => by cases hx)

/-- **the node list handed to the resolver never has a constant and a label in one slot** -/
theorem frontEndPre_kinv (opts : Opts) (fs : SrcFiles) (roots : List (List Char)) (d : Decls) (defs : Defs) (nodes : List AstNode)
    (hp : frontEndPre opts fs roots = .ok (d, defs, nodes)) : KInv d.symbols nodes := by
  unfold frontEndPre at hp
  split at hp
  · cases hp
  · rename_i nodes0 hparse
    split at hp
    · cases hp
    · simp only at hp
      split at hp
      · cases hp
      · rename_i bm _ _ d2 defs2 nodes2 hl
        split at hp
        · cases hp
        · split at hp
          · cases hp
          · rename_i defs3 nodes3 hdr
            injection hp with hp; injection hp with h1 h2
            injection h2 with _ h3
            subst h1; subst h3
            have h0 : KInv ({ banks := bm } : Decls).symbols nodes0 := by
              cases hpm : parseMany fs roots with
              | error e => rw [hpm] at hparse; cases hparse
              | ok ns =>
                rw [hpm] at hparse
                injection hparse with hparse
                rw [← hparse]
                intro x hx
                obtain ⟨y, _, rfl⟩ := List.mem_map.mp hx
                exact KN_fresh _ y
            exact defineRemaining_kinv _ _ _ _ _ _ (declLoop_kinv opts _ _ _ _ _ _ _ _ h0 hl) hdr

theorem frontEnd_noClash (opts : Opts) (fs : SrcFiles) (roots : List (List Char)) (st : Static) (nodes : List AstNode) (defs : Defs)
    (h : frontEnd opts fs roots = .ok (st, nodes, defs)) : NoClash nodes := by
  unfold frontEnd at h
  split at h
  · cases h
  · rename_i d defs0 nodes0 hp
    split at h
    split at h
    · cases h
    · injection h with h; injection h with _ h2
      injection h2 with h3 _
      rw [← h3]
      exact KInv_noClash _ _ (frontEndPre_kinv opts fs roots d defs0 nodes0 hp)

end Casm
