import Casm.Model.Assemble
import Casm.Proofs.Iterate
/-!
# Casm.Proofs.IterModel — the model's `iterLoop`/`resolveIteratively` are instances of the
generic `Iter.loop`/`Iter.iterate` over the pass `absPass` (= `resolveOnce` without its messages).
-/
namespace Casm

/-- the model's pass seen as a generic pass: the messages are dropped -/
def absPass (st : Static) (nodes : List AstNode) : Iter.Pass Defs := fun fl d =>
  match resolveOnce st nodes fl.first fl.last d with
  | .error _ => .err
  | .ok (d', stable, _) => .ok (d', stable)

theorem absPass_err {st nodes f l d e} (h : resolveOnce st nodes f l d = .error e) :
    absPass st nodes ⟨f, l⟩ d = .err := by
  simp [absPass, h]

theorem absPass_ok {st nodes f l d d' s r} (h : resolveOnce st nodes f l d = .ok (d', s, r)) :
    absPass st nodes ⟨f, l⟩ d = .ok (d', s) := by
  simp [absPass, h]

/-- forgetting the messages of a loop result -/
def projLoop : Except (List String) (Nat × Defs × List String × Bool) → Iter.Out (Sum (Nat × Defs) (Nat × Defs))
  | .error _ => .err
  | .ok (k, d, _, true) => .ok (.inl (k, d))
  | .ok (k, d, _, false) => .ok (.inr (k, d))

def projIter : Except (List String) (Nat × Defs × List String) → Iter.Out (Nat × Defs)
  | .error _ => .err
  | .ok (k, d, _) => .ok (k, d)

/-- the loop of the model *is* the generic loop (messages forgotten) -/
theorem iterLoop_eq (st : Static) (nodes : List AstNode) (max : Nat) :
    ∀ fuel i d rep, i + fuel = max →
      projLoop (iterLoop st nodes max fuel i d rep) = Iter.loop (absPass st nodes) max fuel i d := by
  intro fuel
  induction fuel with
  | zero => intro i d rep _; simp [iterLoop, Iter.loop, projLoop]
  | succ n ih =>
    intro i d rep hi
    have hlt : ¬ (i ≥ max) := by omega
    simp only [iterLoop, hlt, if_false, Iter.loop]
    cases hp : resolveOnce st nodes (i + 1 == 1) (i + 1 == max) d with
    | error e => rw [absPass_err hp]; rfl
    | ok x =>
      obtain ⟨d1, stable, r⟩ := x
      rw [absPass_ok hp]
      cases stable with
      | true =>
        by_cases hl : (i + 1 == max) = true
        · simp [hl, projLoop]
        · have hl' : (i + 1 == max) = false := by simpa using hl
          simp [hl', projLoop]
      | false =>
        by_cases hl : (i + 1 == max) = true
        · simp [hl, projLoop]
        · have hl' : (i + 1 == max) = false := by simpa using hl
          simp only [hl', Bool.false_eq_true, if_false]
          exact ih _ _ _ (by omega)

/-- `resolveIterativelyN` *is* the generic `iterate` (messages forgotten) -/
theorem resolveIterativelyN_eq (st : Static) (nodes : List AstNode) (max : Nat) (d : Defs) :
    projIter (resolveIterativelyN st nodes max d) = Iter.iterate (absPass st nodes) max d := by
  unfold resolveIterativelyN Iter.iterate
  rw [← iterLoop_eq st nodes max max 0 d [] (by omega)]
  cases hl : iterLoop st nodes max max 0 d [] with
  | error e => simp [projLoop, projIter]
  | ok x =>
    obtain ⟨i, d1, rep1, fin⟩ := x
    cases fin with
    | true => simp [projLoop, projIter]
    | false =>
      simp only [projLoop]
      cases hp : resolveOnce st nodes false true d1 with
      | error e => rw [absPass_err hp]; rfl
      | ok y =>
        obtain ⟨d2, stable, r⟩ := y
        rw [absPass_ok hp]
        cases stable <;> simp [projIter]

theorem projIter_ok {x k d} : projIter x = .ok (k, d) ↔ ∃ rep, x = .ok (k, d, rep) := by
  cases x with
  | error e => simp [projIter]
  | ok y =>
    obtain ⟨k', d', rep⟩ := y
    simp only [projIter]
    constructor
    · intro h; injection h with h; injection h with h1 h2; subst h1 h2; exact ⟨rep, rfl⟩
    · rintro ⟨rep', h⟩; injection h with h; injection h with h1 h; injection h with h2 h3; subst h1 h2; rfl

theorem resolveIterativelyN_sim (st : Static) (nodes : List AstNode) (max : Nat) (d : Defs) (k : Nat) (d' : Defs) (rep : List String)
    (h : resolveIterativelyN st nodes max d = .ok (k, d', rep)) :
    Iter.iterate (absPass st nodes) max d = .ok (k, d') := by
  rw [← resolveIterativelyN_eq, h]; rfl

/-- messages only accumulate in the loop -/
theorem iterLoop_rep (st : Static) (nodes : List AstNode) (max : Nat) :
    ∀ fuel i d rep k d' rep' fin, iterLoop st nodes max fuel i d rep = .ok (k, d', rep', fin) →
      ∃ t, rep' = rep ++ t := by
  intro fuel
  induction fuel with
  | zero =>
    intro i d rep k d' rep' fin h
    simp only [iterLoop] at h
    injection h with h; injection h with h1 h; injection h with h2 h; injection h with h3 h4
    exact ⟨[], by simp [h3]⟩
  | succ n ih =>
    intro i d rep k d' rep' fin h
    simp only [iterLoop] at h
    split at h
    · injection h with h; injection h with h1 h; injection h with h2 h; injection h with h3 h4
      exact ⟨[], by simp [h3]⟩
    · split at h
      · cases h
      · rename_i d1 stable r hp
        split at h
        · split at h <;>
          · injection h with h; injection h with h1 h; injection h with h2 h; injection h with h3 h4
            exact ⟨r, h3.symm⟩
        · split at h
          · cases h
          · obtain ⟨t, ht⟩ := ih _ _ _ _ _ _ _ h
            exact ⟨r ++ t, by rw [ht, List.append_assoc]⟩

/-- a successful loop exit through the "finished" branch came from a strict stable pass whose
    messages are a suffix of all messages -/
theorem iterLoop_fin (st : Static) (nodes : List AstNode) (max : Nat) :
    ∀ fuel i d rep k d' rep', iterLoop st nodes max fuel i d rep = .ok (k, d', rep', true) →
      ∃ d0 f r pre, resolveOnce st nodes f true d0 = .ok (d', true, r) ∧ rep' = pre ++ r := by
  intro fuel
  induction fuel with
  | zero =>
    intro i d rep k d' rep' h
    simp only [iterLoop] at h
    injection h with h; injection h with h1 h; injection h with h2 h; injection h with h3 h4
    cases h4
  | succ n ih =>
    intro i d rep k d' rep' h
    simp only [iterLoop] at h
    split at h
    · injection h with h; injection h with h1 h; injection h with h2 h; injection h with h3 h4
      cases h4
    · split at h
      · cases h
      · rename_i d1 stable r hp
        split at h
        · rename_i hst
          split at h
          · rename_i hl
            injection h with h; injection h with h1 h; injection h with h2 h; injection h with h3 h4
            subst h2
            refine ⟨d, (i + 1 == 1), r, rep, ?_, h3.symm⟩
            rw [hl, hst] at hp; exact hp
          · injection h with h; injection h with h1 h; injection h with h2 h; injection h with h3 h4
            cases h4
        · split at h
          · cases h
          · exact ih _ _ _ _ _ _ h

end Casm
