import Casm.Proofs.ViewCongr
import Casm.Proofs.StableId
/-!
# Casm.Proofs.Unfreeze — item resolvers commute with clearing the first-pass marks

`Defs.unfreeze` clears the `resolved` marks of instructions and data elements.  Resolvers of
labels, constants, `#res`, `#align`, `#addr`, `#assert`, and of instructions / data elements that
are not marked, compute on the unmarked state what they compute on the marked one.
-/
namespace Casm

/-- clear the "resolved in the first pass" marks of instructions and data elements -/
def Defs.unfreeze (d : Defs) : Defs :=
  { d with instrs := d.instrs.map (fun i => { i with resolved := false }), datas := d.datas.map (fun x => { x with resolved := false }) }

theorem unfreeze_view (d : Defs) : SameView d d.unfreeze := ⟨fun _ => rfl, rfl, rfl, rfl⟩

def ufRes (r : Defs × Bool × List String) : Defs × Bool × List String := (r.1.unfreeze, r.2.1, r.2.2)

macro "uf_tac" : tactic => `(tactic| (
  simp only [Defs.unfreeze, ufRes, Except.map]
  repeat' split
  all_goals (first
    | rfl
    | contradiction
    | (simp_all; done)
    | (simp_all
       repeat' split
       all_goals (first | rfl | contradiction | (rename_i heq; cases heq; rfl) | (subst_vars; rfl) | (subst_vars; simp_all; done) | (simp_all; done))))))

theorem resolveRes_uf (st : Static) (d : Defs) (ctx : RCtx) (ref : Nat) (e : Expr) :
    resolveRes st d.unfreeze ctx ref e = (resolveRes st d ctx ref e).map ufRes := by
  unfold resolveRes
  rw [resolverEval_view st (unfreeze_view d)]
  cases resolverEval st d ctx {} e with
  | error m => rfl
  | ok x => obtain ⟨v, c⟩ := x; simp only; uf_tac

theorem resolveAlign_uf (st : Static) (d : Defs) (ctx : RCtx) (ref : Nat) (e : Expr) :
    resolveAlign st d.unfreeze ctx ref e = (resolveAlign st d ctx ref e).map ufRes := by
  unfold resolveAlign
  rw [resolverEval_view st (unfreeze_view d)]
  cases resolverEval st d ctx {} e with
  | error m => rfl
  | ok x => obtain ⟨v, c⟩ := x; simp only; uf_tac

theorem resolveAddr_uf (st : Static) (d : Defs) (ctx : RCtx) (ref : Nat) (e : Expr) :
    resolveAddr st d.unfreeze ctx ref e = (resolveAddr st d ctx ref e).map ufRes := by
  unfold resolveAddr
  rw [resolverEval_view st (unfreeze_view d)]
  cases resolverEval st d ctx {} e with
  | error m => rfl
  | ok x => obtain ⟨v, c⟩ := x; simp only; uf_tac

theorem resolveAssert_uf (st : Static) (d : Defs) (ctx : RCtx) (e : Expr) :
    resolveAssert st d.unfreeze ctx e = (resolveAssert st d ctx e).map ufRes := by
  unfold resolveAssert
  rw [resolverEval_view st (unfreeze_view d)]
  cases resolverEval st d ctx {} e with
  | error m => simp only; uf_tac
  | ok x => obtain ⟨v, c⟩ := x; simp only; uf_tac

theorem unfreeze_sym (d : Defs) (r : Nat) : d.unfreeze.sym r = d.sym r := rfl
theorem unfreeze_setSym (d : Defs) (r : Nat) (x : SymDef) : d.unfreeze.setSym r x = (d.setSym r x).unfreeze := rfl

theorem resolveLabel_uf (st : Static) (d : Defs) (ctx : RCtx) (ref : Nat) :
    resolveLabel st d.unfreeze ctx ref = (resolveLabel st d ctx ref).map ufRes := by
  unfold resolveLabel
  rw [evalAddress_view (unfreeze_view d)]
  cases evalAddress d ctx ctx.canGuess with
  | error m => rfl
  | ok a =>
    simp only [unfreeze_sym, unfreeze_setSym]
    split
    · rename_i h; rw [if_pos h]; rfl
    · rename_i h; rw [if_neg h]; rfl

theorem resolveConstant_uf (st : Static) (d : Defs) (ctx : RCtx) (ref : Nat) (e : Expr) :
    resolveConstant st d.unfreeze ctx ref e = (resolveConstant st d ctx ref e).map ufRes := by
  unfold resolveConstant
  rw [resolverEval_view st (unfreeze_view d)]
  simp only [unfreeze_sym, unfreeze_setSym]
  split
  · rfl
  · cases resolverEval st d ctx {} e with
    | error m => rfl
    | ok x =>
      obtain ⟨v, c⟩ := x
      simp only
      split
      · rename_i h; rw [if_pos h]; rfl
      · rename_i h; rw [if_neg h]
        split
        · rename_i h2; rw [if_pos h2]; rfl
        · rename_i h2; rw [if_neg h2]; rfl

end Casm
