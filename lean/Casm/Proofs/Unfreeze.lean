import Casm.Proofs.ViewCongr
import Casm.Proofs.StableId
/-!
# Casm.Proofs.Unfreeze — item resolvers commute with clearing the first-pass marks

`Defs.unfreeze` clears the `resolved` marks of instructions and data elements.  Resolvers of
labels, constants, `#res`, `#align`, `#addr`, `#assert`, and of instructions / data elements that
are not marked, compute on the unmarked state what they compute on the marked one.
-/
namespace Casm

theorem unfreeze_view (d : Defs) : SameView d d.unfreeze := ⟨fun _ => rfl, rfl, rfl, rfl⟩

def ufRes (r : Defs × Bool × List String) : Defs × Bool × List String := (r.1.unfreeze, r.2.1, r.2.2)

macro "uf_tac" : tactic => `(tactic| (
  simp only [Defs.unfreeze, ufRes, Except.map]
  repeat' split
  all_goals (first
    | rfl
    | contradiction
    | (simp_all; done)
    | (simp_all
       repeat' split
       all_goals (first | rfl | contradiction | (rename_i heq; cases heq; rfl) | (subst_vars; rfl) | (subst_vars; simp_all; done) | (simp_all; done))))))

theorem resolveRes_uf (st : Static) (d : Defs) (ctx : RCtx) (ref : Nat) (e : Expr) :
    resolveRes st d.unfreeze ctx ref e = (resolveRes st d ctx ref e).map ufRes := by
  unfold resolveRes
  rw [resolverEval_view st (unfreeze_view d)]
  cases resolverEval st d ctx {} e with
  | error m => rfl
  | ok x =>
    obtain ⟨v, c⟩ := x; simp only
    simp only [Defs.unfreeze, ufRes, Except.map]
    repeat' split
    all_goals (first
      | rfl
      | contradiction
      | (simp_all; done)
      | (simp_all
         repeat' split
         all_goals (first | rfl | contradiction | (exfalso; exact Nat.lt_irrefl _ (Nat.lt_of_lt_of_le ‹_ < USIZE_MAX1› ‹USIZE_MAX1 ≤ _›)) | (rename_i heq; cases heq; rfl) | (subst_vars; rfl) | (subst_vars; simp_all; done) | (simp_all; done))))

theorem resolveAlign_uf (st : Static) (d : Defs) (ctx : RCtx) (ref : Nat) (e : Expr) :
    resolveAlign st d.unfreeze ctx ref e = (resolveAlign st d ctx ref e).map ufRes := by
  unfold resolveAlign
  rw [resolverEval_view st (unfreeze_view d)]
  cases resolverEval st d ctx {} e with
  | error m => rfl
  | ok x => obtain ⟨v, c⟩ := x; simp only; uf_tac

theorem resolveAddr_uf (st : Static) (d : Defs) (ctx : RCtx) (ref : Nat) (e : Expr) :
    resolveAddr st d.unfreeze ctx ref e = (resolveAddr st d ctx ref e).map ufRes := by
  unfold resolveAddr
  rw [resolverEval_view st (unfreeze_view d)]
  cases resolverEval st d ctx {} e with
  | error m => rfl
  | ok x => obtain ⟨v, c⟩ := x; simp only; uf_tac

theorem resolveAssert_uf (st : Static) (d : Defs) (ctx : RCtx) (e : Expr) :
    resolveAssert st d.unfreeze ctx e = (resolveAssert st d ctx e).map ufRes := by
  unfold resolveAssert
  rw [resolverEval_view st (unfreeze_view d)]
  cases resolverEval st d ctx {} e with
  | error m => simp only; uf_tac
  | ok x => obtain ⟨v, c⟩ := x; simp only; uf_tac

theorem unfreeze_sym (d : Defs) (r : Nat) : d.unfreeze.sym r = d.sym r := rfl
theorem unfreeze_setSym (d : Defs) (r : Nat) (x : SymDef) : d.unfreeze.setSym r x = (d.setSym r x).unfreeze := rfl

theorem map_ite {α β} (c : Prop) [Decidable c] (f : α → β) (a b : Except String α) :
    (if c then a else b).map f = if c then a.map f else b.map f := by split <;> rfl

theorem resolveLabel_uf (st : Static) (d : Defs) (ctx : RCtx) (ref : Nat) :
    resolveLabel st d.unfreeze ctx ref = (resolveLabel st d ctx ref).map ufRes := by
  unfold resolveLabel
  rw [evalAddress_view (unfreeze_view d)]
  cases evalAddress d ctx ctx.canGuess with
  | error m => rfl
  | ok a =>
    simp only [unfreeze_sym, unfreeze_setSym, map_ite]
    rfl

theorem resolveConstant_uf (st : Static) (d : Defs) (ctx : RCtx) (ref : Nat) (e : Expr) :
    resolveConstant st d.unfreeze ctx ref e = (resolveConstant st d ctx ref e).map ufRes := by
  unfold resolveConstant
  rw [resolverEval_view st (unfreeze_view d)]
  simp only [unfreeze_sym, unfreeze_setSym, map_ite]
  cases resolverEval st d ctx {} e with
  | error m => rfl
  | ok x =>
    obtain ⟨v, c⟩ := x
    simp only [map_ite]
    rfl

theorem unfreeze_instr (d : Defs) (ref : Nat) :
    d.unfreeze.instrs.getD ref default = { (d.instrs.getD ref default) with resolved := false } := by
  simp only [Defs.unfreeze, List.getD_eq_getElem?_getD, List.getElem?_map]
  cases d.instrs[ref]? <;> rfl

theorem unfreeze_data (d : Defs) (ref : Nat) :
    d.unfreeze.datas.getD ref default = { (d.datas.getD ref default) with resolved := false } := by
  simp only [Defs.unfreeze, List.getD_eq_getElem?_getD, List.getElem?_map]
  cases d.datas[ref]? <;> rfl

theorem unfreeze_setInstr (d : Defs) (ref : Nat) (x : InstrDef) :
    ({ d.unfreeze with instrs := d.unfreeze.instrs.set ref { x with resolved := false } } : Defs) =
      ({ d with instrs := d.instrs.set ref x } : Defs).unfreeze := by
  simp only [Defs.unfreeze, List.map_set]

theorem unfreeze_setData (d : Defs) (ref : Nat) (x : DataDef) :
    ({ d.unfreeze with datas := d.unfreeze.datas.set ref { x with resolved := false } } : Defs) =
      ({ d with datas := d.datas.set ref x } : Defs).unfreeze := by
  simp only [Defs.unfreeze, List.map_set]

/-- an instruction that is not marked, in a pass that is not the first -/
theorem resolveInstruction_uf (st : Static) (d : Defs) (ctx : RCtx) (ref : Nat)
    (hr : (d.instrs.getD ref default).resolved = false) (hf : ctx.first = false) :
    resolveInstruction st d.unfreeze ctx ref = (resolveInstruction st d ctx ref).map ufRes := by
  unfold resolveInstruction
  simp only [unfreeze_instr, hr, Bool.false_eq_true, if_false, (viewEq st (unfreeze_view d) evalFuel).renc]
  cases resolveEncoding st d evalFuel ctx ((d.instrs.getD ref default).cands.map (·.m)) {} with
  | error m => rfl
  | ok x =>
    obtain ⟨encs, reported⟩ := x
    simp only [hf, Bool.and_false, Bool.false_and, Bool.false_eq_true, if_false]
    cases hc : (encs.bind fun l => l.head?.map (·.2)) with
    | none => rfl
    | some e =>
      simp only
      have := unfreeze_setInstr d ref { (d.instrs.getD ref default) with encoding := e }
      simp only [hr] at this
      simp only [this, map_ite]
      rfl

theorem dataStore_uf (st : Static) (d : Defs) (ctx : RCtx) (ref : Nat) (sliced : Option BI)
    (hr : (d.datas.getD ref default).resolved = false) (hf : ctx.first = false) :
    dataStore st d.unfreeze ctx ref sliced = (dataStore st d ctx ref sliced).map ufRes := by
  unfold dataStore
  simp only [unfreeze_data, hf, Bool.and_false, Bool.false_and, Bool.false_eq_true, if_false]
  cases sliced with
  | none => simp only [map_ite]; rfl
  | some b =>
    simp only
    have := unfreeze_setData d ref { (d.datas.getD ref default) with encoding := b }
    simp only [hr] at this
    simp only [this, map_ite, hr]
    rfl

/-- a data element that is not marked, in a pass that is not the first -/
theorem resolveData_uf (st : Static) (d : Defs) (ctx : RCtx) (ref : Nat) (sz : Option Nat) (e : Expr)
    (hr : (d.datas.getD ref default).resolved = false) (hf : ctx.first = false) :
    resolveData st d.unfreeze ctx ref sz e = (resolveData st d ctx ref sz e).map ufRes := by
  unfold resolveData
  simp only [unfreeze_data, hr, Bool.false_eq_true, if_false, resolverEval_view st (unfreeze_view d)]
  cases resolverEval st d ctx {} e with
  | error m => rfl
  | ok x =>
    obtain ⟨v, c⟩ := x
    simp only
    cases dataEnc (ctx.last || (d.datas.getD ref default).known) v with
    | error m => rfl
    | ok enc =>
      simp only
      cases dataCheck (ctx.last || (d.datas.getD ref default).known) sz enc with
      | error m => rfl
      | ok u => exact dataStore_uf st d ctx ref _ hr hf

end Casm
