import Casm.Props.C15
import Casm.Proofs.CondStable
/-!
# Casm.Proofs.CondNames — declaring more symbols never rebinds a global name

`Grows m m'`: every global reference that resolves in the table `m` resolves to the same declaration in
`m'`.  It holds across one successful `declare` on a `Built` table (`C15.later_declarations_do_not_rebind`),
hence across `collect` (symbols and functions), hence across every round of the first loop of `assemble`.
-/
namespace Casm

def Grows (m m' : SymMgr) : Prop :=
  ∀ level path r, m.tryGetByName [] level path = some r → m'.tryGetByName [] level path = some r

theorem Grows.refl (m : SymMgr) : Grows m m := fun _ _ _ h => h
theorem Grows.trans {a b c : SymMgr} (h1 : Grows a b) (h2 : Grows b c) : Grows a c :=
  fun l p r h => h2 l p r (h1 l p r h)

theorem traverse_nil (m : SymMgr) (parent : Option Nat) : m.traverse parent [] = none := by
  unfold SymMgr.traverse; rfl

theorem root_lookup_shape (m : SymMgr) (level : Nat) (path : List String) (r : Nat)
    (h : m.tryGetByName [] level path = some r) : level ≤ 0 ∧ path ≠ [] := by
  unfold SymMgr.tryGetByName at h
  split at h
  · cases h
  · rename_i hl
    refine ⟨by simpa using hl, ?_⟩
    intro hp
    subst hp
    rw [traverse_nil] at h
    cases h

theorem declare_grows (m m' : SymMgr) (hb : Built m) (ctx : List String) (name : String) (level : Nat) (kind : DeclKind) (idx : Nat)
    (hctx : CtxOK m ctx) (h : m.declare ctx name level kind = .ok (idx, m')) : Grows m m' := by
  intro ul up r hr
  obtain ⟨hl, hp⟩ := root_lookup_shape m ul up r hr
  exact C15.later_declarations_do_not_rebind m m' hb ctx name level kind idx hctx h [] ul up r (Or.inl rfl) hl hp hr

theorem collectSymbols_grows (d d' : Decls) (nodes nodes' : List AstNode) (hb : Built d.symbols)
    (h : collectSymbols d nodes = .ok (d', nodes')) : Grows d.symbols d'.symbols := by
  unfold collectSymbols at h
  split at h
  · cases h
  · rename_i dd ctx ns hm
    injection h with h; injection h with h1 _
    subst h1
    have := mapNodesE_inv _ (fun (s : Decls × List String) => Built s.1.symbols ∧ CtxOK s.1.symbols s.2 ∧ Grows d.symbols s.1.symbols)
      ?_ nodes (d, []) [] (dd, ctx) ns ⟨hb, Or.inl rfl, Grows.refl _⟩ hm
    exact this.2.2
    intro s n s' n' hi hf
    obtain ⟨hbs, hcs, hg⟩ := hi
    split at hf
    · rename_i level name kind ne ref
      cases ref with
      | some r =>
        simp only at hf
        injection hf with hf; injection hf with h1 _
        rw [← h1]
        exact ⟨hbs, ctxOK_of_decl _ r, hg⟩
      | none =>
        simp only at hf
        split at hf
        · cases hf
        · rename_i r m hd
          injection hf with hf; injection hf with h1 _
          rw [← h1]
          exact ⟨Built.declare hbs hcs hd, ctxOK_of_decl m r, hg.trans (declare_grows _ _ hbs _ _ _ _ _ hcs hd)⟩
    · injection hf with hf; injection hf with h1 _
      rw [← h1]; exact ⟨hbs, hcs, hg⟩

theorem collectFunctions_grows (d d' : Decls) (nodes nodes' : List AstNode) (hb : Built d.symbols)
    (h : collectFunctions d nodes = .ok (d', nodes')) : Grows d.symbols d'.symbols := by
  unfold collectFunctions at h
  have := mapNodesE_inv _ (fun (s : Decls) => Built s.symbols ∧ Grows d.symbols s.symbols) ?_ nodes d [] d' nodes' ⟨hb, Grows.refl _⟩ h
  exact this.2
  intro s n s' n' hi hf
  split at hf
  · split at hf
    · cases hf
    · rename_i r m hd
      injection hf with hf; injection hf with h1 _
      rw [← h1]
      exact ⟨Built.declare hi.1 (Or.inl rfl) hd, hi.2.trans (declare_grows _ _ hi.1 _ _ _ _ _ (Or.inl rfl) hd)⟩
  · injection hf with hf; injection hf with h1 _
    rw [← h1]; exact hi

theorem collectAll_grows (d d' : Decls) (nodes nodes' : List AstNode) (hb : Built d.symbols)
    (h : collectAll d nodes = .ok (d', nodes')) : Grows d.symbols d'.symbols := by
  unfold collectAll at h
  simp only [bind, Except.bind] at h
  cases h1 : collectBankdefs d nodes with
  | error e => rw [h1] at h; cases h
  | ok x1 =>
    obtain ⟨d1, n1⟩ := x1
    rw [h1] at h
    simp only at h
    cases h2 : collectBanks d1 n1 with
    | error e => rw [h2] at h; cases h
    | ok x2 =>
      obtain ⟨d2, n2⟩ := x2
      rw [h2] at h
      simp only at h
      cases h3 : collectRuledefs d2 n2 with
      | error e => rw [h3] at h; cases h
      | ok x3 =>
        obtain ⟨d3, n3⟩ := x3
        rw [h3] at h
        simp only at h
        cases h4 : collectSymbols d3 n3 with
        | error e => rw [h4] at h; cases h
        | ok x4 =>
          obtain ⟨d4, n4⟩ := x4
          rw [h4] at h
          simp only at h
          have e1 := collectBankdefs_symbols d d1 nodes n1 h1
          have e2 := collectBanks_symbols d1 d2 n1 n2 h2
          have e3 := collectRuledefs_symbols d2 d3 n2 n3 h3
          have e : d3.symbols = d.symbols := by rw [e3, e2, e1]
          have hb3 : Built d3.symbols := by rw [e]; exact hb
          have g1 := collectSymbols_grows d3 d4 n3 n4 hb3 h4
          have g2 := collectFunctions_grows d4 d' n4 nodes' (collectSymbols_built d3 d4 n3 n4 hb3 h4) h
          rw [e] at g1
          exact g1.trans g2

end Casm
