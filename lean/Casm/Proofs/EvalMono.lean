import Casm.Model.ExprEval
/-!
# Casm.Proofs.EvalMono — evaluation is monotone in its environment

If every answer `ok v` of one environment (variables, function calls, asm blocks) is also the
answer of another, then every expression that evaluates to `ok r` in the first evaluates to the
same `ok r` in the second.  (Used with "strict" ≤ "guessing": guessing only replaces errors.)
-/
namespace Casm

structure EnvLe (env1 env2 : EvalEnv) : Prop where
  var : ∀ l p v, env1.var l p = .ok v → env2.var l p = .ok v
  fn : ∀ f a c v, env1.fn f a c = .ok v → env2.fn f a c = .ok v
  asm : ∀ t c v, env1.asm t c = .ok v → env2.asm t c = .ok v

theorem map_ok {α β} (x : Except String α) (f : α → β) (r : β) (h : x.map f = .ok r) : ∃ a, x = .ok a ∧ f a = r := by
  cases x with
  | error e => cases h
  | ok a => exact ⟨a, rfl, by injection h⟩

set_option maxHeartbeats 1000000 in
/-- **evaluation is monotone in the environment** -/
theorem eval_mono (env1 env2 : EvalEnv) (le : EnvLe env1 env2) :
    (∀ c e r, eval env1 c e = .ok r → eval env2 c e = .ok r) := by
  intro c e
  apply eval.induct env1
    (motive_1 := fun c e => ∀ r, eval env1 c e = .ok r → eval env2 c e = .ok r)
    (motive_2 := fun c acc es => ∀ r, evalArgs env1 c acc es = .ok r → evalArgs env2 c acc es = .ok r)
    (motive_3 := fun c last es => ∀ r, evalBlock env1 c last es = .ok r → evalBlock env2 c last es = .ok r)
  case case5 =>
    intro locals level path hx r a
    have ea : ∀ env : EvalEnv, eval env locals (Expr.var level path) = Except.map (fun x => (x, locals)) (env.var level path) := by
      intro env; rw [eval]; exact hx
    rw [ea] at a ⊢
    obtain ⟨v, hv, hr⟩ := map_ok _ _ _ a
    rw [le.var _ _ _ hv]; exact congrArg Except.ok hr
  all_goals (intros; first
    | (simp_all [eval, evalArgs, evalBlock]; done)
    -- variables: the environment is asked
    | (rename_i r a; rw [eval] at a ⊢; simp only [*] at a ⊢
       obtain ⟨v, hv, hr⟩ := map_ok _ _ _ a
       rw [le.var _ _ _ hv]; exact congrArg Except.ok hr)
    | (rename_i r a; rw [eval] at a ⊢
       obtain ⟨v, hv, hr⟩ := map_ok _ _ _ a
       rw [le.asm _ _ _ hv]; exact congrArg Except.ok hr)
    | (rename_i ih1 r a; rw [eval] at a ⊢; exact ih1 _ a)
    | (rename_i ih1 r a; have h1 := ih1 _ (by assumption)
       (first | rw [eval] at a ⊢ | rw [evalArgs] at a ⊢ | rw [evalBlock] at a ⊢) <;> first
         | assumption
         | (simp only [*] at a ⊢; first | exact a | (simp_all; done)))
    | (rename_i ih2 ih1 r a; have h1 := ih1 _ (by assumption); have h2 := ih2 _ (by assumption)
       (first | rw [eval] at a ⊢ | rw [evalArgs] at a ⊢ | rw [evalBlock] at a ⊢) <;> first
         | assumption
         | (simp only [*] at a ⊢; first | exact a | (simp_all; done)))
    | (rename_i ih2 ih1 r a; have h2 := ih2 _ (by assumption)
       (first | rw [eval] at a ⊢ | rw [evalArgs] at a ⊢ | rw [evalBlock] at a ⊢) <;> first
         | assumption
         | (simp only [*] at a ⊢; first | exact ih1 _ a | exact a | (simp_all; done)))
    | (rename_i ih2 ih1 r a; have h1 := ih1 _ (by assumption); have h2 := ih2 _ (by assumption)
       rw [eval] at a ⊢; simp only [*] at a ⊢
       obtain ⟨v, hv, hr⟩ := map_ok _ _ _ a
       rw [le.fn _ _ _ _ hv]; exact congrArg Except.ok hr)
    | (rename_i ih3 ih2 ih1 r a; have h1 := ih1 _ (by assumption); have h2 := ih2 _ (by assumption); have h3 := ih3 _ (by assumption)
       (first | rw [eval] at a ⊢ | rw [evalArgs] at a ⊢ | rw [evalBlock] at a ⊢) <;> first
         | assumption
         | (simp only [*] at a ⊢; first | exact a | (simp_all; done)))
    )

end Casm
