import Casm.Proofs.History
/-!
# Casm.Proofs.Frozen — every first-pass mark keeps a witness of why it is sound

`Good` is the invariant of all passes: what the front end fixed stays fixed, a statically known
symbol with a value is marked resolved, and every marked instruction / data element carries the
state and context in which it was frozen, related to the current state so that
`frozen_instruction_sound` / `pure_static_eval` apply.
-/
namespace Casm

/-- facts about the front end's output used by the history argument (all decidable; evaluated by
    the certificate of every correspondence run) -/
structure FrontOK (st : Static) (nodes : List AstNode) (d0 : Defs) : Prop where
  instrsFresh : ∀ ref, (d0.instrs.getD ref default).resolved = false
  datasFresh : ∀ ref, (d0.datas.getD ref default).resolved = false
  instrPos : ∀ pre src ref post pre' src' post', nodes = pre ++ .instr src (some ref) :: post →
    nodes = pre' ++ .instr src' (some ref) :: post' → ctxAfter st [] pre' = ctxAfter st [] pre
  instrKnown : ∀ pre src ref post, nodes = pre ++ .instr src (some ref) :: post →
    (d0.instrs.getD ref default).known = true →
    ∀ c ∈ (d0.instrs.getD ref default).cands, matchKnown st.decls d0 (ctxAfter st [] pre) 64 c.m = true
  dataKnown : ∀ pre sz es refs post k, nodes = pre ++ .data sz es refs :: post →
    (d0.datas.getD (refs.getD k 0) default).known = true → staticallyKnown pureP (es.getD k default) = true
  dataPos : ∀ pre sz es refs post k pre' sz' es' refs' post' k', nodes = pre ++ .data sz es refs :: post →
    nodes = pre' ++ .data sz' es' refs' :: post' → refs.getD k 0 = refs'.getD k' 0 → sz' = sz ∧ es'.getD k' default = es.getD k default
  labelNotKnown : ∀ l nm ne r, AstNode.symbol l nm .label ne (some r) ∈ nodes → (d0.sym r).known = false
  j : ∀ r, (d0.sym r).known = true → (d0.sym r).value ≠ .unknown → (d0.sym r).resolved = true
  params : ParamsOK d0

/-- the witness of a marked instruction -/
def IW (st : Static) (nodes : List AstNode) (d0 d : Defs) (ref : Nat) : Prop :=
  ∃ (s1 : Defs) (ctx1 : RCtx) (encs : List (Nat × BI)) (rep : List String) (e : Nat × BI),
    s1.ruledefs = d0.ruledefs ∧
    (∀ r, (d0.sym r).known = true → (s1.sym r).value ≠ .unknown → (d.sym r).value = (s1.sym r).value) ∧
    (∀ pre src post, nodes = pre ++ .instr src (some ref) :: post → ctx1.symCtx = ctxAfter st [] pre) ∧
    (∀ c ∈ (d0.instrs.getD ref default).cands, matchKnown st.decls d0 ctx1.symCtx 64 c.m = true) ∧
    allDefinite st s1 ctx1 ((d0.instrs.getD ref default).cands.map (·.m)) = true ∧
    resolveEncoding st s1 evalFuel ctx1 ((d0.instrs.getD ref default).cands.map (·.m)) {} = .ok (some encs, rep) ∧
    encs.length = 1 ∧ encs.head? = some e ∧ (d.instrs.getD ref default).encoding = e.2

/-- the witness of a marked data element -/
def DW (st : Static) (nodes : List AstNode) (d : Defs) (ref : Nat) : Prop :=
  ∀ pre sz es refs post k, nodes = pre ++ .data sz es refs :: post → refs.getD k 0 = ref →
    ∃ v c b0, (∀ s ctx, resolverEval st s ctx {} (es.getD k default) = .ok (v, c)) ∧ dataEnc true v = .ok (some b0) ∧
      dataCheck true sz (some b0) = .ok () ∧ (d.datas.getD ref default).encoding = dataSlice sz b0

structure Good (st : Static) (nodes : List AstNode) (d0 d : Defs) : Prop where
  rd : d.ruledefs = d0.ruledefs
  kn : ∀ r, (d.sym r).known = (d0.sym r).known
  j : ∀ r, (d0.sym r).known = true → (d.sym r).value ≠ .unknown → (d.sym r).resolved = true
  ic : ∀ ref, (d.instrs.getD ref default).cands = (d0.instrs.getD ref default).cands ∧
    (d.instrs.getD ref default).known = (d0.instrs.getD ref default).known
  dk : ∀ ref, (d.datas.getD ref default).known = (d0.datas.getD ref default).known
  hi : ∀ ref, (d.instrs.getD ref default).resolved = true → IW st nodes d0 d ref
  hd : ∀ ref, (d.datas.getD ref default).resolved = true → DW st nodes d ref

theorem good_init (st : Static) (nodes : List AstNode) (d0 : Defs) (f : FrontOK st nodes d0) : Good st nodes d0 d0 :=
  ⟨rfl, fun _ => rfl, f.j, fun _ => ⟨rfl, rfl⟩, fun _ => rfl,
   fun ref h => (by rw [f.instrsFresh ref] at h; cases h), fun ref h => (by rw [f.datasFresh ref] at h; cases h)⟩

/-- every constant node of a statically known symbol is marked resolved (true after the first pass) -/
def K3 (nodes : List AstNode) (d0 d : Defs) : Prop :=
  ∀ l nm e ne r, AstNode.symbol l nm (.constant e) ne (some r) ∈ nodes → (d0.sym r).known = true → (d.sym r).resolved = true

theorem sym_known_inrange (d : Defs) (r : Nat) (h : (d.sym r).known = true) : r < d.symbols.length := by
  by_cases hl : r < d.symbols.length
  · exact hl
  · exfalso
    unfold Defs.sym at h
    have : d.symbols.getD r none = none := by simp [List.getD_eq_getElem?_getD, Nat.not_lt.mp hl]
    rw [this] at h
    cases h

/-- **one resolver step preserves the invariant** -/
theorem dispatch_good (st : Static) (nodes : List AstNode) (d0 d d' : Defs) (f : FrontOK st nodes d0)
    (pre : List AstNode) (n : AstNode) (post : List AstNode) (hsplit : nodes = pre ++ n :: post)
    (ctx : RCtx) (hctx : ctx.symCtx = ctxAfter st [] (pre ++ [n])) (k : Nat) (s : Bool) (rep : List String)
    (g : Good st nodes d0 d)
    (phase : (ctx.first = true ∧ st.opts.optStatic = true) ∨ (ctx.first = false ∧ K3 nodes d0 d))
    (h : dispatch st d ctx n k = .ok (d', s, rep)) : Good st nodes d0 d' := by
  have fr := dispatch_frame st d d' ctx n k s rep h
  have sf := dispatch_symframe st d d' ctx n k s rep h
  have hmem : n ∈ nodes := by rw [hsplit]; simp
  -- a statically known symbol that is marked resolved is not touched by this step
  have keep : ∀ r, (d0.sym r).known = true → (d.sym r).resolved = true → d'.sym r = d.sym r := by
    intro r hk hres
    by_cases hn : ∃ l nm kd ne, n = .symbol l nm kd ne (some r)
    case neg => exact sf.other r (fun l nm kd ne he => hn ⟨l, nm, kd, ne, he⟩)
    case pos =>
      obtain ⟨l, nm, kd, ne, hn⟩ := hn
      cases kd with
      | label =>
        have := f.labelNotKnown l nm ne r (by rw [← hn]; exact hmem)
        rw [this] at hk; cases hk
      | constant e => rw [sf.constRes l nm e ne r hn hres]
  refine ⟨fr.rd.trans g.rd, fun r => (sf.known r).trans (g.kn r), ?_, fun ref => ?_, fun ref => (fr.dk ref).trans (g.dk ref), ?_, ?_⟩
  · -- J
    intro r hk hv
    by_cases hres : (d.sym r).resolved = true
    · exact sf.res r hres
    · by_cases hn : ∃ l nm kd ne, n = .symbol l nm kd ne (some r)
      case neg =>
        have hn' : ∀ l nm kd ne, n ≠ .symbol l nm kd ne (some r) := fun l nm kd ne he => hn ⟨l, nm, kd, ne, he⟩
        rw [sf.other r hn'] at hv ⊢
        exact g.j r hk hv
      case pos =>
        obtain ⟨l, nm, kd, ne, hn⟩ := hn
        cases kd with
        | label =>
          have := f.labelNotKnown l nm ne r (by rw [← hn]; exact hmem)
          rw [this] at hk; cases hk
        | constant e =>
          rcases phase with ⟨hf, ho⟩ | ⟨_, k3⟩
          · subst hn
            have hd : resolveConstant st d ctx r e = .ok (d', s, rep) := by simpa [dispatch] using h
            have hkd : (d.sym r).known = true := by rw [g.kn r]; exact hk
            rcases (resolveConstant_symframe st d d' ctx l nm ne r e s rep hd).2 ho hf hkd with hl | hr
            · exact absurd (sym_known_inrange d r hkd) (Nat.not_lt.mpr hl)
            · exact hr
          · exact absurd (k3 l nm e ne r (by rw [← hn]; exact hmem) hk) hres
  · exact ⟨(fr.ic ref).1.trans (g.ic ref).1, (fr.ic ref).2.trans (g.ic ref).2⟩
  · -- instruction witnesses
    intro ref hres'
    by_cases hres : (d.instrs.getD ref default).resolved = true
    · obtain ⟨s1, ctx1, encs, rp, e, w1, w2, w3, w4, w5, w6, w7, w8, w9⟩ := g.hi ref hres
      refine ⟨s1, ctx1, encs, rp, e, w1, ?_, w3, w4, w5, w6, w7, w8, ?_⟩
      · intro r hk hv
        have h1 := w2 r hk hv
        have hv' : (d.sym r).value ≠ .unknown := by rw [h1]; exact hv
        rw [keep r hk (g.j r hk hv')]; exact h1
      · rw [fr.ifz ref hres]; exact w9
    · have hres0 : (d.instrs.getD ref default).resolved = false := by simpa using hres
      obtain ⟨⟨src, hn⟩, _, _, hkn, had, encs, rp, e, he, hlen, hhd, henc⟩ :=
        dispatch_new_instr_mark st d d' ctx n k s rep h ref hres0 hres'
      subst hn
      have hsc : ctx.symCtx = ctxAfter st [] pre := by
        rw [hctx]; simp [ctxAfter, stepCtx]
      rw [(g.ic ref).1] at had he
      rw [(g.ic ref).2] at hkn
      refine ⟨d, ctx, encs, rp, e, g.rd, ?_, ?_, ?_, had, he, hlen, hhd, henc⟩
      · intro r hk hv
        rw [keep r hk (g.j r hk hv)]
      · intro pre' src' post' hs'
        rw [hsc]
        exact (f.instrPos pre' src' ref post' pre src post hs' hsplit)
      · rw [hsc]; exact f.instrKnown pre src ref post hsplit hkn
  · -- data witnesses
    intro ref hres'
    by_cases hres : (d.datas.getD ref default).resolved = true
    · intro pre' sz es refs post' k' hs' hr'
      obtain ⟨v, c, b0, w1, w2, w3, w4⟩ := g.hd ref hres pre' sz es refs post' k' hs' hr'
      exact ⟨v, c, b0, w1, w2, w3, by rw [fr.dfz ref hres]; exact w4⟩
    · have hres0 : (d.datas.getD ref default).resolved = false := by simpa using hres
      obtain ⟨sz, es, refs, hn, hrk, _, _, hkn, v, c, b0, hev, hen, hck, henc⟩ :=
        dispatch_new_data_mark st d d' ctx n k s rep h ref hres0 hres'
      subst hn
      intro pre' sz' es' refs' post' k' hs' hr'
      obtain ⟨e1, e2⟩ := f.dataPos pre sz es refs post k pre' sz' es' refs' post' k' hsplit hs' (by rw [hrk, hr'])
      rw [e1, e2]
      have hpure : staticallyKnown pureP (es.getD k default) = true :=
        f.dataKnown pre sz es refs post k hsplit (by rw [hrk, ← g.dk ref]; exact hkn)
      refine ⟨v, c, b0, fun s2 ctx2 => ?_, hen, hck, henc⟩
      rw [pure_static_eval st d s2 ctx ctx2 _ hpure]; exact hev

end Casm
