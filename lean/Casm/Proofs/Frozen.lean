import Casm.Proofs.History
/-!
# Casm.Proofs.Frozen — every first-pass mark keeps a witness of why it is sound

`Good` is the invariant of all passes: what the front end fixed stays fixed, a statically known
symbol with a value is marked resolved, and every marked instruction / data element carries the
state and context in which it was frozen, related to the current state so that
`frozen_instruction_sound` / `pure_static_eval` apply.
-/
namespace Casm

/-- facts about the front end's output used by the history argument (all decidable; evaluated by
    the certificate of every correspondence run) -/
structure FrontOK (st : Static) (nodes : List AstNode) (d0 : Defs) : Prop where
  instrsFresh : ∀ ref, (d0.instrs.getD ref default).resolved = false
  datasFresh : ∀ ref, (d0.datas.getD ref default).resolved = false
  instrPos : ∀ pre src ref post pre' src' post', nodes = pre ++ .instr src (some ref) :: post →
    nodes = pre' ++ .instr src' (some ref) :: post' → ctxAfter st [] pre' = ctxAfter st [] pre
  instrKnown : ∀ pre src ref post, nodes = pre ++ .instr src (some ref) :: post →
    (d0.instrs.getD ref default).known = true →
    ∀ c ∈ (d0.instrs.getD ref default).cands, matchKnown st.decls d0 (ctxAfter st [] pre) 64 c.m = true
  dataKnown : ∀ pre sz es refs post k, nodes = pre ++ .data sz es refs :: post → k < es.length →
    (d0.datas.getD (refs.getD k 0) default).known = true → staticallyKnown pureP (es.getD k default) = true
  dataPos : ∀ pre sz es refs post k pre' sz' es' refs' post' k', nodes = pre ++ .data sz es refs :: post →
    nodes = pre' ++ .data sz' es' refs' :: post' → k < es.length → k' < es'.length → refs.getD k 0 = refs'.getD k' 0 →
    sz' = sz ∧ es'.getD k' default = es.getD k default
  labelNotKnown : ∀ l nm ne r, AstNode.symbol l nm .label ne (some r) ∈ nodes → (d0.sym r).known = false
  j : ∀ r, (d0.sym r).known = true → (d0.sym r).value ≠ .unknown → (d0.sym r).resolved = true

/-- the witness of a marked instruction -/
def IW (st : Static) (nodes : List AstNode) (d0 d : Defs) (ref : Nat) : Prop :=
  ∃ (s1 : Defs) (ctx1 : RCtx) (encs : List (Nat × BI)) (rep : List String) (e : Nat × BI),
    s1.ruledefs = d0.ruledefs ∧
    (∀ r, (d0.sym r).known = true → (s1.sym r).value ≠ .unknown → (d.sym r).value = (s1.sym r).value) ∧
    (∀ pre src post, nodes = pre ++ .instr src (some ref) :: post → ctx1.symCtx = ctxAfter st [] pre) ∧
    (∀ c ∈ (d0.instrs.getD ref default).cands, matchKnown st.decls d0 ctx1.symCtx 64 c.m = true) ∧
    allDefinite st s1 ctx1 ((d0.instrs.getD ref default).cands.map (·.m)) = true ∧
    resolveEncoding st s1 evalFuel ctx1 ((d0.instrs.getD ref default).cands.map (·.m)) {} = .ok (some encs, rep) ∧
    encs.length = 1 ∧ encs.head? = some e ∧ (d.instrs.getD ref default).encoding = e.2

/-- the witness of a marked data element -/
def DW (st : Static) (nodes : List AstNode) (d : Defs) (ref : Nat) : Prop :=
  ∀ pre sz es refs post k, nodes = pre ++ .data sz es refs :: post → k < es.length → refs.getD k 0 = ref →
    ∃ v c b0, (∀ s ctx, resolverEval st s ctx {} (es.getD k default) = .ok (v, c)) ∧ dataEnc true v = .ok (some b0) ∧
      dataCheck true sz (some b0) = .ok () ∧ (d.datas.getD ref default).encoding = dataSlice sz b0

structure Good (st : Static) (nodes : List AstNode) (d0 d : Defs) : Prop where
  rd : d.ruledefs = d0.ruledefs
  kn : ∀ r, (d.sym r).known = (d0.sym r).known
  j : ∀ r, (d0.sym r).known = true → (d.sym r).value ≠ .unknown → (d.sym r).resolved = true
  ic : ∀ ref, (d.instrs.getD ref default).cands = (d0.instrs.getD ref default).cands ∧
    (d.instrs.getD ref default).known = (d0.instrs.getD ref default).known
  dk : ∀ ref, (d.datas.getD ref default).known = (d0.datas.getD ref default).known
  hi : ∀ ref, (d.instrs.getD ref default).resolved = true → IW st nodes d0 d ref
  hd : ∀ ref, (d.datas.getD ref default).resolved = true → DW st nodes d ref

theorem good_init (st : Static) (nodes : List AstNode) (d0 : Defs) (f : FrontOK st nodes d0) : Good st nodes d0 d0 :=
  ⟨rfl, fun _ => rfl, f.j, fun _ => ⟨rfl, rfl⟩, fun _ => rfl,
   fun ref h => (by rw [f.instrsFresh ref] at h; cases h), fun ref h => (by rw [f.datasFresh ref] at h; cases h)⟩

/-- every constant node of a statically known symbol is marked resolved (true after the first pass) -/
def K3 (nodes : List AstNode) (d0 d : Defs) : Prop :=
  ∀ l nm e ne r, AstNode.symbol l nm (.constant e) ne (some r) ∈ nodes → (d0.sym r).known = true → (d.sym r).resolved = true

theorem sym_known_inrange (d : Defs) (r : Nat) (h : (d.sym r).known = true) : r < d.symbols.length := by
  by_cases hl : r < d.symbols.length
  · exact hl
  · exfalso
    unfold Defs.sym at h
    have : d.symbols.getD r none = none := by simp [List.getD_eq_getElem?_getD, Nat.not_lt.mp hl]
    rw [this] at h
    cases h

/-- **one resolver step preserves the invariant** -/
theorem dispatch_good (st : Static) (nodes : List AstNode) (d0 d d' : Defs) (f : FrontOK st nodes d0)
    (pre : List AstNode) (n : AstNode) (post : List AstNode) (hsplit : nodes = pre ++ n :: post)
    (ctx : RCtx) (hctx : ctx.symCtx = ctxAfter st [] (pre ++ [n])) (k : Nat) (hkr : k < nodeElems n) (s : Bool) (rep : List String)
    (g : Good st nodes d0 d)
    (phase : (ctx.first = true ∧ st.opts.optStatic = true) ∨ (ctx.first = false ∧ K3 nodes d0 d))
    (h : dispatch st d ctx n k = .ok (d', s, rep)) : Good st nodes d0 d' := by
  have fr := dispatch_frame st d d' ctx n k s rep h
  have sf := dispatch_symframe st d d' ctx n k s rep h
  have hmem : n ∈ nodes := by rw [hsplit]; simp
  -- a statically known symbol that is marked resolved is not touched by this step
  have keep : ∀ r, (d0.sym r).known = true → (d.sym r).resolved = true → d'.sym r = d.sym r := by
    intro r hk hres
    by_cases hn : ∃ l nm kd ne, n = .symbol l nm kd ne (some r)
    case neg => exact sf.other r (fun l nm kd ne he => hn ⟨l, nm, kd, ne, he⟩)
    case pos =>
      obtain ⟨l, nm, kd, ne, hn⟩ := hn
      cases kd with
      | label =>
        have := f.labelNotKnown l nm ne r (by rw [← hn]; exact hmem)
        rw [this] at hk; cases hk
      | constant e => rw [sf.constRes l nm e ne r hn hres]
  refine ⟨fr.rd.trans g.rd, fun r => (sf.known r).trans (g.kn r), ?_, fun ref => ?_, fun ref => (fr.dk ref).trans (g.dk ref), ?_, ?_⟩
  · -- J
    intro r hk hv
    by_cases hres : (d.sym r).resolved = true
    · exact sf.res r hres
    · by_cases hn : ∃ l nm kd ne, n = .symbol l nm kd ne (some r)
      case neg =>
        have hn' : ∀ l nm kd ne, n ≠ .symbol l nm kd ne (some r) := fun l nm kd ne he => hn ⟨l, nm, kd, ne, he⟩
        rw [sf.other r hn'] at hv ⊢
        exact g.j r hk hv
      case pos =>
        obtain ⟨l, nm, kd, ne, hn⟩ := hn
        cases kd with
        | label =>
          have := f.labelNotKnown l nm ne r (by rw [← hn]; exact hmem)
          rw [this] at hk; cases hk
        | constant e =>
          rcases phase with ⟨hf, ho⟩ | ⟨_, k3⟩
          · subst hn
            have hd : resolveConstant st d ctx r e = .ok (d', s, rep) := by simpa [dispatch] using h
            have hkd : (d.sym r).known = true := by rw [g.kn r]; exact hk
            rcases (resolveConstant_symframe st d d' ctx l nm ne r e s rep hd).2 ho hf hkd with hl | hr
            · exact absurd (sym_known_inrange d r hkd) (Nat.not_lt.mpr hl)
            · exact hr
          · exact absurd (k3 l nm e ne r (by rw [← hn]; exact hmem) hk) hres
  · exact ⟨(fr.ic ref).1.trans (g.ic ref).1, (fr.ic ref).2.trans (g.ic ref).2⟩
  · -- instruction witnesses
    intro ref hres'
    by_cases hres : (d.instrs.getD ref default).resolved = true
    · obtain ⟨s1, ctx1, encs, rp, e, w1, w2, w3, w4, w5, w6, w7, w8, w9⟩ := g.hi ref hres
      refine ⟨s1, ctx1, encs, rp, e, w1, ?_, w3, w4, w5, w6, w7, w8, ?_⟩
      · intro r hk hv
        have h1 := w2 r hk hv
        have hv' : (d.sym r).value ≠ .unknown := by rw [h1]; exact hv
        rw [keep r hk (g.j r hk hv')]; exact h1
      · rw [fr.ifz ref hres]; exact w9
    · have hres0 : (d.instrs.getD ref default).resolved = false := by simpa using hres
      obtain ⟨⟨src, hn⟩, _, _, hkn, had, encs, rp, e, he, hlen, hhd, henc⟩ :=
        dispatch_new_instr_mark st d d' ctx n k s rep h ref hres0 hres'
      subst hn
      have hsc : ctx.symCtx = ctxAfter st [] pre := by
        rw [hctx]; simp [ctxAfter, stepCtx]
      rw [(g.ic ref).1] at had he
      rw [(g.ic ref).2] at hkn
      refine ⟨d, ctx, encs, rp, e, g.rd, ?_, ?_, ?_, had, he, hlen, hhd, henc⟩
      · intro r hk hv
        rw [keep r hk (g.j r hk hv)]
      · intro pre' src' post' hs'
        rw [hsc]
        exact (f.instrPos pre' src' ref post' pre src post hs' hsplit)
      · rw [hsc]; exact f.instrKnown pre src ref post hsplit hkn
  · -- data witnesses
    intro ref hres'
    by_cases hres : (d.datas.getD ref default).resolved = true
    · intro pre' sz es refs post' k' hs' hk' hr'
      obtain ⟨v, c, b0, w1, w2, w3, w4⟩ := g.hd ref hres pre' sz es refs post' k' hs' hk' hr'
      exact ⟨v, c, b0, w1, w2, w3, by rw [fr.dfz ref hres]; exact w4⟩
    · have hres0 : (d.datas.getD ref default).resolved = false := by simpa using hres
      obtain ⟨sz, es, refs, hn, hrk, _, _, hknown, v, c, b0, hev, hen, hck, henc⟩ :=
        dispatch_new_data_mark st d d' ctx n k s rep h ref hres0 hres'
      subst hn
      have hkl : k < es.length := by simpa [nodeElems] using hkr
      intro pre' sz' es' refs' post' k' hs' hk' hr'
      obtain ⟨e1, e2⟩ := f.dataPos pre sz es refs post k pre' sz' es' refs' post' k' hsplit hs' hkl hk' (by rw [hrk, hr'])
      rw [e1, e2]
      have hpure : staticallyKnown pureP (es.getD k default) = true :=
        f.dataKnown pre sz es refs post k hsplit hkl (by rw [hrk, ← g.dk ref]; exact hknown)
      refine ⟨v, c, b0, fun s2 ctx2 => ?_, hen, hck, henc⟩
      rw [pure_static_eval st d s2 ctx ctx2 _ hpure]; exact hev

/-! ## through a node, a pass, the loop -/

/-- the phase of the iteration: in the first pass the known constants met so far are marked; in
    later passes all of them are -/
def PhaseOK (st : Static) (nodes : List AstNode) (d0 : Defs) (first : Bool) (pre : List AstNode) (d : Defs) : Prop :=
  if first = true then st.opts.optStatic = true ∧ K3 pre d0 d else K3 nodes d0 d

theorem K3_mono (l : List AstNode) (d0 a b : Defs) (hres : ∀ r, (a.sym r).resolved = true → (b.sym r).resolved = true)
    (h : K3 l d0 a) : K3 l d0 b := fun lv nm e ne r hm hk => hres r (h lv nm e ne r hm hk)

theorem ctxAfter_snoc (st : Static) (sc : List String) (pre : List AstNode) (n : AstNode) :
    ctxAfter st sc (pre ++ [n]) = stepCtx st (ctxAfter st sc pre) n := by
  simp [ctxAfter]

theorem passNode_good (st : Static) (nodes : List AstNode) (d0 : Defs) (f : FrontOK st nodes d0) (first last : Bool)
    (pre : List AstNode) (n : AstNode) (post : List AstNode) (hsplit : nodes = pre ++ n :: post)
    (ps ps' : PassSt) (k : Nat) (hkn : k < nodeElems n) (g : Good st nodes d0 ps.defs)
    (hsc : stepCtx st ps.symCtx n = ctxAfter st [] (pre ++ [n]))
    (ph : PhaseOK st nodes d0 first pre ps.defs)
    (h : passNode st first last ps n k = .ok ps') :
    Good st nodes d0 ps'.defs ∧ ps'.symCtx = ctxAfter st [] (pre ++ [n]) ∧ PhaseOK st nodes d0 first pre ps'.defs ∧
      (first = true → ∀ l nm e ne r, n = .symbol l nm (.constant e) ne (some r) → (d0.sym r).known = true →
        (ps'.defs.sym r).resolved = true) := by
  rw [passNode_eq'] at h
  split at h
  · cases h
  · rename_i it hv
    split at h
    · cases h
    · rename_i defs stable reported hd
      split at h
      · cases h
      · rename_i it' ha
        injection h with h
        subst h
        simp only
        have phase : (first = true ∧ st.opts.optStatic = true) ∨ (first = false ∧ K3 nodes d0 ps.defs) := by
          unfold PhaseOK at ph
          cases first with
          | true => simp only [if_true] at ph; exact Or.inl ⟨rfl, ph.1⟩
          | false => simp only [Bool.false_eq_true, if_false] at ph; exact Or.inr ⟨rfl, ph⟩
        have g' := dispatch_good st nodes d0 ps.defs defs f pre n post hsplit
          ⟨first, last, stepCtx st ps.symCtx n, it.bank, it.pos⟩ hsc k hkn stable reported g phase hd
        have sf := dispatch_symframe st ps.defs defs _ n k stable reported hd
        refine ⟨g', hsc, ?_, ?_⟩
        · unfold PhaseOK at ph ⊢
          cases first with
          | true =>
            simp only [if_true] at ph ⊢
            exact ⟨ph.1, K3_mono pre d0 ps.defs defs sf.res ph.2⟩
          | false =>
            simp only [Bool.false_eq_true, if_false] at ph ⊢
            exact K3_mono nodes d0 ps.defs defs sf.res ph
        · intro hf l nm e ne r hn hk
          subst hn
          subst hf
          unfold PhaseOK at ph
          simp only [if_true] at ph
          have hdc : resolveConstant st ps.defs ⟨true, last, stepCtx st ps.symCtx (.symbol l nm (.constant e) ne (some r)), it.bank, it.pos⟩ r e
              = .ok (defs, stable, reported) := by simpa [dispatch] using hd
          have hkd : (ps.defs.sym r).known = true := by rw [g.kn r]; exact hk
          rcases (resolveConstant_symframe st ps.defs defs _ l nm ne r e stable reported hdc).2 ph.1 rfl hkd with hl | hr
          · exact absurd (sym_known_inrange ps.defs r hkd) (Nat.not_lt.mpr hl)
          · exact hr

theorem go_good (st : Static) (nodes : List AstNode) (d0 : Defs) (f : FrontOK st nodes d0) (first last : Bool)
    (pre : List AstNode) (n : AstNode) (post : List AstNode) (hsplit : nodes = pre ++ n :: post) :
    ∀ (fuel k : Nat) (ps ps' : PassSt), k + fuel ≤ nodeElems n → Good st nodes d0 ps.defs →
      stepCtx st ps.symCtx n = ctxAfter st [] (pre ++ [n]) → PhaseOK st nodes d0 first pre ps.defs →
      passNodes.go st first last n k fuel ps = .ok ps' →
      Good st nodes d0 ps'.defs ∧ stepCtx st ps'.symCtx n = ctxAfter st [] (pre ++ [n]) ∧ PhaseOK st nodes d0 first pre ps'.defs ∧
        (0 < fuel → ps'.symCtx = ctxAfter st [] (pre ++ [n])) ∧ (fuel = 0 → ps' = ps) ∧
        (0 < fuel → first = true → ∀ l nm e ne r, n = .symbol l nm (.constant e) ne (some r) → (d0.sym r).known = true →
          (ps'.defs.sym r).resolved = true) := by
  intro fuel
  induction fuel with
  | zero =>
    intro k ps ps' _ g hsc ph h
    simp only [passNodes.go] at h
    injection h with h; subst h
    exact ⟨g, hsc, ph, fun h => absurd h (Nat.lt_irrefl 0), fun _ => rfl, fun h => absurd h (Nat.lt_irrefl 0)⟩
  | succ fl ih =>
    intro k ps ps' hkf g hsc ph h
    simp only [passNodes.go] at h
    cases hp : passNode st first last ps n k with
    | error m => rw [hp] at h; cases h
    | ok ps1 =>
      rw [hp] at h
      simp only at h
      obtain ⟨g1, sc1, ph1, r1⟩ := passNode_good st nodes d0 f first last pre n post hsplit ps ps1 k (by omega) g hsc ph hp
      have hsc1 : stepCtx st ps1.symCtx n = ctxAfter st [] (pre ++ [n]) := by
        rw [sc1, ← hsc, stepCtx_idem]
      obtain ⟨g2, sc2, ph2, c2, c3, r2⟩ := ih (k + 1) ps1 ps' (by omega) g1 hsc1 ph1 h
      refine ⟨g2, sc2, ph2, fun _ => ?_, fun h0 => (by cases h0), fun _ hf l nm e ne r hn hk => ?_⟩
      · cases fl with
        | zero => rw [c3 rfl]; exact sc1
        | succ g => exact c2 (Nat.succ_pos g)
      · cases fl with
        | zero => rw [c3 rfl]; exact r1 hf l nm e ne r hn hk
        | succ g => exact r2 (Nat.succ_pos g) hf l nm e ne r hn hk

theorem passNodes_good (st : Static) (nodes : List AstNode) (d0 : Defs) (f : FrontOK st nodes d0) (first last : Bool) :
    ∀ (rest pre : List AstNode) (ps ps' : PassSt), nodes = pre ++ rest → Good st nodes d0 ps.defs →
      ps.symCtx = ctxAfter st [] pre → PhaseOK st nodes d0 first pre ps.defs →
      passNodes st first last rest ps = .ok ps' →
      Good st nodes d0 ps'.defs ∧ PhaseOK st nodes d0 first nodes ps'.defs := by
  intro rest
  induction rest with
  | nil =>
    intro pre ps ps' hs g _ ph h
    simp only [passNodes] at h
    injection h with h; subst h
    have : pre = nodes := by rw [hs]; simp
    rw [this] at ph
    exact ⟨g, ph⟩
  | cons n rest ih =>
    intro pre ps ps' hs g hsc ph h
    rw [passNodes_cons] at h
    cases hg : passNodes.go st first last n 0 (nodeElems n) ps with
    | error e => rw [hg] at h; cases h
    | ok ps1 =>
      rw [hg] at h
      simp only at h
      have hsc0 : stepCtx st ps.symCtx n = ctxAfter st [] (pre ++ [n]) := by rw [ctxAfter_snoc, hsc]
      obtain ⟨g1, _, ph1, c1, c0, r1⟩ := go_good st nodes d0 f first last pre n rest hs (nodeElems n) 0 ps ps1 (by omega) g hsc0 ph hg
      have hsc1 : ps1.symCtx = ctxAfter st [] (pre ++ [n]) := by
        cases hz : nodeElems n with
        | zero =>
          rw [c0 hz, hsc, ctxAfter_snoc, nodeElems_pos_of_symbol st _ n hz]
        | succ m => exact c1 (by rw [hz]; exact Nat.succ_pos m)
      have ph1' : PhaseOK st nodes d0 first (pre ++ [n]) ps1.defs := by
        unfold PhaseOK at ph1 ⊢
        cases first with
        | false => simpa using ph1
        | true =>
          simp only [if_true] at ph1 ⊢
          refine ⟨ph1.1, fun l nm e ne r hm hk => ?_⟩
          rcases List.mem_append.mp hm with hm | hm
          · exact ph1.2 l nm e ne r hm hk
          · have hn : n = .symbol l nm (.constant e) ne (some r) := by
              cases hm with
              | head => rfl
              | tail _ hm => cases hm
            have hpos : 0 < nodeElems n := by rw [hn]; simp [nodeElems]
            exact r1 hpos rfl l nm e ne r hn hk
      exact ih (pre ++ [n]) ps1 ps' (by rw [hs]; simp) g1 hsc1 ph1' h

theorem resolveOnce_good (st : Static) (nodes : List AstNode) (d0 : Defs) (f : FrontOK st nodes d0) (first last : Bool)
    (d d' : Defs) (s : Bool) (rep : List String) (g : Good st nodes d0 d)
    (ph : if first = true then st.opts.optStatic = true else K3 nodes d0 d)
    (h : resolveOnce st nodes first last d = .ok (d', s, rep)) :
    Good st nodes d0 d' ∧ K3 nodes d0 d' := by
  unfold resolveOnce at h
  cases hp : passNodes st first last nodes ⟨d, initIter d.banks, [], true, []⟩ with
  | error e => rw [hp] at h; cases h
  | ok ps' =>
    rw [hp] at h
    injection h with h; injection h with h1 _
    have ph0 : PhaseOK st nodes d0 first [] d := by
      unfold PhaseOK
      cases first with
      | true => simp only [if_true] at ph ⊢; exact ⟨ph, fun _ _ _ _ _ hm => by cases hm⟩
      | false => simpa using ph
    obtain ⟨g', ph'⟩ := passNodes_good st nodes d0 f first last nodes [] ⟨d, initIter d.banks, [], true, []⟩ ps' rfl g rfl ph0 hp
    rw [← h1]
    refine ⟨g', ?_⟩
    unfold PhaseOK at ph'
    cases first with
    | true => simp only [if_true] at ph'; exact ph'.2
    | false => simpa using ph'

/-- **the invariant holds of every state the iteration returns** (static optimisation on, at least
    one pass) -/
theorem iterLoop_good (st : Static) (nodes : List AstNode) (d0 : Defs) (f : FrontOK st nodes d0) (max : Nat)
    (ho : st.opts.optStatic = true) :
    ∀ (fuel i : Nat) (d : Defs) (rep : List String) (k : Nat) (d' : Defs) (rep' : List String) (fin : Bool),
      Good st nodes d0 d → (1 ≤ i → K3 nodes d0 d) → i + fuel = max → 1 ≤ max →
      iterLoop st nodes max fuel i d rep = .ok (k, d', rep', fin) →
      Good st nodes d0 d' ∧ K3 nodes d0 d' := by
  intro fuel
  induction fuel with
  | zero =>
    intro i d rep k d' rep' fin g hk hi hm h
    simp only [iterLoop] at h
    injection h with h; injection h with _ h; injection h with h2 _
    subst h2
    exact ⟨g, hk (by omega)⟩
  | succ n ih =>
    intro i d rep k d' rep' fin g hk hi hm h
    have hlt : ¬ (i ≥ max) := by omega
    simp only [iterLoop, hlt, if_false] at h
    cases hp : resolveOnce st nodes (i + 1 == 1) (i + 1 == max) d with
    | error e => rw [hp] at h; cases e; simp at h
    | ok x =>
      obtain ⟨d1, stable, r⟩ := x
      rw [hp] at h
      simp only at h
      have ph : if (i + 1 == 1) = true then st.opts.optStatic = true else K3 nodes d0 d := by
        by_cases h0 : i = 0
        · subst h0; simp only [Nat.zero_add, beq_self_eq_true, if_true]; exact ho
        · have : (i + 1 == 1) = false := by simp [h0]
          simp only [this, Bool.false_eq_true, if_false]
          exact hk (by omega)
      obtain ⟨g1, k1⟩ := resolveOnce_good st nodes d0 f _ _ d d1 stable r g ph hp
      cases stable with
      | true =>
        simp only [if_true] at h
        split at h
        · injection h with h; injection h with _ h; injection h with h2 _; subst h2; exact ⟨g1, k1⟩
        · injection h with h; injection h with _ h; injection h with h2 _; subst h2; exact ⟨g1, k1⟩
      | false =>
        simp only [Bool.false_eq_true, if_false] at h
        split at h
        · cases h
        · exact ih (i + 1) d1 (rep ++ r) k d' rep' fin g1 (fun _ => k1) (by omega) hm h

theorem resolveIterativelyN_good (st : Static) (nodes : List AstNode) (d0 : Defs) (f : FrontOK st nodes d0) (max : Nat)
    (ho : st.opts.optStatic = true) (hm : 1 ≤ max) (k : Nat) (d : Defs) (rep : List String)
    (h : resolveIterativelyN st nodes max d0 = .ok (k, d, rep)) : Good st nodes d0 d := by
  unfold resolveIterativelyN at h
  cases hl : iterLoop st nodes max max 0 d0 [] with
  | error e => rw [hl] at h; cases h
  | ok x =>
    obtain ⟨i, d1, rep1, fin⟩ := x
    rw [hl] at h
    obtain ⟨g1, k1⟩ := iterLoop_good st nodes d0 f max ho max 0 d0 [] i d1 rep1 fin (good_init st nodes d0 f)
      (fun h0 => by omega) (by omega) hm hl
    cases fin with
    | true =>
      simp only at h
      injection h with h; injection h with _ h; injection h with h2 _; subst h2; exact g1
    | false =>
      simp only at h
      cases hp : resolveOnce st nodes false true d1 with
      | error e => rw [hp] at h; cases e; cases h
      | ok y =>
        obtain ⟨d2, stable, r⟩ := y
        rw [hp] at h
        simp only at h
        split at h
        · injection h with h; injection h with _ h; injection h with h2 _; subst h2
          exact (resolveOnce_good st nodes d0 f false true d1 d2 stable r g1 (by simpa using k1) hp).1
        · cases h

end Casm
