import Casm.Proofs.Quiet
import Casm.Proofs.StableId
/-!
# Casm.Proofs.RepExact — the messages of a successful iteration are those of its confirming pass

Passes that are not the last report nothing (`Quiet`); with a budget of at least two the last pass
is a strict, non-first, stable pass on the final state, and its messages are all there is.
-/
namespace Casm

theorem iterLoop_fix_rep (st : Static) (nodes : List AstNode) (max : Nat) (hmax : 2 ≤ max) (hwf : NoClash nodes) :
    ∀ (fuel i : Nat) (d : Defs) (k : Nat) (d' : Defs) (rep' : List String) (fin : Bool),
      iterLoop st nodes max fuel i d [] = .ok (k, d', rep', fin) → i + fuel = max → (1 ≤ i → NodesOK d nodes) →
      (fin = true → resolveOnce st nodes false true d' = .ok (d', true, rep')) ∧
      (fin = false → rep' = [] ∧ ((1 ≤ i ∨ 1 ≤ fuel) → NodesOK d' nodes)) := by
  intro fuel
  induction fuel with
  | zero =>
    intro i d k d' rep' fin h _ hinv
    simp only [iterLoop] at h
    injection h with h; injection h with h1 h; injection h with h2 h; injection h with h3 h4
    subst h2 h3 h4
    refine ⟨(fun hf => by cases hf), fun _ => ⟨rfl, fun hor => ?_⟩⟩
    rcases hor with hi | hf
    · exact hinv hi
    · omega
  | succ n ih =>
    intro i d k d' rep' fin h hi hinv
    have hlt : ¬ (i ≥ max) := by omega
    simp only [iterLoop, hlt, if_false] at h
    cases hp : resolveOnce st nodes (i + 1 == 1) (i + 1 == max) d with
    | error e => rw [hp] at h; cases e; simp at h
    | ok x =>
      obtain ⟨d1, stable, r⟩ := x
      rw [hp] at h
      simp only [List.nil_append] at h
      have hok1 : NodesOK d1 nodes := pass_establishes_ok st nodes _ _ d d1 stable r hp hwf
      by_cases hl : (i + 1 == max) = true
      · -- the last pass
        cases stable with
        | true =>
          simp only [if_true, hl] at h
          injection h with h; injection h with h1 h; injection h with h2 h; injection h with h3 h4
          subst h2 h3 h4
          refine ⟨fun _ => ?_, fun hf => by cases hf⟩
          have hi1 : 1 ≤ i := by
            have : i + 1 = max := by simpa using hl
            omega
          have hfirst : (i + 1 == 1) = false := by
            have : i + 1 ≠ 1 := by omega
            simpa using this
          rw [hfirst, hl] at hp
          have hid : d1 = d := resolveOnce_stable_id st nodes true d d1 r hp (hinv hi1)
          rw [hid] at hp ⊢
          exact hp
        | false =>
          simp only [Bool.false_eq_true, if_false, hl, if_true] at h
          cases h
      · have hl' : (i + 1 == max) = false := by simpa using hl
        rw [hl'] at hp
        have hq := resolveOnce_quiet st nodes _ d d1 stable r hp
        subst hq
        cases stable with
        | true =>
          simp only [if_true, hl', Bool.false_eq_true, if_false] at h
          injection h with h; injection h with h1 h; injection h with h2 h; injection h with h3 h4
          subst h2 h3 h4
          exact ⟨(fun hf => by cases hf), fun _ => ⟨rfl, fun _ => hok1⟩⟩
        | false =>
          simp only [Bool.false_eq_true, if_false, hl'] at h
          have := ih (i + 1) d1 k d' rep' fin h (by omega) (fun _ => hok1)
          exact ⟨this.1, fun hf => ⟨(this.2 hf).1, fun _ => (this.2 hf).2 (Or.inl (by omega))⟩⟩

/-- **the messages of a successful iteration are exactly those of the strict pass on its final state**
    (budget at least two) -/
theorem resolveIterativelyN_rep (st : Static) (nodes : List AstNode) (max : Nat) (hmax : 2 ≤ max) (hwf : NoClash nodes)
    (d0 : Defs) (k : Nat) (d : Defs) (rep : List String) (h : resolveIterativelyN st nodes max d0 = .ok (k, d, rep)) :
    resolveOnce st nodes false true d = .ok (d, true, rep) := by
  unfold resolveIterativelyN at h
  cases hl : iterLoop st nodes max max 0 d0 [] with
  | error e => rw [hl] at h; cases h
  | ok x =>
    obtain ⟨i, d1, rep1, fin⟩ := x
    rw [hl] at h
    have hfix := iterLoop_fix_rep st nodes max hmax hwf max 0 d0 i d1 rep1 fin hl (by omega) (fun h0 => by omega)
    cases fin with
    | true =>
      simp only at h
      injection h with h; injection h with h1 h; injection h with h2 h3
      subst h1 h2 h3
      exact hfix.1 rfl
    | false =>
      simp only at h
      obtain ⟨hr1, hokf⟩ := hfix.2 rfl
      subst hr1
      cases hp : resolveOnce st nodes false true d1 with
      | error e => rw [hp] at h; cases e; cases h
      | ok y =>
        obtain ⟨d2, stable, r⟩ := y
        rw [hp] at h
        cases stable with
        | false => simp at h
        | true =>
          simp only [if_true, List.nil_append] at h
          injection h with h; injection h with h1 h; injection h with h2 h3
          subst h1 h2 h3
          have hok : NodesOK d1 nodes := hokf (Or.inr (by omega))
          have hid : d2 = d1 := resolveOnce_stable_id st nodes true d1 d2 r hp hok
          rw [hid] at hp ⊢
          exact hp

end Casm
