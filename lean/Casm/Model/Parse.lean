import Casm.Model.Ast
import Casm.Model.Walker
import Casm.Model.Literal
import Casm.Gen.Consts
/-!
# Casm.Model.Parse — `src/expr/parser.rs` and `src/asm/parser/*.rs`

Expression parser and top-level parser over the lazy walker (`Src`).  The binary-operator
levels are *data* (`Gen.precedence`, re-extracted from parser.rs on every run); recursion is
structural on a fuel argument; the recursion-depth counter is the Rust one.  Errors are the
Rust diagnostic texts.
-/
namespace Casm

def printable : TokKind → String
  | .Identifier => "identifier" | .Number => "number" | .String => "string"
  | .ParenOpen => "`(`" | .ParenClose => "`)`" | .BracketOpen => "`[`" | .BracketClose => "`]`"
  | .BraceOpen => "`{`" | .BraceClose => "`}`" | .Comma => "`,`" | .Colon => "`:`"
  | .LineBreak => "line break" | .Hash => "`#`" | .Equal => "`=`" | .HeavyArrowRight => "`=>`"
  | .Dot => "`.`" | .KeywordAsm => "`asm` keyword"
  | k => Gen.tokKindName k

def expect (k : TokKind) (s : Src) : Except String (Tok × Src) :=
  match maybeExpect k s with
  | some r => .ok r
  | none => .error s!"expected {printable k}"

def expectLinebreak (s : Src) : Except String Src :=
  match maybeExpectLinebreak s with
  | some r => .ok r
  | none => .error "expected line break"

def findOp {α} (ops : List (TokKind × α)) (s : Src) : Option (α × Src) :=
  match ops with
  | [] => none
  | (k, op) :: rest =>
    match maybeExpect k s with
    | some (_, s') => some (op, s')
    | none => findOp rest s

def depthErr : String := "expression recursion depth limit reached"
def fuelErr : String := "model: out of fuel"

abbrev PR := Except String (Expr × Src)

/-- `interpret_typename` -/
def interpretTypename (name : List Char) : ParamTy :=
  match name with
  | c :: rest =>
    if c == 'u' || c == 's' || c == 'i' then
      -- `usize::from_str_radix(rest, 10)`: optional `+`, at least one digit, below 2^64
      let ds := match rest with
        | '+' :: r => r
        | _ => rest
      if !ds.isEmpty && ds.all (fun d => '0' ≤ d && d ≤ '9') then
        let v := ds.foldl (fun a d => a * 10 + (d.toNat - 48)) 0
        if v < 2 ^ 64 then
          (if c == 'u' then .unsigned v else if c == 's' then .signed v else .integer v)
        else .ruledef (String.ofList name)
      else .ruledef (String.ofList name)
    else .ruledef (String.ofList name)
  | [] => .ruledef ""

def lowerAscii (c : Char) : Char := if 'A' ≤ c && c ≤ 'Z' then Char.ofNat (c.toNat + 32) else c

def TokKind.isAllowedPattern (k : TokKind) : Bool := Gen.allowedPatternKinds.contains k

/-- `usize::from_str_radix(s, 10)` for directive names `dN` -/
def parseUsizeDec (s : List Char) : Option Nat :=
  let ds := match s with
    | '+' :: r => r
    | _ => s
  if !ds.isEmpty && ds.all (fun d => '0' ≤ d && d ≤ '9') then
    let v := ds.foldl (fun a d => a * 10 + (d.toNat - 48)) 0
    if v < 2 ^ 64 then some v else none
  else none

structure Field where
  name : String
  expr : Option Expr
deriving Inhabited

def extractField (fs : List Field) (name : String) : Option Field × List Field :=
  match fs.find? (·.name == name) with
  | some f => (some f, fs.filter (·.name != name))
  | none => (none, fs)

/-- the `fill` field of a bank definition: absent = false, `fill` alone = true, `fill = true` / `fill = false` = the literal;
    anything else is "expected boolean literal" (finding F65, repaired: the field's presence was taken for its value) -/
def fillValue (fill : Option Field) : Except String Bool :=
  match fill with
  | none => .ok false
  | some f =>
    match f.expr with
    | none => .ok true
    | some (.lit (.bool b)) => .ok b
    | some _ => .error "expected boolean literal"

mutual
/-- `parse_expr` -/
def parseExpr : Nat → Nat → Src → PR
  | 0, _, _ => .error fuelErr
  | fuel + 1, d, s =>
    if d + 1 > Gen.PARSE_RECURSION_DEPTH_MAX then .error depthErr
    else parseTernary fuel (d + 1) s

def parseTernary : Nat → Nat → Src → PR
  | 0, _, _ => .error fuelErr
  | fuel + 1, d, s =>
    match parseAssignment fuel d s with
    | .error e => .error e
    | .ok (cond, s) =>
      match maybeExpect .Question s with
      | none => .ok (cond, s)
      | some (_, s) =>
        match parseExpr fuel d s with
        | .error e => .error e
        | .ok (t, s) =>
          match maybeExpect .Colon s with
          | none => .ok (.tern cond t (.block []), s)
          | some (_, s) =>
            match parseExpr fuel d s with
            | .error e => .error e
            | .ok (f, s) => .ok (.tern cond t f, s)

def parseAssignment : Nat → Nat → Src → PR
  | 0, _, _ => .error fuelErr
  | fuel + 1, d, s =>
    match parseLevel fuel d Gen.precedence s with
    | .error e => .error e
    | .ok (lhs, s) =>
      match findOp Gen.assignOps s with
      | none => .ok (lhs, s)
      | some (op, s) =>
        match parseExpr fuel d s with
        | .error e => .error e
        | .ok (rhs, s) => .ok (.bin op lhs rhs, s)

/-- one `parse_binary_ops` level; `[]` = the function below the chain (`parse_slice`) -/
def parseLevel : Nat → Nat → List (List (TokKind × BinOp)) → Src → PR
  | 0, _, _, _ => .error fuelErr
  | fuel + 1, d, [], s => parseSlice fuel d s
  | fuel + 1, d, ops :: rest, s =>
    match parseLevel fuel d rest s with
    | .error e => .error e
    | .ok (lhs, s) => parseLevelLoop fuel d ops rest lhs s

def parseLevelLoop : Nat → Nat → List (TokKind × BinOp) → List (List (TokKind × BinOp)) → Expr → Src → PR
  | 0, _, _, _, _, _ => .error fuelErr
  | fuel + 1, d, ops, rest, lhs, s =>
    if nextLinebreak s then .ok (lhs, s)
    else match findOp ops s with
      | none => .ok (lhs, s)
      | some (op, s) =>
        match parseLevel fuel d rest s with
        | .error e => .error e
        | .ok (rhs, s) => parseLevelLoop fuel d ops rest (.bin op lhs rhs) s

def parseSlice : Nat → Nat → Src → PR
  | 0, _, _ => .error fuelErr
  | fuel + 1, d, s =>
    match parseSliceShort fuel d s with
    | .error e => .error e
    | .ok (inner, s) =>
      if nextLinebreak s then .ok (inner, s)
      else match maybeExpect .BracketOpen s with
        | none => .ok (inner, s)
        | some (_, s) =>
          match parseExpr fuel d s with
          | .error e => .error e
          | .ok (hi, s) =>
            match expect .Colon s with
            | .error e => .error e
            | .ok (_, s) =>
              match parseExpr fuel d s with
              | .error e => .error e
              | .ok (lo, s) =>
                match expect .BracketClose s with
                | .error e => .error e
                | .ok (_, s) => .ok (.slice hi lo inner, s)

def parseSliceShort : Nat → Nat → Src → PR
  | 0, _, _ => .error fuelErr
  | fuel + 1, d, s =>
    match parseUnary fuel d s with
    | .error e => .error e
    | .ok (inner, s) =>
      if nextLinebreak s then .ok (inner, s)
      else match maybeExpect .Grave s with
        | none => .ok (inner, s)
        | some (_, s) =>
          match parseLeaf fuel d s with
          | .error e => .error e
          | .ok (size, s) => .ok (.sliceShort size inner, s)

/-- `parse_unary_ops` -/
def parseUnary : Nat → Nat → Src → PR
  | 0, _, _ => .error fuelErr
  | fuel + 1, d, s =>
    match findOp Gen.unaryOps s with
    | some (op, s) =>
      if d + 1 > Gen.PARSE_RECURSION_DEPTH_MAX then .error depthErr
      else match parseUnary fuel (d + 1) s with
        | .error e => .error e
        | .ok (inner, s) => .ok (.un op inner, s)
    | none => parseCall fuel d s

def parseCall : Nat → Nat → Src → PR
  | 0, _, _ => .error fuelErr
  | fuel + 1, d, s =>
    match parseLeaf fuel d s with
    | .error e => .error e
    | .ok (leaf, s) =>
      if nextLinebreak s then .ok (leaf, s)
      else match maybeExpect .ParenOpen s with
        | none => .ok (leaf, s)
        | some (_, s) =>
          match parseArgs fuel d [] s with
          | .error e => .error e
          | .ok (args, s) =>
            match expect .ParenClose s with
            | .error e => .error e
            | .ok (_, s) => .ok (.call leaf args, s)

def parseArgs : Nat → Nat → List Expr → Src → Except String (List Expr × Src)
  | 0, _, _, _ => .error fuelErr
  | fuel + 1, d, acc, s =>
    if nextUsefulKind s == .ParenClose then .ok (acc.reverse, s)
    else match parseExpr fuel d s with
      | .error e => .error e
      | .ok (e, s) =>
        if nextUsefulKind s == .ParenClose then .ok ((e :: acc).reverse, s)
        else match expect .Comma s with
          | .error e => .error e
          | .ok (_, s) => parseArgs fuel d (e :: acc) s

def parseLeaf : Nat → Nat → Src → PR
  | 0, _, _ => .error fuelErr
  | fuel + 1, d, s =>
    match nextUsefulKind s with
    | .BraceOpen =>
      match expect .BraceOpen s with
      | .error e => .error e
      | .ok (_, s) =>
        match parseBlockItems fuel d [] s with
        | .error e => .error e
        | .ok (es, s) =>
          match expect .BraceClose s with
          | .error e => .error e
          | .ok (_, s) => .ok (.block es, s)
    | .ParenOpen =>
      match expect .ParenOpen s with
      | .error e => .error e
      | .ok (_, s) =>
        match parseExpr fuel d s with
        | .error e => .error e
        | .ok (e, s) =>
          match expect .ParenClose s with
          | .error e => .error e
          | .ok (_, s) => .ok (e, s)
    | .Identifier => parseVariable fuel s
    | .Dot => parseVariable fuel s
    | .Number =>
      match expect .Number s with
      | .error e => .error e
      | .ok (tk, s) =>
        match excerptAsBigint tk.text with
        | .ok b => .ok (.lit (.int b), s)
        | .error .invalidDigits => .error "invalid digits"
        | .error .invalidValue => .error "invalid value"
        | .error .empty => .error "panic: empty excerpt"
    | .String =>
      match expect .String s with
      | .error e => .error e
      | .ok (tk, s) =>
        match stringContents tk.text with
        | some c => .ok (.lit (.str c .utf8), s)
        | none => .error "invalid escape sequence"
    | .KeywordAsm =>
      match expect .KeywordAsm s with
      | .error e => .error e
      | .ok (_, s) =>
        match expect .BraceOpen s with
        | .error e => .error e
        | .ok (_, s) =>
          let (inner, rest) := untilClosingBrace s 0 []
          -- the block is parsed now (syntax errors surface at parse time); the evaluator re-parses the same text
          match parseNested fuel inner [] with
          | .error e => .error e
          | .ok _ =>
            match expect .BraceClose rest with
            | .error e => .error e
            | .ok (_, s) => .ok (.asm inner, s)
    | .KeywordTrue =>
      match expect .KeywordTrue s with
      | .error e => .error e
      | .ok (_, s) => .ok (.lit (.bool true), s)
    | .KeywordFalse =>
      match expect .KeywordFalse s with
      | .error e => .error e
      | .ok (_, s) => .ok (.lit (.bool false), s)
    | _ => .error "expected expression"

def parseBlockItems : Nat → Nat → List Expr → Src → Except String (List Expr × Src)
  | 0, _, _, _ => .error fuelErr
  | fuel + 1, d, acc, s =>
    if nextUsefulKind s == .BraceClose then .ok (acc.reverse, s)
    else match parseExpr fuel d s with
      | .error e => .error e
      | .ok (e, s) =>
        match maybeExpectLinebreak s with
        | some s => parseBlockItems fuel d (e :: acc) s
        | none =>
          if nextUsefulKind s == .BraceClose then .ok ((e :: acc).reverse, s)
          else match expect .Comma s with
            | .error e => .error e
            | .ok (_, s) => parseBlockItems fuel d (e :: acc) s

/-- `parse_variable`: leading dots, then `name(.name)*` -/
def parseVariable : Nat → Src → PR
  | 0, _ => .error fuelErr
  | fuel + 1, s =>
    let (level, s) := parseDots fuel 0 s
    match parseNames fuel [] s with
    | .error e => .error e
    | .ok (names, s) => .ok (.var level names, s)

def parseDots : Nat → Nat → Src → Nat × Src
  | 0, n, s => (n, s)
  | fuel + 1, n, s =>
    if nextLinebreak s then (n, s)
    else match maybeExpect .Dot s with
      | some (_, s) => parseDots fuel (n + 1) s
      | none => (n, s)

def parseNames : Nat → List String → Src → Except String (List String × Src)
  | 0, _, _ => .error fuelErr
  | fuel + 1, acc, s =>
    match expect .Identifier s with
    | .error e => .error e
    | .ok (tk, s) =>
      let acc := String.ofList tk.text :: acc
      if nextLinebreak s then .ok (acc.reverse, s)
      else match maybeExpect .Dot s with
        | none => .ok (acc.reverse, s)
        | some (_, s) => parseNames fuel acc s

-- ---------------- top level ----------------

/-- `parse_nested_toplevel`: lines until the text ends or a closing brace is next -/
def parseNested : Nat → Src → List AstNode → Except String (List AstNode × Src)
  | 0, _, _ => .error fuelErr
  | fuel + 1, s, acc =>
    if isOver s || nextUsefulKind s == .BraceClose then .ok (acc.reverse, s)
    else match parseLine fuel s with
      | .error e => .error e
      | .ok (some n, s) => parseNested fuel s (n :: acc)
      | .ok (none, s) => parseNested fuel s acc

/-- `parse`: lines until the text ends -/
def parseTop : Nat → Src → List AstNode → Except String (List AstNode)
  | 0, _, _ => .error fuelErr
  | fuel + 1, s, acc =>
    if isOver s then .ok acc.reverse
    else match parseLine fuel s with
      | .error e => .error e
      | .ok (some n, s) => parseTop fuel s (n :: acc)
      | .ok (none, s) => parseTop fuel s acc

def parseLine : Nat → Src → Except String (Option AstNode × Src)
  | 0, _ => .error fuelErr
  | fuel + 1, s =>
    if nextUsefulKind s == .Hash then
      match parseDirective fuel s with
      | .error e => .error e
      | .ok (n, s) => .ok (some n, s)
    else if nextUsefulKind s == .Identifier && (nthUsefulKind 1 s == .Colon || nthUsefulKind 1 s == .Equal) then
      match parseSymbol fuel s false with
      | .error e => .error e
      | .ok (n, s) => .ok (some n, s)
    else if nextUsefulKind s == .Dot then
      match parseSymbol fuel s false with
      | .error e => .error e
      | .ok (n, s) => .ok (some n, s)
    else match maybeExpectLinebreak s with
      | some s => .ok (none, s)
      | none =>
        -- instruction: `skip_ignorable`, `advance_until_linebreak`, `expect_linebreak`
        let s := skipIgnorable s
        let (line, rest) := untilLinebreak s
        match expectLinebreak rest with
        | .error e => .error e
        | .ok s => .ok (some (.instr line), s)

/-- `symbol::parse` (and the tail of `directive_const::parse` with `noEmit`) -/
def parseSymbol : Nat → Src → Bool → Except String (AstNode × Src)
  | 0, _, _ => .error fuelErr
  | fuel + 1, s, noEmit =>
    let (level, s) := countDots fuel 0 s
    match expect .Identifier s with
    | .error e => .error e
    | .ok (tk, s) =>
      let name := String.ofList tk.text
      match maybeExpect .Equal s with
      | some (_, s) =>
        match parseExpr fuel 0 s with
        | .error e => .error e
        | .ok (e, s) =>
          match expectLinebreak s with
          | .error e => .error e
          | .ok s => .ok (.symbol level name (.constant e) noEmit, s)
      | none =>
        match expect .Colon s with
        | .error e => .error e
        | .ok (_, s) => .ok (.symbol level name .label false, s)

/-- `while let Some(tk_dot) = walker.maybe_expect(Dot)` -/
def countDots : Nat → Nat → Src → Nat × Src
  | 0, n, s => (n, s)
  | fuel + 1, n, s =>
    match maybeExpect .Dot s with
    | some (_, s) => countDots fuel (n + 1) s
    | none => (n, s)

def parseDirective : Nat → Src → Except String (AstNode × Src)
  | 0, _ => .error fuelErr
  | fuel + 1, s =>
    match expect .Hash s with
    | .error e => .error e
    | .ok (_, s) =>
      match expect .Identifier s with
      | .error e => .error e
      | .ok (tk, s) =>
        let name := tk.text.map lowerAscii
        let dataSize : Option (Option Nat) :=
          match name with
          | ['d'] => some none
          | 'd' :: rest => (parseUsizeDec rest).map some
          | _ => none
        match dataSize with
        | some sz => parseData fuel sz [] s
        | none =>
          match String.ofList name with
          | "addr" => parseExprDirective fuel s (fun e => .addr e)
          | "align" => parseExprDirective fuel s (fun e => .align e)
          | "res" => parseExprDirective fuel s (fun e => .res e)
          | "assert" => parseExprDirective fuel s .assert
          | "bank" =>
            match expect .Identifier s with
            | .error e => .error e
            | .ok (tk, s) =>
              match expectLinebreak s with
              | .error e => .error e
              | .ok s => .ok (.bank (String.ofList tk.text), s)
          | "bankdef" => parseBankdef fuel s
          | "bits" => .error "standalone `#bits` is deprecated; use it inside a `#bankdef`"
          | "labelalign" => .error "standalone `#labelalign` is deprecated; use it inside a `#bankdef`"
          | "noemit" => .error "`#noemit` is deprecated; use `#const(noemit)` at each constant declaration"
          | "const" =>
            match maybeExpect .ParenOpen s with
            | some (_, s) =>
              match expect .Identifier s with
              | .error e => .error e
              | .ok (tk, s) =>
                if String.ofList tk.text == "noemit" then
                  match expect .ParenClose s with
                  | .error e => .error e
                  | .ok (_, s) => parseConstTail fuel s true
                else .error s!"invalid attribute `{String.ofList tk.text}`"
            | none => parseConstTail fuel s false
          | "fn" => parseFn fuel s
          | "if" => parseIf fuel s
          | "include" =>
            match expect .String s with
            | .error e => .error e
            | .ok (tk, s) =>
              match stringContents tk.text with
              | none => .error "invalid escape sequence"
              | some f =>
                match expectLinebreak s with
                | .error e => .error e
                | .ok s => .ok (.include f, s)
          | "once" =>
            match expectLinebreak s with
            | .error e => .error e
            | .ok s => .ok (.once, s)
          | "ruledef" => parseRuledef fuel s false
          | "subruledef" => parseRuledef fuel s true
          | n => .error s!"unknown directive `{n}`"

def parseExprDirective : Nat → Src → (Expr → AstNode) → Except String (AstNode × Src)
  | 0, _, _ => .error fuelErr
  | fuel + 1, s, mk =>
    match parseExpr fuel 0 s with
    | .error e => .error e
    | .ok (e, s) =>
      match expectLinebreak s with
      | .error e => .error e
      | .ok s => .ok (mk e, s)

/-- `directive_const::parse` after the optional attribute: requires `=` -/
def parseConstTail : Nat → Src → Bool → Except String (AstNode × Src)
  | 0, _, _ => .error fuelErr
  | fuel + 1, s, noEmit =>
    let (level, s) := countDots fuel 0 s
    match expect .Identifier s with
    | .error e => .error e
    | .ok (tk, s) =>
      match expect .Equal s with
      | .error e => .error e
      | .ok (_, s) =>
        match parseExpr fuel 0 s with
        | .error e => .error e
        | .ok (e, s) =>
          match expectLinebreak s with
          | .error e => .error e
          | .ok s => .ok (.symbol level (String.ofList tk.text) (.constant e) noEmit, s)

/-- `directive_data::parse` -/
def parseData : Nat → Option Nat → List Expr → Src → Except String (AstNode × Src)
  | 0, _, _, _ => .error fuelErr
  | fuel + 1, sz, acc, s =>
    match parseExpr fuel 0 s with
    | .error e => .error e
    | .ok (e, s) =>
      let acc := e :: acc
      match maybeExpect .Comma s with
      | some (_, s') =>
        if nextLinebreak s' then
          match expectLinebreak s' with
          | .error e => .error e
          | .ok s => .ok (.data sz acc.reverse, s)
        else parseData fuel sz acc s'
      | none =>
        match expectLinebreak s with
        | .error e => .error e
        | .ok s => .ok (.data sz acc.reverse, s)

/-- `fields::parse` -/
def parseFields : Nat → List Field → Src → Except String (List Field × Src)
  | 0, _, _ => .error fuelErr
  | fuel + 1, acc, s =>
    if nextUsefulKind s == .BraceClose then .ok (acc, s)
    else
      let (depHash, s) := match maybeExpect .Hash s with
        | some (_, s) => (true, s)
        | none => (false, s)
      match expect .Identifier s with
      | .error e => .error e
      | .ok (tk, s) =>
        let name := String.ofList tk.text
        if acc.any (·.name == name) then .error s!"duplicate field `{name}`"
        else
          let r : Except String (Option Expr × Src) :=
            if depHash && !(nextLinebreak s) then
              (parseExpr fuel 0 s).map fun (e, s) => (some e, s)
            else match maybeExpect .Equal s with
              | some (_, s) => (parseExpr fuel 0 s).map fun (e, s) => (some e, s)
              | none => .ok (none, s)
          match r with
          | .error e => .error e
          | .ok (me, s) =>
            let acc := acc ++ [⟨name, me⟩]
            match maybeExpect .Comma s with
            | some (_, s) => parseFields fuel acc s
            | none =>
              match maybeExpectLinebreak s with
              | some s => parseFields fuel acc s
              | none => .ok (acc, s)

def parseBankdef : Nat → Src → Except String (AstNode × Src)
  | 0, _ => .error fuelErr
  | fuel + 1, s =>
    match expect .Identifier s with
    | .error e => .error e
    | .ok (tk, s) =>
      match expect .BraceOpen s with
      | .error e => .error e
      | .ok (_, s) =>
        match parseFields fuel [] s with
        | .error e => .error e
        | .ok (fs, s) =>
          let (bits, fs) := extractField fs "bits"
          let (la, fs) := extractField fs "labelalign"
          let (addr, fs) := extractField fs "addr"
          let (addrEnd, fs) := extractField fs "addr_end"
          let (size, fs) := extractField fs "size"
          let (outp, fs) := extractField fs "outp"
          let (fill, fs) := extractField fs "fill"
          -- `fill` alone, or `fill = true` / `fill = false` (finding F65, repaired: any value meant true)
          match fillValue fill with
          | .error e => .error e
          | .ok fillB =>
          match fs with
          | f :: _ => .error s!"invalid field `{f.name}`"
          | [] =>
            match expect .BraceClose s with
            | .error e => .error e
            | .ok (_, s) =>
              match expectLinebreak s with
              | .error e => .error e
              | .ok s =>
                let ex (f : Option Field) : Option Expr := f.bind (·.expr)
                .ok (.bankdef ⟨String.ofList tk.text, ex bits, ex la, ex addr, ex addrEnd, ex size, ex outp, fillB⟩, s)

def parseFn : Nat → Src → Except String (AstNode × Src)
  | 0, _ => .error fuelErr
  | fuel + 1, s =>
    match expect .Identifier s with
    | .error e => .error e
    | .ok (tk, s) =>
      match expect .ParenOpen s with
      | .error e => .error e
      | .ok (_, s) =>
        match parseFnParams fuel [] s with
        | .error e => .error e
        | .ok (ps, s) =>
          match expect .ParenClose s with
          | .error e => .error e
          | .ok (_, s) =>
            match expect .HeavyArrowRight s with
            | .error e => .error e
            | .ok (_, s) =>
              match parseExpr fuel 0 s with
              | .error e => .error e
              | .ok (body, s) => .ok (.fn (String.ofList tk.text) ps body, s)

def parseFnParams : Nat → List String → Src → Except String (List String × Src)
  | 0, _, _ => .error fuelErr
  | fuel + 1, acc, s =>
    if isOver s || nextUsefulKind s == .ParenClose then .ok (acc.reverse, s)
    else match expect .Identifier s with
      | .error e => .error e
      | .ok (tk, s) =>
        let s := match maybeExpect .Comma s with
          | some (_, s) => s
          | none => s
        parseFnParams fuel (String.ofList tk.text :: acc) s

/-- `directive_if::parse` (after `#if` / `#elif`) -/
def parseIf : Nat → Src → Except String (AstNode × Src)
  | 0, _ => .error fuelErr
  | fuel + 1, s =>
    match parseExpr fuel 0 s with
    | .error e => .error e
    | .ok (cond, s) =>
      match parseBraced fuel s with
      | .error e => .error e
      | .ok (t, s) =>
        -- `parse_else_blocks`
        if nextUsefulKind s == .Hash && nthUsefulKind 1 s == .Identifier then
          match maybeExpect .Hash s with
          | none => .ok (.ifDir cond t none, s)
          | some (_, s1) =>
            match maybeExpect .Identifier s1 with
            | none => .ok (.ifDir cond t none, s)
            | some (tk, s2) =>
              if String.ofList tk.text == "else" then
                match parseBraced fuel s2 with
                | .error e => .error e
                | .ok (f, s) => .ok (.ifDir cond t (some f), s)
              else if String.ofList tk.text == "elif" then
                match parseIf fuel s2 with
                | .error e => .error e
                | .ok (n, s) => .ok (.ifDir cond t (some [n]), s)
              else .ok (.ifDir cond t none, s)
        else .ok (.ifDir cond t none, s)

def parseBraced : Nat → Src → Except String (List AstNode × Src)
  | 0, _ => .error fuelErr
  | fuel + 1, s =>
    match expect .BraceOpen s with
    | .error e => .error e
    | .ok (_, s) =>
      match parseNested fuel s [] with
      | .error e => .error e
      | .ok (ns, s) =>
        match expect .BraceClose s with
        | .error e => .error e
        | .ok (_, s) => .ok (ns, s)

/-- `directive_ruledef::parse` -/
def parseRuledef : Nat → Src → Bool → Except String (AstNode × Src)
  | 0, _, _ => .error fuelErr
  | fuel + 1, s, sub =>
    let (name, s) := match maybeExpect .Identifier s with
      | some (tk, s) => (some (String.ofList tk.text), s)
      | none => (none, s)
    match expect .BraceOpen s with
    | .error e => .error e
    | .ok (_, s) =>
      match parseRules fuel sub [] s with
      | .error e => .error e
      | .ok (rules, s) =>
        match expect .BraceClose s with
        | .error e => .error e
        | .ok (_, s) =>
          match expectLinebreak s with
          | .error e => .error e
          | .ok s => .ok (.ruledef name sub rules, s)

def parseRules : Nat → Bool → List RuleAst → Src → Except String (List RuleAst × Src)
  | 0, _, _, _ => .error fuelErr
  | fuel + 1, sub, acc, s =>
    if nextUsefulKind s == .BraceClose then .ok (acc.reverse, s)
    else
      match parsePattern fuel sub [] (skipIgnorable s) with
      | .error e => .error e
      | .ok (pattern, usedEmpty, s) =>
        match expect .HeavyArrowRight s with
        | .error e => .error e
        | .ok (_, s) =>
          if pattern.isEmpty && !usedEmpty then .error "expected pattern"
          else match parseExpr fuel 0 s with
            | .error e => .error e
            | .ok (e, s) =>
              match expectLinebreak s with
              | .error e => .error e
              | .ok s => parseRules fuel sub (⟨pattern, e⟩ :: acc) s

/-- the pattern loop of `parse_rule`; returns the parts, whether the `{}` specifier was used -/
def parsePattern : Nat → Bool → List PatPart → Src → Except String (List PatPart × Bool × Src)
  | 0, _, _, _ => .error fuelErr
  | fuel + 1, sub, acc, s =>
    if isOver s || nextUsefulKind s == .HeavyArrowRight then .ok (acc, false, s)
    else
      let tk := tokenAt s
      let s := s.drop tk.text.length
      if tk.kind == .BraceOpen then
        match (if acc.isEmpty && sub then maybeExpect .BraceClose s else none) with
        | some (_, s) => .ok (acc, true, s)
        | none =>
          -- `parse_rule_parameter`
          match expect .Identifier s with
          | .error e => .error e
          | .ok (nameTk, s) =>
            let r : Except String (ParamTy × Src) :=
              match maybeExpect .Colon s with
              | some (_, s) =>
                match expect .Identifier s with
                | .error e => .error e
                | .ok (tyTk, s) => .ok (interpretTypename tyTk.text, s)
              | none => .ok (.unspecified, s)
            match r with
            | .error e => .error e
            | .ok (ty, s) =>
              match expect .BraceClose s with
              | .error e => .error e
              | .ok (_, s) => parsePattern fuel sub (acc ++ [.param (String.ofList nameTk.text) ty]) s
      else if tk.kind.isAllowedPattern then
        parsePattern fuel sub (acc ++ tk.text.map (fun c => .exact (lowerAscii c))) s
      else if tk.kind == .Whitespace then parsePattern fuel sub (acc ++ [.whitespace]) s
      else .error "invalid pattern token"
end

def parseFuel (s : Src) : Nat := 4000 + 40 * s.length

/-- `expr::parse` on a fresh walker over `s` -/
def parseExprText (s : List Char) : PR := parseExpr (parseFuel s) 0 s

/-- `asm::parser::parse` on a whole file -/
def parseFile (s : List Char) : Except String (List AstNode) := parseTop (parseFuel s) s []

end Casm
