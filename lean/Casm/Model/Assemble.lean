import Casm.Model.Resolve
/-!
# Casm.Model.Assemble — `src/asm/mod.rs` (`assemble`), the item resolvers of
`src/asm/resolver/*.rs`, `resolve_once` / `resolve_iteratively`, include expansion,
declaration collection, `#if` splicing, definitions, `match_all`, and output building.
-/
namespace Casm

/-! ## per-item resolvers: `(defs', stable, reported)` -/

abbrev ItemRes := Except String (Defs × Bool × List String)

def valuesStable (a b : Value) : Bool :=
  match a, b with
  | .int x, .int y => x.v == y.v && x.size == y.size
  | x, y => x == y

/-- `resolve_label` -/
def resolveLabel (_st : Static) (defs : Defs) (ctx : RCtx) (ref : Nat) : ItemRes :=
  match evalAddress defs ctx ctx.canGuess with
  | .error e => .error e
  | .ok a =>
    let s := defs.sym ref
    let nv : Value := .int ⟨a, none⟩
    -- (`symbol.bankdef_ref` is only read by the Mesen symbol format; the listing model takes it from the run)
    let defs' := defs.setSym ref { s with value := nv }
    let same := match s.value with
      | .int x => x.v == a
      | _ => false
    if !same then .ok (defs', false, if ctx.last then ["label address did not converge"] else [])
    else .ok (defs', true, [])

/-- `resolve_constant` -/
def resolveConstant (st : Static) (defs : Defs) (ctx : RCtx) (ref : Nat) (e : Expr) : ItemRes :=
  let s := defs.sym ref
  if s.resolved then .ok (defs, true, [])
  else match resolverEval st defs ctx {} e with
    | .error m => .error m
    | .ok (v, _) =>
      let prev := s.value
      -- the first-pass mark does not hide a change of the value (items before this one have not seen it)
      let defs' := defs.setSym ref { s with value := v, resolved := st.opts.optStatic && ctx.first && s.known }
      if !valuesStable v prev then .ok (defs', false, if ctx.last then ["constant value did not converge"] else [])
      else .ok (defs', true, [])

/-- no candidate is still `Unresolved` (it might yet become the smallest encoding) -/
def allDefinite (st : Static) (defs : Defs) (ctx : RCtx) (cands : List IMatch) : Bool :=
  match resolveMatches st defs (evalFuel - 1) ctx cands {} [] with
  | .ok (rs, _) => rs.all fun r => match r with | .unresolved => false | _ => true
  | .error _ => false

/-- `resolve_instruction` -/
def resolveInstruction (st : Static) (defs : Defs) (ctx : RCtx) (ref : Nat) : ItemRes :=
  let ins := defs.instrs.getD ref default
  if ins.resolved then .ok (defs, true, [])
  else match resolveEncoding st defs evalFuel ctx (ins.cands.map (·.m)) {} with
    | .error m => .error m
    | .ok (encs, reported) =>
      let hasAny := encs.isSome
      let single := match encs with | some l => l.length == 1 | none => false
      let chosen : Option BI := encs.bind fun l => l.head?.map (·.2)
      let stable := match chosen with
        | some e => e.v == ins.encoding.v && e.size == ins.encoding.size
        | none => false
      match chosen with
      | some e =>
        if st.opts.optStatic && ctx.first && ins.known && single && allDefinite st defs ctx (ins.cands.map (·.m)) then
          .ok ({ defs with instrs := defs.instrs.set ref { ins with encoding := e, resolved := true } }, true, reported)
        else
          let defs' := { defs with instrs := defs.instrs.set ref { ins with encoding := e } }
          if !stable then
            .ok (defs', false, reported ++ (if ctx.last && hasAny then ["instruction encoding did not converge"] else []))
          else .ok (defs', true, reported)
      | none => .ok (defs, false, reported)

/-- `expect_error_or_bigint` of a data element's value (`must` = the value has to be known now) -/
def dataEnc (must : Bool) (v : Value) : Except String (Option BI) :=
  match v with
  | .int b => .ok (some b)
  | .str s en => .ok (some (strToBigint s en))
  | .unknown => if must then .error "failed to resolve data element" else .ok none
  | .failed msg => if must then .error msg else .ok none
  | _ => .error "expected integer"

/-- the range / definite-size check of a data element -/
def dataCheck (must : Bool) (elemSize : Option Nat) (enc : Option BI) : Except String Unit :=
  if must then
    match enc with
    | some b =>
      match elemSize with
      | some n => if b.sizeOrMin > n then .error "value out of range for directive" else .ok ()
      | none => if b.size.isNone then .error "data element has no definite size" else .ok ()
    | none => .error "panic: unwrap on None"
  else .ok ()

def dataSlice (elemSize : Option Nat) (b : BI) : BI :=
  match elemSize with
  | some n => b.slice n 0
  | none => b.slice b.sizeOrMin 0

/-- storing the sliced value and comparing it with the previous one -/
def dataStore (st : Static) (defs : Defs) (ctx : RCtx) (ref : Nat) (sliced : Option BI) : ItemRes :=
  let d := defs.datas.getD ref default
  match sliced with
  | some b =>
    if st.opts.optStatic && ctx.first && d.known && b.size.isSome then
      .ok ({ defs with datas := defs.datas.set ref { d with encoding := b, resolved := true } }, true, [])
    else
      let defs' := { defs with datas := defs.datas.set ref { d with encoding := b } }
      if !(b.v == d.encoding.v && b.size == d.encoding.size) then
        .ok (defs', false, if ctx.last then ["data element did not converge"] else [])
      else .ok (defs', true, [])
  | none => .ok (defs, false, if ctx.last then ["data element did not converge"] else [])

/-- `resolve_data_element` -/
def resolveData (st : Static) (defs : Defs) (ctx : RCtx) (ref : Nat) (elemSize : Option Nat) (e : Expr) : ItemRes :=
  let d := defs.datas.getD ref default
  if d.resolved then .ok (defs, true, [])
  else match resolverEval st defs ctx {} e with
    | .error m => .error m
    | .ok (v, _) =>
      let must := ctx.last || d.known
      match dataEnc must v with
      | .error m => .error m
      | .ok enc =>
        match dataCheck must elemSize enc with
        | .error m => .error m
        | .ok _ => dataStore st defs ctx ref (enc.map (dataSlice elemSize))

/-- `resolve_res` -/
def resolveRes (st : Static) (defs : Defs) (ctx : RCtx) (ref : Nat) (e : Expr) : ItemRes :=
  match resolverEval st defs ctx {} e with
  | .error m => .error m
  | .ok (v, _) =>
    let n : Except String Nat := match v with
      | .int b => if 0 ≤ b.v ∧ b.v < (2 ^ 32 : Nat) then .ok b.v.toNat else .error outOfRange
      | .str s en => let b := strToBigint s en; if 0 ≤ b.v ∧ b.v < (2 ^ 32 : Nat) then .ok b.v.toNat else .error outOfRange
      | .unknown => .ok 0
      | .failed _ => .ok 0
      | _ => .error "expected integer"
    match n with
    | .error m => .error m
    | .ok n =>
      let unit := (defs.banks.getD ctx.bank defaultBank).addrUnit
      let prev := defs.res.getD ref 0
      let nv := n * unit
      let defs' := { defs with res := defs.res.set ref nv }
      if nv ≥ USIZE_MAX1 then .error outOfRange
      else if nv != prev then .ok (defs', false, if ctx.last then ["reserve size did not converge"] else [])
      else .ok (defs', true, [])

/-- `resolve_align` -/
def resolveAlign (st : Static) (defs : Defs) (ctx : RCtx) (ref : Nat) (e : Expr) : ItemRes :=
  match resolverEval st defs ctx {} e with
  | .error m => .error m
  | .ok (v, _) =>
    let n : Except String Nat := match v with
      | .int b => match toUsize b.v with | some n => .ok n | none => .error outOfRange
      | .unknown => .ok 0
      | .failed _ => .ok 0
      | _ => .error "expected non-negative integer"
    match n with
    | .error m => .error m
    | .ok n =>
      let prev := defs.aligns.getD ref 0
      let defs' := { defs with aligns := defs.aligns.set ref n }
      if n != prev then .ok (defs', false, if ctx.last then ["alignment size did not converge"] else [])
      else if ctx.last && n == 0 then .error "invalid alignment size"
      else .ok (defs', true, [])

/-- `resolve_addr` -/
def resolveAddr (st : Static) (defs : Defs) (ctx : RCtx) (ref : Nat) (e : Expr) : ItemRes :=
  match resolverEval st defs ctx {} e with
  | .error m => .error m
  | .ok (v, _) =>
    let a : Except String Int := match v with
      | .int b => .ok b.v
      | .str s en => .ok (strToBigint s en).v
      | .unknown => .ok 0
      | .failed _ => .ok 0
      | _ => .error "expected integer"
    match a with
    | .error m => .error m
    | .ok a =>
      let prev := defs.addrs.getD ref 0
      let defs' := { defs with addrs := defs.addrs.set ref a }
      if a != prev then .ok (defs', false, if ctx.last then ["address did not converge"] else [])
      else if ctx.last then
        let b := defs.banks.getD ctx.bank defaultBank
        if a < b.addrStart then .error "address is out of bank range"
        else
          let delta := (a - b.addrStart) * b.addrUnit
          if delta ≥ (2 ^ 64 : Nat) then .error outOfRange
          else match b.size with
            | some sz => if delta.toNat ≥ sz then .error "address is out of bank range" else .ok (defs', true, [])
            | none => .ok (defs', true, [])
      else .ok (defs', true, [])

/-- `resolve_assert` -/
def resolveAssert (st : Static) (defs : Defs) (ctx : RCtx) (e : Expr) : ItemRes :=
  if !ctx.last then .ok (defs, false, [])
  else match resolverEval st defs ctx {} e with
    | .error m => .error m
    | .ok (v, _) =>
      match v with
      | .bool true => .ok (defs, true, [])
      | .bool false => .ok (defs, true, ["assertion failed"])
      | _ => .error "expected boolean"

/-! ## one pass -/

def layErrMsg : LayErr → String
  | .bankOverlap => "output of bank overlaps with bank"
  | .defaultBank => "usage of the default bank while custom banks are defined"
  | .outOfRange => "output out of range for bank"
  | .nonWritable => "output to non-writable bank"
  | .overlap => "output overlap"
  | .misaligned => "position is not aligned to an address"
  | .valueRange => "value is out of supported range"
  | .badBank => "model: bad bank"

/-- the resolved item an AST node (element `k` of a data directive) currently stands for -/
def nodeItem (st : Static) (defs : Defs) (n : AstNode) (k : Nat) : RItem :=
  match n with
  | .bank _ (some r) => .bank r
  | .bankdef _ (some r) => .bank r
  | .symbol _ _ kind _ (some r) =>
    let depth := (st.decls.symbols.decls.getD r default).depth
    match kind with
    | .label => .label depth (match (defs.sym r).value with | .int b => b.v | _ => 0)
    | .constant _ => .const depth
  | .instr _ (some r) => .emit (List.replicate ((defs.instrs.getD r default).encoding.size.getD 0) false)
  | .data _ _ refs => .emit (List.replicate ((defs.datas.getD (refs.getD k 0) default).encoding.size.getD 0) false)
  | .res _ (some r) => .res (defs.res.getD r 0)
  | .align _ (some r) => .align (defs.aligns.getD r 0)
  | .addr _ (some r) => .addr (defs.addrs.getD r 0)
  | _ => .other

structure PassSt where
  defs : Defs
  it : IterSt
  symCtx : List String
  stable : Bool
  reported : List String

/-- visiting one node (element `k` of a data directive) in `resolve_once` -/
def passNode (st : Static) (first last : Bool) (ps : PassSt) (n : AstNode) (k : Nat) : Except String PassSt :=
  -- `ResolveIterator::next`: bank switch / symbol context / labelalign
  let symCtx := match n with
    | .symbol _ _ _ _ (some r) => (st.decls.symbols.decls.getD r default).ctx
    | _ => ps.symCtx
  match visit ps.defs.banks ps.it (nodeItem st ps.defs n k) with
  | .error e => .error (layErrMsg e)
  | .ok it =>
    let ctx : RCtx := ⟨first, last, symCtx, it.bank, it.pos⟩
    let r : ItemRes :=
      match n with
      | .symbol _ _ kind _ (some ref) =>
        match kind with
        | .label => resolveLabel st ps.defs ctx ref
        | .constant e => resolveConstant st ps.defs ctx ref e
      | .instr _ (some ref) => resolveInstruction st ps.defs ctx ref
      | .data sz es refs => resolveData st ps.defs ctx (refs.getD k 0) sz (es.getD k default)
      | .res e (some ref) => resolveRes st ps.defs ctx ref e
      | .align e (some ref) => resolveAlign st ps.defs ctx ref e
      | .addr e (some ref) => resolveAddr st ps.defs ctx ref e
      | .assert e => resolveAssert st ps.defs ctx e
      | _ => .ok (ps.defs, true, [])
    match r with
    | .error m => .error m
    | .ok (defs, stable, reported) =>
      -- `advance_address` (performed at the start of the following `next`) with the updated item
      match advance defs.banks it (nodeItem st defs n k) with
      | .error e => .error (layErrMsg e)
      | .ok it' => .ok ⟨defs, it', symCtx, ps.stable && stable, ps.reported ++ reported⟩

def passNodes (st : Static) (first last : Bool) : List AstNode → PassSt → Except (String × List String) PassSt
  | [], ps => .ok ps
  | n :: rest, ps =>
    let elems := match n with
      | .data _ es _ => es.length
      | _ => 1
    let rec go (k : Nat) (fuel : Nat) (ps : PassSt) : Except (String × List String) PassSt :=
      match fuel with
      | 0 => .ok ps
      | fuel + 1 =>
        match passNode st first last ps n k with
        | .error m => .error (m, ps.reported)
        | .ok ps' => go (k + 1) fuel ps'
    match go 0 elems ps with
    | .error e => .error e
    | .ok ps' => passNodes st first last rest ps'

/-- `resolve_once`: `(defs', stable, reported)`; a fatal error carries the messages reported before it -/
def resolveOnce (st : Static) (nodes : List AstNode) (first last : Bool) (defs : Defs) :
    Except (String × List String) (Defs × Bool × List String) :=
  match passNodes st first last nodes ⟨defs, initIter defs.banks, [], true, []⟩ with
  | .error e => .error e
  | .ok ps => .ok (ps.defs, ps.stable, ps.reported)

/-! ## the iteration loop (`resolve_iteratively`) -/

/-- result of the loop: all messages reported (in order), and the iteration count on success -/
def iterLoop (st : Static) (nodes : List AstNode) (max : Nat) : Nat → Nat → Defs → List String →
    Except (List String) (Nat × Defs × List String × Bool)
  -- returns (iterations done, defs, reported so far, finished := true when the loop returned Ok directly)
  | 0, i, defs, rep => .ok (i, defs, rep, false)
  | fuel + 1, i, defs, rep =>
    if i ≥ max then .ok (i, defs, rep, false)
    else
      let it := i + 1
      let first := it == 1
      let last := it == max
      match resolveOnce st nodes first last defs with
      | .error (m, r) => .error (rep ++ r ++ [m])
      | .ok (defs', stable, r) =>
        if stable then
          if last then .ok (it, defs', rep ++ r, true) else .ok (it, defs', rep ++ r, false)
        else if last then .error (rep ++ r ++ ["did not converge"])
        else iterLoop st nodes max fuel it defs' (rep ++ r)

/-- `resolve_iteratively`: `ok (iterations, defs, reported)` or all error messages -/
def resolveIterativelyN (st : Static) (nodes : List AstNode) (max : Nat) (defs : Defs) : Except (List String) (Nat × Defs × List String) :=
  match iterLoop st nodes max max 0 defs [] with
  | .error e => .error e
  | .ok (i, defs, rep, true) => .ok (i, defs, rep)
  | .ok (i, defs, rep, false) =>
    match resolveOnce st nodes false true defs with
    | .error (m, r) => .error (rep ++ r ++ [m])
    | .ok (defs', stable, r) =>
      if stable then .ok (i, defs', rep ++ r) else .error (rep ++ r ++ ["did not converge"])

/-- the budget of the outer loop is `--iters` (the same option also bounds the loops of `asm` blocks, see `evalAsm`) -/
def resolveIteratively (st : Static) (nodes : List AstNode) (defs : Defs) : Except (List String) (Nat × Defs × List String) :=
  resolveIterativelyN st nodes st.opts.maxIter defs

end Casm

namespace Casm

/-! ## parsing with inclusion (`parse_many_and_resolve_includes`) -/

abbrev SrcFiles := List (List Char × List Nat)

def SrcFiles.text (fs : SrcFiles) (name : List Char) : Option (List Char) :=
  (fs.find? (·.1 == name)).map fun f => bytesToChars f.2

mutual
def includeFile (fs : SrcFiles) : Nat → List Char → List (List Char) → List (List Char) →
    Except String (List AstNode × List (List Char))
  | 0, _, _, _ => .error "model: out of fuel"
  | fuel + 1, name, seen, once =>
    if once.contains name then .ok ([], once)
    else match fs.text name with
      | none => .error "file not found"
      | some text =>
        match parseFile text with
        | .error e => .error e
        | .ok nodes =>
          let once := if nodes.any (fun n => match n with | .once => true | _ => false) then name :: once else once
          includeNodes fs fuel name nodes seen once []

def includeNodes (fs : SrcFiles) : Nat → List Char → List AstNode → List (List Char) → List (List Char) → List AstNode →
    Except String (List AstNode × List (List Char))
  | 0, _, _, _, _, _ => .error "model: out of fuel"
  | _ + 1, _, [], _, once, acc => .ok (acc.reverse, once)
  | fuel + 1, name, n :: rest, seen, once, acc =>
    match n with
    | .include rel =>
      match filenameNavigate name rel with
      | .error .invalidFilename => .error "invalid filename"
      | .error .outOfProject => .error "cannot navigate out of project directory"
      | .ok inc =>
        if seen.contains inc then .error "recursive file inclusion"
        else match includeFile fs fuel inc (inc :: seen) once with
          | .error e => .error e
          | .ok (inner, once') => includeNodes fs fuel name rest seen once' (inner.reverse ++ acc)
    | _ => includeNodes fs fuel name rest seen once (n :: acc)
end

def includeFuel (fs : SrcFiles) : Nat := (fs.foldl (fun n f => n + f.2.length + 4) 8) * (fs.length + 3)

def parseManyAux (fs : SrcFiles) (fuel : Nat) : List (List Char) → List (List Char) → List AstNode →
    Except String (List AstNode)
  | [], _, acc => .ok acc
  | r :: rest, once, acc =>
    match includeFile fs fuel r [] once with
    | .error e => .error e
    | .ok (nodes, once') => parseManyAux fs fuel rest once' (acc ++ nodes)

def parseMany (fs : SrcFiles) (roots : List (List Char)) : Except String (List AstNode) :=
  parseManyAux fs (includeFuel fs) roots [] []

/-! ## declarations (`decls::collect`) -/

def mapNodesE {ε σ} (f : σ → AstNode → Except ε (σ × AstNode)) : σ → List AstNode → List AstNode → Except ε (σ × List AstNode)
  | s, [], acc => .ok (s, acc.reverse)
  | s, n :: rest, acc =>
    match f s n with
    | .error e => .error e
    | .ok (s', n') => mapNodesE f s' rest (n' :: acc)

def collectBankdefs (d : Decls) (nodes : List AstNode) : Except String (Decls × List AstNode) :=
  mapNodesE (fun d n => match n with
    | .bankdef b none =>
      match d.banks.declare [] b.name 0 .other with
      | .error e => .error e
      | .ok (r, m) => .ok ({ d with banks := m }, .bankdef b (some r))
    | n => .ok (d, n)) d nodes []

def collectBanks (d : Decls) (nodes : List AstNode) : Except String (Decls × List AstNode) :=
  mapNodesE (fun d n => match n with
    | .bank name none =>
      match d.banks.getByName [] 0 [name] with
      | .error e => .error e
      | .ok r => .ok (d, .bank name (some r))
    | n => .ok (d, n)) d nodes []

def collectRuledefs (d : Decls) (nodes : List AstNode) : Except String (Decls × List AstNode) :=
  mapNodesE (fun d n => match n with
    | .ruledef name sub rules none =>
      let nm := name.getD s!"#anonymous_ruledef_{d.ruledefs.decls.length}"
      match d.ruledefs.declare [] nm 0 .other with
      | .error e => .error e
      | .ok (r, m) => .ok ({ d with ruledefs := m }, .ruledef name sub rules (some r))
    | n => .ok (d, n)) d nodes []

def collectSymbols (d : Decls) (nodes : List AstNode) : Except String (Decls × List AstNode) :=
  match mapNodesE (fun (st : Decls × List String) n => match n with
    | .symbol level name kind ne ref =>
      match ref with
      | some r => .ok ((st.1, (st.1.symbols.decls.getD r default).ctx), n)
      | none =>
        let k := match kind with | .label => DeclKind.label | .constant _ => DeclKind.constant
        match st.1.symbols.declare st.2 name level k with
        | .error e => .error e
        | .ok (r, m) =>
          let d' := { st.1 with symbols := m }
          .ok ((d', (m.decls.getD r default).ctx), .symbol level name kind ne (some r))
    | n => .ok (st, n)) (d, []) nodes [] with
  | .error e => .error e
  | .ok ((d, _), ns) => .ok (d, ns)

def collectFunctions (d : Decls) (nodes : List AstNode) : Except String (Decls × List AstNode) :=
  mapNodesE (fun d n => match n with
    | .fn name ps body none =>
      match d.symbols.declare [] name 0 .function with
      | .error e => .error e
      | .ok (r, m) => .ok ({ d with symbols := m }, .fn name ps body (some r))
    | n => .ok (d, n)) d nodes []

def collectAll (d : Decls) (nodes : List AstNode) : Except String (Decls × List AstNode) := do
  let (d, nodes) ← collectBankdefs d nodes
  let (d, nodes) ← collectBanks d nodes
  let (d, nodes) ← collectRuledefs d nodes
  let (d, nodes) ← collectSymbols d nodes
  collectFunctions d nodes

/-! ## `define_symbols`, `resolve_constants_simple`, `resolve_ifs` -/

def asmBuiltinKnown (n : String) : Bool := isAsmBuiltinName n

def padTo {α} (l : List α) (n : Nat) (x : α) : List α := l ++ List.replicate (n + 1 - l.length) x

/-- `symbol::define` -/
def defineSymbols (defs : Defs) (nodes : List AstNode) : Defs :=
  nodes.foldl (fun defs n => match n with
    | .symbol _ _ kind ne (some r) =>
      if ((defs.symbols.getD r none).isSome) then defs
      else
        let known := match kind with
          | .constant e => staticallyKnown { queryFunction := asmBuiltinKnown } e
          | .label => false
        { defs with symbols := (padTo defs.symbols r none).set r (some { noEmit := ne, known := known }) }
    | _ => defs) defs

/-- `eval_simple` -/
def evalSimple (d : Decls) (defs : Defs) (e : Expr) : Except String Value :=
  let env : EvalEnv :=
    { var := fun level path =>
        if level == 0 && (path == ["$"] || path == ["pc"]) then .ok .unknown
        else if level == 0 && (match path with | [n] => isAsmBuiltinName n | _ => false) then
          -- built-in functions take precedence over symbols, as in `evalVariable`
          .ok (.asmBuiltin (path.head?.getD ""))
        else match d.symbols.tryGetByName [] level path with
          | some r => match defs.symbols.getD r none with
            | some s => .ok s.value
            | none => .ok .unknown
          | none => .ok .unknown
      fn := fun _ _ _ => .ok .unknown
      asm := fun _ _ => .ok .unknown }
  match eval env {} e with
  | .error m => .error m
  | .ok (.failed msg, _) => .error msg
  | .ok (v, _) => .ok v

/-- `resolve_constants_simple`: the new definitions and the number of constants resolved -/
def resolveConstantsSimple (opts : Opts) (d : Decls) (defs : Defs) (nodes : List AstNode) : Except String (Defs × Nat) :=
  nodes.foldl (fun acc n =>
    match acc with
    | .error e => .error e
    | .ok (defs, count) =>
      match n with
      | .symbol _ _ (.constant e) _ (some r) =>
        let s := defs.sym r
        if s.resolved then .ok (defs, count + 1)
        else
          let fullName := (d.symbols.decls.getD r default).name
          match opts.defines.find? (·.1 == fullName) with
          | some dv => .ok (defs.setSym r { s with value := dv.2, resolved := true }, count + 1)
          | none =>
            match evalSimple d defs e with
            | .error m => .error m
            | .ok v =>
              let s' := { s with value := v }
              match v with
              | .unknown => .ok (defs.setSym r s', count)
              | _ =>
                if opts.optStatic && s.known then .ok (defs.setSym r { s' with resolved := true }, count + 1)
                else .ok (defs.setSym r s', count + 1)
      | _ => .ok (defs, count)) (.ok (defs, 0))

/-- a node as the parser delivers it: item references are assigned only by the declaration and
    definition passes, never by the parser (this function is the identity on parser output; it makes
    that fact visible where nodes enter the passes: after parsing and when an `#if` arm is spliced) -/
def AstNode.fresh : AstNode → AstNode
  | .addr e _ => .addr e none
  | .align e _ => .align e none
  | .bank name _ => .bank name none
  | .bankdef b _ => .bankdef b none
  | .data sz es _ => .data sz es []
  | .fn name ps body _ => .fn name ps body none
  | .res e _ => .res e none
  | .ruledef name sub rules _ => .ruledef name sub rules none
  | .instr src _ => .instr src none
  | .symbol level name kind ne _ => .symbol level name kind ne none
  | n => n

/-- `resolve_ifs`: from the last node to the first; returns the new node list and the count -/
def resolveIfs (d : Decls) (defs : Defs) (nodes : List AstNode) : Except String (List AstNode × Nat) :=
  -- process in reverse, building the result from the back
  nodes.reverse.foldl (fun acc n =>
    match acc with
    | .error e => .error e
    | .ok (out, count) =>
      match n with
      | .ifDir cond t f =>
        match evalSimple d defs cond with
        | .error m => .error m
        | .ok (.bool true) => .ok (t.map AstNode.fresh ++ out, count + 1)
        | .ok (.bool false) => .ok ((f.getD []).map AstNode.fresh ++ out, count + 1)
        | .ok _ => .ok (n :: out, count)
      | _ => .ok (n :: out, count)) (.ok ([], 0))

/-- `eval_certain` -/
def evalCertain (d : Decls) (defs : Defs) (e : Expr) : Except String Value :=
  let env : EvalEnv :=
    { var := fun level path =>
        if level == 0 && (path == ["$"] || path == ["pc"]) then .error "cannot get address in this context"
        else match d.symbols.getByName [] level path with
          | .error m => .error m
          | .ok r =>
            match (defs.symbols.getD r none).map (·.value) with
            | none => .error s!"unresolved symbol `{displayName level path}`"
            | some .unknown => .error s!"unresolved symbol `{displayName level path}`"
            | some v => .ok v
      fn := fun _ _ _ => .ok .unknown
      asm := fun _ _ => .ok .unknown }
  match eval env {} e with
  | .error m => .error m
  | .ok (.unknown, _) => .error "cannot resolve expression"
  | .ok (.failed msg, _) => .error msg
  | .ok (v, _) => .ok v

/-- `check_leftover_ifs` -/
def checkLeftoverIfs (d : Decls) (defs : Defs) (nodes : List AstNode) : Except String Unit :=
  match nodes.find? (fun n => match n with | .ifDir _ _ _ => true | _ => false) with
  | some (.ifDir cond _ _) =>
    match evalCertain d defs cond with
    | .error m => .error m
    | .ok _ => .error "unresolved condition"
  | _ => .ok ()

/-- the first loop of `assemble` -/
def declLoop (opts : Opts) : Nat → Decls → Defs → List AstNode → Nat → Except String (Decls × Defs × List AstNode)
  | 0, _, _, _, _ => .error "model: out of fuel"
  | fuel + 1, d, defs, nodes, prevCount =>
    match collectAll d nodes with
    | .error e => .error e
    | .ok (d, nodes) =>
      let defs := defineSymbols defs nodes
      match resolveConstantsSimple opts d defs nodes with
      | .error e => .error e
      | .ok (defs, count) =>
        match resolveIfs d defs nodes with
        | .error e => .error e
        | .ok (nodes', ifs) =>
          if count == prevCount && ifs == 0 then .ok (d, defs, nodes')
          else declLoop opts fuel d defs nodes' count

/-! ## `define_remaining` -/

/-- `eval_certain(...).expect_usize` etc. for bank definitions -/
def defineBank (d : Decls) (defs : Defs) (b : BankdefAst) : Except String Bank :=
  let ev (e : Option Expr) : Except String (Option Value) :=
    match e with
    | none => .ok none
    | some e => (evalCertain d defs e).map some
  let usize (v : Value) : Except String Nat := expectUsize v
  let nonzero (v : Value) : Except String Nat :=
    match v with
    | .int b => match toUsize b.v with
      | some 0 => .error outOfRange
      | some n => .ok n
      | none => .error outOfRange
    | .unknown => .error "value is unknown"
    | _ => .error "expected positive integer"
  let bigint (v : Value) : Except String Int :=
    match v with
    | .int b => .ok b.v
    | .unknown => .error "value is unknown"
    | _ => .error "expected integer"
  do
    let unitV ← ev b.addrUnit
    let unit ← match unitV with | some v => nonzero v | none => .ok 8
    let laV ← ev b.labelAlign
    let la ← match laV with | some v => (usize v).map some | none => .ok none
    let startV ← ev b.addrStart
    let start ← match startV with | some v => bigint v | none => .ok 0
    let sizeV ← ev b.addrSize
    let size ← match sizeV with | some v => (usize v).map some | none => .ok none
    let endV ← ev b.addrEnd
    let endA ← match endV with | some v => (bigint v).map some | none => .ok none
    let addrSize ← match size, endA with
      | none, none => .ok none
      | some s, none => .ok (some s)
      | none, some e =>
        match toUsize (e - start) with
        | some n => .ok (some n)
        | none => .error outOfRange
      | some _, some _ => .error "both `addr_end` and `size` defined"
    let outpV ← ev b.outp
    let outp ← match outpV with | some v => (usize v).map some | none => .ok none
    -- the size in bits has to fit a `usize`
    let sizeBits ← match addrSize with
      | none => .ok none
      | some s => if s * unit < USIZE_MAX1 then .ok (some (s * unit)) else .error outOfRange
    -- the bank's window in the output has to be addressable (finding F81, repaired: `outp + position` wrapped)
    let _ ← (match sizeBits, outp with
      | some sz, some o => if o + sz < USIZE_MAX1 then .ok () else .error outOfRange
      | _, _ => .ok () : Except String Unit)
    pure ⟨start, unit, la, sizeBits, outp, b.fill⟩

def defineRule (d : Decls) (r : RuleAst) : Except String Rule :=
  let res : Except String (List RPart × Nat × List (String × RParamTy)) := r.pattern.foldl (fun acc p =>
    match acc with
    | .error e => .error e
    | .ok (parts, exact, params) =>
      match p with
      | .whitespace => .ok (parts ++ [RPart.whitespace], exact, params)
      | .exact c => .ok (parts ++ [.exact c], exact + 1, params)
      | .param name ty =>
        let t : Except String RParamTy := match ty with
          | .unspecified => .ok .unspecified
          | .integer n => .ok (.integer n)
          | .unsigned n => .ok (.unsigned n)
          | .signed n => .ok (.signed n)
          | .ruledef rn => (d.ruledefs.getByName [] 0 [rn]).map .ruledefRef
        match t with
        | .error e => .error e
        | .ok t =>
          if params.any (fun (q : String × RParamTy) => q.1 == name) then .error s!"duplicate parameter `{name}`"
          else .ok (parts ++ [.param params.length], exact, params ++ [(name, t)]))
    (.ok (([] : List RPart), 0, ([] : List (String × RParamTy))))
  match res with
  | .error e => .error e
  | .ok (parts, exact, params) => .ok ⟨parts, exact, params, r.expr⟩

def mapE {α β ε} (f : α → Except ε β) : List α → Except ε (List β)
  | [] => .ok []
  | a :: as => match f a with
    | .error e => .error e
    | .ok b => (mapE f as).map (b :: ·)

/-- instructions, data elements, res / align / addr get their item references here; every other
    node (symbols in particular) passes through unchanged -/
def assignRef (acc : Defs × List AstNode) (n : AstNode) : Defs × List AstNode :=
    let (df, out) := acc
    match n with
    | .instr src _ => ({ df with instrs := df.instrs ++ [{}] }, out ++ [.instr src (some df.instrs.length)])
    | .data sz es _ =>
      let news : List DataDef := es.map fun e =>
        let size := match sz with
          | some s => some s
          | none => staticSize {} e
        { known := staticallyKnown { queryFunction := asmBuiltinKnown } e, encoding := ⟨0, some (size.getD 0)⟩ }
      ({ df with datas := df.datas ++ news }, out ++ [.data sz es ((List.range es.length).map (· + df.datas.length))])
    | .res e _ => ({ df with res := df.res ++ [0] }, out ++ [.res e (some df.res.length)])
    | .align e _ => ({ df with aligns := df.aligns ++ [0] }, out ++ [.align e (some df.aligns.length)])
    | .addr e _ => ({ df with addrs := df.addrs ++ [0] }, out ++ [.addr e (some df.addrs.length)])
    | n => (df, out ++ [n])

/-- `define_remaining`: banks, ruledefs, functions, instructions, data, res/align/addr -/
def defineRemaining (d : Decls) (defs : Defs) (nodes : List AstNode) : Except String (Defs × List AstNode) := do
  -- bankdefs
  let banks ← nodes.foldl (fun acc n =>
      match acc with
      | .error e => .error e
      | .ok banks => match n with
        | .bankdef b (some r) => match defineBank d defs b with
          | .error e => .error e
          | .ok bk => .ok ((padTo banks r defaultBank).set r bk)
        | _ => .ok banks) (.ok [defaultBank])
  -- ruledefs
  let ruledefs ← nodes.foldl (fun acc n =>
      match acc with
      | .error e => .error e
      | .ok rds => match n with
        | .ruledef _ sub rules (some r) => match mapE (defineRule d) rules with
          | .error e => .error e
          | .ok rs => .ok ((padTo rds r (default : Ruledef)).set r ⟨sub, rs⟩)
        | _ => .ok rds) (.ok [])
  -- functions (also define their symbols)
  let (fns, symbols) := nodes.foldl (fun (acc : List FnDef × List (Option SymDef)) n =>
      match n with
      | .fn _ ps body (some r) =>
        let idx := acc.1.length
        (acc.1 ++ [⟨r, ps, body⟩],
         (padTo acc.2 r none).set r (some { noEmit := true, known := true, value := .fn idx, resolved := true }))
      | _ => acc) ([], defs.symbols)
  let (defs', nodes') := nodes.foldl assignRef ({ defs with banks := banks, ruledefs := ruledefs, fns := fns, symbols := symbols }, [])
  pure (defs', nodes')

/-! ## `match_all` -/

/-- `query_variable` of `get_match_statically_known` -/
def matchQv (d : Decls) (defs : Defs) (symCtx : List String) : Nat → List String → Bool := fun level path =>
  -- a builtin takes precedence over a declared symbol of the same name
  if level == 0 && (path.head? == some "$" || path.head? == some "pc" || (path.head?.map isAsmBuiltinName).getD false) then false
  else match d.symbols.tryGetByName symCtx level path with
    | none => false
    | some r => (defs.sym r).known

/-- the provider without locals: arguments are judged outside the rule's scope (`args_provider`) -/
def matchP0 (d : Decls) (defs : Defs) (symCtx : List String) : SKProvider :=
  { queryVariable := matchQv d defs symCtx, queryFunction := asmBuiltinKnown }

mutual
/-- `get_match_statically_known` -/
def matchKnown (d : Decls) (defs : Defs) (symCtx : List String) : Nat → IMatch → Bool
  | 0, _ => false
  | fuel + 1, m =>
    let rule := (defs.ruledefs.getD m.ruledef default).rules.getD m.rule default
    -- the production is judged with every parameter as a local
    match matchKnownArgs d defs symCtx fuel rule m.args 0 (matchP0 d defs symCtx) (matchP0 d defs symCtx) with
    | none => false
    | some p => staticallyKnown p rule.expr

/-- `none` = some argument is not statically known (the match is then not statically known) -/
def matchKnownArgs (d : Decls) (defs : Defs) (symCtx : List String) : Nat → Rule → List IArg → Nat → SKProvider → SKProvider →
    Option SKProvider
  | 0, _, _, _, _, _ => none
  | _ + 1, _, [], _, _, p => some p
  | fuel + 1, rule, a :: rest, i, pa, p =>
    let param := rule.params.getD i ("", .unspecified)
    let known := match param.2, a with
      | .ruledefRef _, .nested nm _ _ _ => matchKnown d defs symCtx fuel nm
      | .ruledefRef _, _ => false
      | _, .expr e _ _ _ => staticallyKnown pa e
      | _, _ => false
    if !known then none
    else matchKnownArgs d defs symCtx fuel rule rest (i + 1) pa (p.setLocal param.1 { valueKnown := true })
end

mutual
/-- `get_match_static_size` -/
def matchStaticSize (defs : Defs) : Nat → IMatch → Option Nat
  | 0, _ => none
  | fuel + 1, m =>
    let rule := (defs.ruledefs.getD m.ruledef default).rules.getD m.rule default
    staticSize (matchSizeArgs defs fuel rule m.args 0 {}) rule.expr

def matchSizeArgs (defs : Defs) : Nat → Rule → List IArg → Nat → SKProvider → SKProvider
  | 0, _, _, _, p => p
  | _ + 1, _, [], _, p => p
  | fuel + 1, rule, a :: rest, i, p =>
    let param := rule.params.getD i ("", .unspecified)
    let p' := match param.2 with
      | .unspecified => p
      | .integer n => p.setLocal param.1 { size := some n }
      | .unsigned n => p.setLocal param.1 { size := some n }
      | .signed n => p.setLocal param.1 { size := some n }
      | .ruledefRef _ =>
        match a with
        | .nested nm _ _ _ =>
          match matchStaticSize defs fuel nm with
          | some s => p.setLocal param.1 { size := some s }
          | none => p
        | _ => p
    matchSizeArgs defs fuel rule rest (i + 1) p'
end

/-- `match_all`: `(defs, reported)` -/
def matchAll (opts : Opts) (d : Decls) (defs : Defs) (nodes : List AstNode) : Defs × List String :=
  let (defs, _, rep) := nodes.foldl (fun (acc : Defs × List String × List String) n =>
    let (defs, symCtx, rep) := acc
    match n with
    | .instr src (some r) =>
      let ms := matchInstr opts.optMatcher defs.ruledefs src
      if ms.isEmpty then (defs, symCtx, rep ++ ["no match found for instruction"])
      else
        let infos : List MatchInfo := ms.map fun m =>
          ⟨m, matchKnown d defs symCtx 64 m, (matchStaticSize defs 64 m).getD 0⟩
        let largest := infos.foldl (fun mx i => if i.size > mx then i.size else mx) 0
        let ins : InstrDef := { cands := infos, known := infos.all (·.known), encoding := ⟨0, some largest⟩ }
        ({ defs with instrs := defs.instrs.set r ins }, symCtx, rep)
    | .symbol _ _ _ _ (some r) => (defs, (d.symbols.decls.getD r default).ctx, rep)
    | _ => acc) (defs, [], [])
  (defs, rep)

/-! ## output -/

/-- the resolved items handed to `build_output` -/
def outputItems (st : Static) (defs : Defs) (nodes : List AstNode) : List RItem :=
  nodes.flatMap fun n =>
    match n with
    | .instr _ (some r) => let e := (defs.instrs.getD r default).encoding; [.emit (emitBits e.v (e.size.getD 0))]
    | .data _ _ refs => refs.map fun r => let e := (defs.datas.getD r default).encoding; .emit (emitBits e.v (e.size.getD 0))
    | n => [nodeItem st defs n 0]

structure AsmOk where
  bits : List Bool
  spans : List OSpan
  symbols : List (String × BI)
  iters : Nat

/-- `format_default`-order symbol listing (declared, emitted, integer-valued) -/
def symbolListing (d : Decls) (defs : Defs) : List (String × BI) :=
  let rec go (fuel : Nat) (children : List (String × Nat)) : List (String × BI) :=
    match fuel with
    | 0 => []
    | fuel + 1 =>
      children.flatMap fun (_, r) =>
        let decl := d.symbols.decls.getD r default
        let s := defs.sym r
        let me : List (String × BI) :=
          if !s.noEmit then match s.value with
            | .int b => [(decl.name, b)]
            | _ => []
          else []
        me ++ go fuel decl.children
  go (d.symbols.decls.length + 1) d.symbols.globals

/-- `check_unused_defines` -/
def checkUnusedDefines (opts : Opts) (d : Decls) : List String :=
  opts.defines.filterMap fun dv =>
    let path := (splitOnChar '.' dv.1.toList).map String.ofList
    match d.symbols.tryGetByName [] 0 path with
    | none => some s!"unused define `{dv.1}`"
    | some r =>
      -- a define is used by the constant of that name only: a label or a function of that name does not use it
      match (d.symbols.decls.getD r default).kind with
      | .constant => none
      | _ => some s!"unused define `{dv.1}`"

/-- everything before `match_all`: parsing with inclusion, declarations, `#if`, definitions -/
def frontEndPre (opts : Opts) (fs : SrcFiles) (roots : List (List Char)) : Except (List String) (Decls × Defs × List AstNode) :=
  match (parseMany fs roots).map (·.map AstNode.fresh) with
  | .error e => .error [e]
  | .ok nodes =>
    match (SymMgr.new "bank").declare [] "#global_bankdef" 0 .other with
    | .error e => .error [e]
    | .ok (_, bankMgr) =>
      let d0 : Decls := { banks := bankMgr }
      let nconst := nodes.length + 4
      match declLoop opts (4 * nconst + 64 + 8 * (fs.foldl (fun n f => n + f.2.length) 0)) d0 {} nodes 0 with
      | .error e => .error [e]
      | .ok (d, defs, nodes) =>
        match checkLeftoverIfs d defs nodes with
        | .error e => .error [e]
        | .ok _ =>
          match defineRemaining d defs nodes with
          | .error e => .error [e]
          | .ok (defs, nodes) => .ok (d, defs, nodes)

/-- everything up to and including `match_all` -/
def frontEnd (opts : Opts) (fs : SrcFiles) (roots : List (List Char)) : Except (List String) (Static × List AstNode × Defs) :=
  match frontEndPre opts fs roots with
  | .error e => .error e
  | .ok (d, defs, nodes) =>
    let (defs, rep) := matchAll opts d defs nodes
    if !rep.isEmpty then .error rep
    else .ok (⟨opts, d, roots.headD [], fs⟩, nodes, defs)

/-- For the attribution of differences between the two matcher settings: `(instructions whose match
    lists differ, those among them with an ignorable token inside the leading literal)`. -/
def matcherDiff (opts : Opts) (fs : SrcFiles) (roots : List (List Char)) : Except (List String) (Nat × Nat) :=
  match frontEndPre opts fs roots with
  | .error e => .error e
  | .ok (_, defs, nodes) =>
    .ok (nodes.foldl (fun (acc : Nat × Nat) n =>
      match n with
      | .instr src _ =>
        let a := matchInstr true defs.ruledefs src
        let b := matchInstr false defs.ruledefs src
        let same := a.length == b.length && a.all (fun m => b.any (fun m' => m.isSame m')) && b.all (fun m => a.any (fun m' => m.isSame m'))
        if same then acc else (acc.1 + 1, acc.2 + (if noBlankInLeadingLiteral src then 0 else 1))
      | _ => acc) (0, 0))

/-- **`asm::assemble`**: success with output, or the list of error messages (first = first reported) -/
def assemble (opts : Opts) (fs : SrcFiles) (roots : List (List Char)) : Except (List String) AsmOk :=
  match frontEnd opts fs roots with
  | .error e => .error e
  | .ok (st, nodes, defs) =>
    match resolveIteratively st nodes defs with
    | .error msgs => .error msgs
    | .ok (iters, defs, rep) =>
      if !rep.isEmpty then .error rep
      else if !checkBankOverlap defs.banks then .error [layErrMsg .bankOverlap]
      else
        let unused := checkUnusedDefines opts st.decls
        if !unused.isEmpty then .error unused
        else
          match buildLoop defs.banks ⟨initIter defs.banks, fillBanks defs.banks [], [], []⟩ (outputItems st defs nodes) with
          | .error e => .error [layErrMsg e]
          | .ok bst => .ok ⟨bst.out, bst.spans, symbolListing st.decls defs, iters⟩

/-- the part of the resolver state that passes read and write -/
structure StateDump where
  symbols : List (Option Value)
  instrs : List BI
  datas : List BI
  res : List Nat
  aligns : List Nat
  addrs : List Int

def Defs.dump (d : Defs) : StateDump :=
  ⟨d.symbols.map (·.map (·.value)), d.instrs.map (·.encoding), d.datas.map (·.encoding), d.res, d.aligns, d.addrs⟩

/-- overwrite the values of a state (after `match_all`) with a dumped state; all short-cut marks cleared
    except for function symbols -/
def Defs.withDump (d : Defs) (s : StateDump) : Defs :=
  { d with
    symbols := (List.range d.symbols.length).map fun i =>
      match d.symbols.getD i none, s.symbols.getD i none with
      | some sd, some v => some { sd with value := v, resolved := match v with | .fn _ => true | _ => false }
      | o, _ => o
    instrs := (List.range d.instrs.length).map fun i => { (d.instrs.getD i default) with encoding := s.instrs.getD i default, resolved := false }
    datas := (List.range d.datas.length).map fun i => { (d.datas.getD i default) with encoding := s.datas.getD i default, resolved := false }
    res := s.res, aligns := s.aligns, addrs := s.addrs }

def StateDump.same (a b : StateDump) : Bool :=
  a.symbols == b.symbols && a.instrs == b.instrs && a.datas == b.datas && a.res == b.res && a.aligns == b.aligns && a.addrs == b.addrs

/-- symbol slots of the label nodes / of the constant nodes -/
def labelRefs (nodes : List AstNode) : List Nat :=
  nodes.filterMap fun n => match n with | .symbol _ _ .label _ (some r) => some r | _ => none
def constRefs (nodes : List AstNode) : List Nat :=
  nodes.filterMap fun n => match n with | .symbol _ _ (.constant _) _ (some r) => some r | _ => none

/-- no constant node shares its symbol slot with a label node (every declaration gets a fresh
    slot; the hypothesis of `Casm.resolveIterativelyN_fixed_point`, validated on every certificate run) -/
def refsWF (nodes : List AstNode) : Bool := (constRefs nodes).all fun r => !(labelRefs nodes).contains r

/-! ## decidable facts about the front end's output (hypotheses of `Casm/Proofs/FullFix.lean`) -/

/-- the symbol context after a node (as `resolve_once` and `match_all` track it) -/
def stepCtx (st : Static) (sc : List String) : AstNode → List String
  | .symbol _ _ _ _ (some r) => (st.decls.symbols.decls.getD r default).ctx
  | _ => sc

def ctxAfter (st : Static) (sc : List String) (pre : List AstNode) : List String := pre.foldl (stepCtx st) sc

/-- the provider of `defs/data_block.rs` and `defs/symbol.rs`: no variable is known -/
def pureP : SKProvider := { queryFunction := asmBuiltinKnown }

/-- `(i, node i)` for every position -/
def positions (nodes : List AstNode) : List (Nat × AstNode) :=
  (List.range nodes.length).filterMap fun i => (nodes[i]?).map fun n => (i, n)

/-- the facts of `Casm.FrontOK`, decided: nothing is marked yet; instruction references and data
    element references are pairwise distinct; an instruction flagged statically known has only
    statically known candidates in the symbol context of its node; a data element flagged so has a
    statically known expression; no label is flagged; a flagged symbol with a value is marked
    resolved -/
def frontOKb (st : Static) (nodes : List AstNode) (d0 : Defs) : Bool :=
  let pos := positions nodes
  d0.instrs.all (fun i => !i.resolved) && d0.datas.all (fun x => !x.resolved)
  && (pos.all fun p => match p.2 with
      | .instr _ (some ref) =>
        let ins := d0.instrs.getD ref default
        (pos.all fun q => match q.2 with
           | .instr _ (some ref') => ref' != ref || q.1 == p.1
           | _ => true)
        && (!ins.known || ins.cands.all fun c => matchKnown st.decls d0 (ctxAfter st [] (nodes.take p.1)) 64 c.m)
      | .data _ es refs =>
        (List.range es.length).all fun k =>
          (!(d0.datas.getD (refs.getD k 0) default).known || staticallyKnown pureP (es.getD k default))
          && (pos.all fun q => match q.2 with
               | .data _ es' refs' => (List.range es'.length).all fun k' => refs'.getD k' 0 != refs.getD k 0 || (q.1 == p.1 && k' == k)
               | _ => true)
      | .symbol _ _ .label _ (some r) => !(d0.sym r).known
      | _ => true)
  && (!st.opts.optStatic || (List.range d0.symbols.length).all fun r =>
        !(d0.sym r).known || (match (d0.sym r).value with | .unknown => true | _ => false) || (d0.sym r).resolved)

/-- the marks both assemblers set before the first pass: every mark except the one the static-value
    optimisation gives a statically known constant that no `-d` option defines -/
def markedByBoth (st : Static) (d0 : Defs) (r : Nat) : Bool :=
  (d0.sym r).resolved &&
    !((d0.sym r).known && (st.decls.symbols.decls.getD r default).kind == .constant &&
      (st.opts.defines.find? (·.1 == (st.decls.symbols.decls.getD r default).name)).isNone)

/-- the facts of `Casm.FrontOKS`, decided: constant nodes of one symbol are one node; a flagged
    constant has a statically known expression; a constant marked by the optimisation only holds the
    definite value `eval_simple` computes for its expression -/
def frontOKSb (st : Static) (nodes : List AstNode) (d0 : Defs) : Bool :=
  let pos := positions nodes
  pos.all fun p => match p.2 with
    | .symbol _ _ (.constant e) _ (some r) =>
      (pos.all fun q => match q.2 with
         | .symbol _ _ (.constant _) _ (some r') => r' != r || q.1 == p.1
         | _ => true)
      && (!(d0.sym r).known || staticallyKnown pureP e)
      && (!((d0.sym r).resolved && !markedByBoth st d0 r) ||
            ((d0.sym r).known && (match evalSimple st.decls d0 e with
              | .ok v => v == (d0.sym r).value && (match v with | .unknown => false | _ => true)
              | .error _ => false)))
    | _ => true

/-- references of instructions and data elements are pairwise distinct; the symbol slot of every
    symbol node exists (or lies beyond the table), and no label has a sized value yet -/
def frontUniqb (nodes : List AstNode) (d0 : Defs) : Bool :=
  let pos := positions nodes
  let symOKb (r : Nat) : Bool := decide (d0.symbols.length ≤ r) || (d0.symbols.getD r none).isSome
  pos.all fun p => match p.2 with
    | .instr _ (some ref) =>
      pos.all fun q => match q.2 with
        | .instr _ (some ref') => ref' != ref || q.1 == p.1
        | _ => true
    | .data _ es refs =>
      (List.range es.length).all fun k =>
        pos.all fun q => match q.2 with
          | .data _ es' refs' => (List.range es'.length).all fun k' => refs'.getD k' 0 != refs.getD k 0 || (q.1 == p.1 && k' == k)
          | _ => true
    | .symbol _ _ .label _ (some r) => symOKb r && (match (d0.sym r).value with | .int x => x.size.isNone | _ => true)
    | .symbol _ _ (.constant _) _ (some r) => symOKb r
    | _ => true

/-! ## the two settings of the static-value optimisation, side by side -/

/-- clear the "resolved in the first pass" marks of instructions and data elements -/
def Defs.unfreeze (d : Defs) : Defs :=
  { d with instrs := d.instrs.map (fun i => { i with resolved := false }), datas := d.datas.map (fun x => { x with resolved := false }) }

def SymDef.keep (s : SymDef) (b : Bool) : SymDef := { s with resolved := s.resolved && b }

/-- clear those marks and the marks of the symbols outside `H` -/
def Defs.unfS (H : Nat → Bool) (d : Defs) : Defs :=
  { d.unfreeze with symbols := (List.range d.symbols.length).map fun i => (d.symbols.getD i none).map fun s => s.keep (H i) }

/-- the same static part with the static-value optimisation switched -/
def Static.withStatic (st : Static) (b : Bool) : Static := { st with opts := { st.opts with optStatic := b } }

def Opts.staticOff (opts : Opts) : Opts := { opts with optStatic := false }

/-- the two front ends agree: same errors, or the same static part, the same nodes, the same values,
    the unoptimised one having the marks `markedByBoth` only -/
def FrontRel (opts : Opts) (fs : SrcFiles) (roots : List (List Char)) : Prop :=
  frontEnd opts.staticOff fs roots =
    (frontEnd opts fs roots).map fun x => (x.1.withStatic false, x.2.1, x.2.2.unfS (markedByBoth x.1 x.2.2))

/-- **Fixed-point certificate** (C02): a claimed final state is re-checked by one strict
    (guessing forbidden), non-first pass; it must be accepted, stable, silent and unchanged. -/
def certify (opts : Opts) (fs : SrcFiles) (roots : List (List Char)) (claimed : StateDump) : Except String Unit :=
  match frontEnd opts fs roots with
  | .error e => .error ("front end: " ++ e.headD "?")
  | .ok (st, nodes, defs) =>
    let d := defs.withDump claimed
    if !refsWF nodes then .error "model: a constant and a label share a symbol slot" else
    if !frontOKb st nodes defs then .error "model: the front-end facts (frontOKb) do not hold" else
    match resolveOnce st nodes false true d with
    | .error (m, _) => .error ("strict pass fails: " ++ m)
    | .ok (d', stable, rep) =>
      if !rep.isEmpty then .error ("strict pass reports: " ++ rep.headD "?")
      else if !stable then .error "strict pass is not stable"
      else if !(d'.dump.same d.dump) then .error "strict pass changes the state"
      else .ok ()

end Casm
