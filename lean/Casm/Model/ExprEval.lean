import Casm.Model.Expr
import Casm.Gen.Consts
/-!
# Casm.Model.ExprEval — `src/expr/eval.rs` (`eval_with_ctx`), `builtin_fn.rs`, and the
checked arithmetic of `src/util/bigint.rs`

Errors are the diagnostic texts of the Rust code (so the correspondence can compare
them); `Value.unknown` / `Value.failed` propagate as in the `propagate!` macro.
-/
namespace Casm

abbrev Locals := List (String × Value)

def Locals.get (l : Locals) (name : String) : Option Value :=
  (l.find? (fun p => p.1 == name)).map (·.2)

def Locals.set (l : Locals) (name : String) (v : Value) : Locals :=
  (name, v) :: l.filter (fun p => p.1 != name)

/-- `expr::EvalContext`: locals, token substitutions (argument excerpts for `asm` blocks)
    and the recursion depth -/
structure ECtx where
  locals : Locals := []
  substs : List (String × List Char) := []
  depth : Nat := 0
deriving Repr, Inhabited

def ECtx.setLocal (c : ECtx) (n : String) (v : Value) : ECtx := { c with locals := c.locals.set n v }
def ECtx.setSubst (c : ECtx) (n : String) (x : List Char) : ECtx :=
  { c with substs := (n, x) :: c.substs.filter (·.1 != n) }
/-- `EvalContext::new_deepened` -/
def ECtx.deepened (c : ECtx) : ECtx := { locals := [], substs := [], depth := c.depth + 1 }

/-- what the evaluator asks of its surroundings (`EvalProvider`) -/
structure EvalEnv where
  var : Nat → List String → Except String Value
  fn : Value → List Value → ECtx → Except String Value
  asm : List Char → ECtx → Except String Value

def dummyEnv : EvalEnv :=
  { var := fun _ _ => .error "cannot reference variables in this context"
    fn := fun _ _ _ => .error "cannot reference functions in this context"
    asm := fun _ _ => .error "cannot use `asm` blocks in this context" }

def bitLen (x : Int) : Nat := nbits x.natAbs

def USIZE_MAX1 : Nat := 2 ^ 64

/-- `maybe_into::<usize>` -/
def toUsize (x : Int) : Option Nat := if 0 ≤ x ∧ x < (USIZE_MAX1 : Int) then some x.toNat else none

def outOfRange : String := "value is out of supported range"

/-- `Value::expect_usize` -/
def expectUsize : Value → Except String Nat
  | .int b => match toUsize b.v with
    | some n => .ok n
    | none => .error outOfRange
  | .unknown => .error "value is unknown"
  | _ => .error "expected non-negative integer"

def unsized (v : Int) : Value := .int ⟨v, none⟩

def checkedAdd (l r : Int) : Except String Int :=
  if max (bitLen l) (bitLen r) ≥ Gen.BIGINT_MAX_BITS - 1 then .error outOfRange else .ok (l + r)
def checkedSub (l r : Int) : Except String Int :=
  if max (bitLen l) (bitLen r) ≥ Gen.BIGINT_MAX_BITS - 2 then .error outOfRange else .ok (l - r)
def checkedMul (l r : Int) : Except String Int :=
  if max (bitLen l) (bitLen r) ≥ Gen.BIGINT_MAX_BITS / 2 then .error outOfRange else .ok (l * r)
def checkedDiv (l r : Int) : Except String Int :=
  if r = 0 then .error "division by zero" else .ok (Int.tdiv l r)
def checkedMod (l r : Int) : Except String Int :=
  if r = 0 then .error "modulo by zero" else .ok (Int.tmod l r)
def checkedShl (l r : Int) : Except String Int :=
  if 0 ≤ r ∧ r < (2 ^ 32 : Nat) then
    if bitLen l + r.toNat ≥ Gen.BIGINT_MAX_BITS then .error outOfRange
    else .ok (l * (2 ^ r.toNat : Nat))
  else .error outOfRange
/-- `l >> n`, computed without the power of two when the shift is at least as long as the number (the value is then
    0 or -1): the same number as `l >>> n` (`Casm.shrInt_eq`), but executable for shifts near 2^64 -/
def shrInt (l : Int) (n : Nat) : Int := if bitLen l ≤ n then (if l < 0 then -1 else 0) else l >>> n

def checkedShr (l r : Int) : Except String Int :=
  match toUsize r with
  | some n => .ok (shrInt l n)
  | none => .error outOfRange

/-- `checked_slice(left, right)` -/
def checkedSlice (x : BI) (left right : Nat) : Except String BI :=
  if left < right then .error "invalid slice range" else .ok (x.slice left right)

/-- `BigInt::convert_le` on a value whose size is a multiple of 8: `slice(size,0)`,
    `to_bytes_le` (at least one byte), zero-padded up to `size/8` bytes, re-read big-endian. -/
def convertLe (x : BI) (size : Nat) : BI :=
  let v := (x.slice size 0).v.toNat
  let minBytes := if v = 0 then 1 else (nbits v + 7) / 8
  let m := max (size / 8) minBytes
  let bytes := (List.range m).map fun i => (v / 256 ^ i) % 256
  ⟨(bytesToNat bytes : Int), some size⟩

def evalBinInt (op : BinOp) (l r : BI) : Except String Value :=
  match op with
  | .Add => (checkedAdd l.v r.v).map unsized
  | .Sub => (checkedSub l.v r.v).map unsized
  | .Mul => (checkedMul l.v r.v).map unsized
  | .Div => (checkedDiv l.v r.v).map unsized
  | .Mod => (checkedMod l.v r.v).map unsized
  | .Shl => (checkedShl l.v r.v).map unsized
  | .Shr => (checkedShr l.v r.v).map unsized
  | .And => .ok (unsized (intAnd l.v r.v))
  | .Or => .ok (unsized (intOr l.v r.v))
  | .Xor => .ok (unsized (intXor l.v r.v))
  | .Eq => .ok (.bool (l.v == r.v))
  | .Ne => .ok (.bool (l.v != r.v))
  | .Lt => .ok (.bool (l.v < r.v))
  | .Le => .ok (.bool (l.v ≤ r.v))
  | .Gt => .ok (.bool (l.v > r.v))
  | .Ge => .ok (.bool (l.v ≥ r.v))
  | .Concat =>
    match l.size, r.size with
    | some lw, some rw => .ok (.int (l.concat lw 0 r rw 0))
    | _, _ => .error "argument to concatenation with indefinite size"
  | _ => .error "invalid argument types to operator"

def evalBinBool (op : BinOp) (l r : Bool) : Except String Value :=
  match op with
  | .And => .ok (.bool (l && r))
  | .Or => .ok (.bool (l || r))
  | .Xor => .ok (.bool (l != r))
  | .Eq => .ok (.bool (l == r))
  | .Ne => .ok (.bool (l != r))
  | _ => .error "invalid argument types to operator"

def argCountErr (expected got : Nat) : String :=
  s!"function expected {expected} argument{if expected != 1 then "s" else ""} (but got {got})"

def encOfName : String → Option Enc
  | "ascii" => some .ascii | "utf8" => some .utf8 | "utf16be" => some .utf16be
  | "utf16le" => some .utf16le | "utf32be" => some .utf32be | "utf32le" => some .utf32le
  | _ => none

/-- `eval_builtin_fn` -/
def evalBuiltin (name : String) (args : List Value) : Except String Value :=
  match name with
  | "assert" =>
    if args.length < 1 ∨ args.length > 2 then
      .error s!"function expected 1 to 2 arguments (but got {args.length})"
    else match args with
      | .bool true :: _ => .ok .void
      | .bool false :: rest =>
        match rest with
        | [] => .ok (.failed "assertion failed")
        | .str s _ :: _ => .ok (.failed ("assertion failed: " ++ String.ofList s))
        | _ => .error "expected string"
      | _ => .error "expected boolean"
  | "sizeof" =>
    match args with
    | [a] =>
      match a.getBigint with
      | some b => match b.size with
        | some s => .ok (unsized s)
        | none => .error "value has no definite size"
      | none => .error "expected integer-like value with definite size"
    | _ => .error (argCountErr 1 args.length)
  | "le" =>
    match args with
    | [.int b] =>
      match b.size with
      | none => .error "expected integer with definite size"
      | some s => if s % 8 != 0 then .error "argument to `le` must have a size multiple of 8"
                  else .ok (.int (convertLe b s))
    | [.unknown] => .error "value is unknown"
    | [_] => .error "expected integer"
    | _ => .error (argCountErr 1 args.length)
  | "strlen" =>
    match args with
    | [.str s _] => .ok (unsized (utf8Len s))
    | [_] => .error "expected string"
    | _ => .error (argCountErr 1 args.length)
  | n =>
    match encOfName n with
    | some enc =>
      match args with
      | [.str s _] => .ok (.str s enc)
      | [_] => .error "expected string"
      | _ => .error (argCountErr 1 args.length)
    | none => .error "unknown builtin"

def isBuiltinName (n : String) : Bool := Gen.builtinFns.any (fun p => p.1 == n)

mutual
/-- `Expr::eval_with_ctx` -/
def eval (env : EvalEnv) (locals : ECtx) : Expr → Except String (Value × ECtx)
  | .lit v => .ok (v, locals)
  | .var level path =>
    match level, path with
    | 0, [name] =>
      if isBuiltinName name then .ok (.builtin name, locals)
      else match locals.locals.get name with
        | some v => .ok (v, locals)
        | none => (env.var level path).map (·, locals)
    | _, _ => (env.var level path).map (·, locals)
  | .un op e =>
    match eval env locals e with
    | .error m => .error m
    | .ok (v, locals) =>
      if v.shouldPropagate then .ok (v, locals) else
      match v, op with
      | .int x, .Neg => .ok (unsized (-x.v), locals)
      | .int x, .Not => .ok (unsized (intNot x.v), locals)
      | .bool b, .Not => .ok (.bool (!b), locals)
      | _, _ => .error "invalid argument type to operator"
  | .bin .Assign l r =>
    match l with
    | .var level path =>
      match level, path with
      | 0, [name] =>
        match eval env locals r with
        | .error m => .error m
        | .ok (v, locals) =>
          if v.shouldPropagate then .ok (v, locals) else .ok (.void, locals.setLocal name v)
      | _, _ => .error "symbol cannot be assigned to"
    | _ => .error "invalid assignment destination"
  | .bin .LazyOr l r =>
    match eval env locals l with
    | .error m => .error m
    | .ok (lv, locals) =>
      if lv.shouldPropagate then .ok (lv, locals) else
      match lv with
      | .bool true => .ok (lv, locals)
      | .bool false =>
        match eval env locals r with
        | .error m => .error m
        | .ok (rv, locals) =>
          if rv.shouldPropagate then .ok (rv, locals) else
          match rv with
          | .bool _ => .ok (rv, locals)
          | _ => .error "invalid argument type to operator"
      | _ => .error "invalid argument type to operator"
  | .bin .LazyAnd l r =>
    match eval env locals l with
    | .error m => .error m
    | .ok (lv, locals) =>
      if lv.shouldPropagate then .ok (lv, locals) else
      match lv with
      | .bool false => .ok (lv, locals)
      | .bool true =>
        match eval env locals r with
        | .error m => .error m
        | .ok (rv, locals) =>
          if rv.shouldPropagate then .ok (rv, locals) else
          match rv with
          | .bool _ => .ok (rv, locals)
          | _ => .error "invalid argument type to operator"
      | _ => .error "invalid argument type to operator"
  | .bin op l r =>
    match eval env locals l with
    | .error m => .error m
    | .ok (lv, locals) =>
      if lv.shouldPropagate then .ok (lv, locals) else
      match eval env locals r with
      | .error m => .error m
      | .ok (rv, locals) =>
        if rv.shouldPropagate then .ok (rv, locals) else
        match lv, rv with
        | .bool a, .bool b => (evalBinBool op a b).map (·, locals)
        | _, _ =>
          match lv.getBigint, rv.getBigint with
          | some a, some b => (evalBinInt op a b).map (·, locals)
          | _, _ => .error "invalid argument types to operator"
  | .tern c t f =>
    match eval env locals c with
    | .error m => .error m
    | .ok (cv, locals) =>
      if cv.shouldPropagate then .ok (cv, locals) else
      match cv with
      | .bool true => eval env locals t
      | .bool false => eval env locals f
      | _ => .error "invalid condition type"
  | .slice hi lo inner =>
    match eval env locals inner with
    | .error m => .error m
    | .ok (iv, locals) =>
      if iv.shouldPropagate then .ok (iv, locals) else
      match iv.getBigint with
      | none => .error "invalid argument type to slice"
      | some x =>
        match eval env locals hi with
        | .error m => .error m
        | .ok (hv, locals) =>
          if hv.shouldPropagate then .ok (hv, locals) else
          match eval env locals lo with
          | .error m => .error m
          | .ok (lv, locals) =>
            if lv.shouldPropagate then .ok (lv, locals) else
            match expectUsize hv with
            | .error m => .error m
            | .ok h =>
              match expectUsize lv with
              | .error m => .error m
              | .ok l =>
                -- `x[hi:lo]` names the bits hi down to lo; hi + 1 has to be a `usize`
                if h < l then .error "invalid slice range"
                else if h + 1 ≥ USIZE_MAX1 then .error outOfRange
                else (checkedSlice x (h + 1) l).map (fun b => (.int b, locals))
  | .sliceShort size inner =>
    match eval env locals inner with
    | .error m => .error m
    | .ok (iv, locals) =>
      if iv.shouldPropagate then .ok (iv, locals) else
      match iv.getBigint with
      | none => .error "invalid argument type to slice"
      | some x =>
        match eval env locals size with
        | .error m => .error m
        | .ok (sv, locals) =>
          if sv.shouldPropagate then .ok (sv, locals) else
          match expectUsize sv with
          | .error m => .error m
          | .ok s => (checkedSlice x s 0).map (fun b => (.int b, locals))
  | .block es => evalBlock env locals .void es
  | .call f args =>
    match eval env locals f with
    | .error m => .error m
    | .ok (fv, locals) =>
      if fv.shouldPropagate then .ok (fv, locals) else
      match evalArgs env locals [] args with
      | .error m => .error m
      | .ok (.inl v, locals) => .ok (v, locals)
      | .ok (.inr vs, locals) =>
        match fv with
        | .builtin name => (evalBuiltin name vs).map (·, locals)
        | .asmBuiltin _ => (env.fn fv vs locals).map (·, locals)
        | .fn _ => (env.fn fv vs locals).map (·, locals)
        | .unknown => .error "unknown function"
        | _ => .error "expression is not callable"
  | .asm text => (env.asm text locals).map (·, locals)

/-- the `for expr in exprs` loop of `Expr::Block` -/
def evalBlock (env : EvalEnv) (locals : ECtx) (last : Value) : List Expr → Except String (Value × ECtx)
  | [] => .ok (last, locals)
  | e :: es =>
    match eval env locals e with
    | .error m => .error m
    | .ok (v, locals) =>
      if v.shouldPropagate then .ok (v, locals) else evalBlock env locals v es

/-- argument evaluation of `Expr::Call`; `inl v` = a propagated `Unknown`/`FailedConstraint` -/
def evalArgs (env : EvalEnv) (locals : ECtx) (acc : List Value) : List Expr → Except String (Sum Value (List Value) × ECtx)
  | [] => .ok (.inr acc.reverse, locals)
  | e :: es =>
    match eval env locals e with
    | .error m => .error m
    | .ok (v, locals) =>
      if v.shouldPropagate then .ok (.inl v, locals) else evalArgs env locals (v :: acc) es
end

end Casm
