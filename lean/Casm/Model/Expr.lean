import Casm.Model.Bits
import Casm.Model.Token
import Casm.Gen.Precedence
/-!
# Casm.Model.Expr — expression trees and values (`src/expr/expression.rs`)
-/
namespace Casm

inductive Enc | utf8 | utf16be | utf16le | utf32be | utf32le | ascii
deriving DecidableEq, Repr, Inhabited

inductive Value where
  | unknown
  | failed (msg : String)
  | void
  | int (b : BI)
  | str (s : List Char) (enc : Enc)
  | bool (b : Bool)
  | builtin (name : String)
  | asmBuiltin (name : String)
  | fn (idx : Nat)
deriving DecidableEq, Repr, Inhabited

inductive Expr where
  | lit (v : Value)
  | var (level : Nat) (path : List String)
  | un (op : UnOp) (e : Expr)
  | bin (op : BinOp) (l r : Expr)
  | tern (c t f : Expr)
  | slice (hi lo inner : Expr)
  | sliceShort (size inner : Expr)
  | block (es : List Expr)
  | call (f : Expr) (args : List Expr)
  | asm (text : List Char)
deriving Repr, Inhabited

/-! ## bitwise operators on the infinite two's-complement expansion -/

/-- magnitude of the non-negative member of `{x, -x-1}` -/
def mag (x : Int) : Nat := if x < 0 then (-x - 1).toNat else x.toNat

/-- combination of two sign/magnitude views: `Nat.bitwise` on the magnitudes with the
    signs folded into the bit function, result flipped when `f` maps the sign bits to 1 -/
def bitwiseCore (f : Bool → Bool → Bool) (nx ny : Bool) (a b : Nat) : Int :=
  let s := f nx ny
  let r := Nat.bitwise (fun p q => (f (p != nx) (q != ny)) != s) a b
  if s then -(r : Int) - 1 else (r : Int)

/-- generic bitwise combination of two integers on their infinite two's-complement
    expansions (what `num_bigint`'s `&`, `|`, `^` compute) -/
def intBitwise (f : Bool → Bool → Bool) (x y : Int) : Int :=
  bitwiseCore f (decide (x < 0)) (decide (y < 0)) (mag x) (mag y)

def intAnd (x y : Int) : Int := intBitwise (· && ·) x y
def intOr (x y : Int) : Int := intBitwise (· || ·) x y
def intXor (x y : Int) : Int := intBitwise (· != ·) x y
/-- `impl Not for &BigInt` (bytewise complement of the sign-extended representation) -/
def intNot (x : Int) : Int := -x - 1

/-! ## strings as integers -/

/-- UTF-8 encoding of one scalar value -/
def utf8EncodeChar (c : Char) : List Nat :=
  let v := c.val.toNat
  if v < 0x80 then [v]
  else if v < 0x800 then [0xC0 + v / 64, 0x80 + v % 64]
  else if v < 0x10000 then [0xE0 + v / 4096, 0x80 + (v / 64) % 64, 0x80 + v % 64]
  else [0xF0 + v / 262144, 0x80 + (v / 4096) % 64, 0x80 + (v / 64) % 64, 0x80 + v % 64]

def utf16Units (c : Char) : List Nat :=
  let v := c.val.toNat
  if v < 0x10000 then [v]
  else let w := v - 0x10000; [0xD800 + w / 1024, 0xDC00 + w % 1024]

def encodeBytes (enc : Enc) (s : List Char) : List Nat :=
  match enc with
  | .utf8 => s.flatMap utf8EncodeChar
  | .utf16be => (s.flatMap utf16Units).flatMap fun u => [u / 256 % 256, u % 256]
  | .utf16le => (s.flatMap utf16Units).flatMap fun u => [u % 256, u / 256 % 256]
  | .utf32be => s.flatMap fun c => let v := c.val.toNat; [v / 16777216 % 256, v / 65536 % 256, v / 256 % 256, v % 256]
  | .utf32le => s.flatMap fun c => let v := c.val.toNat; [v % 256, v / 256 % 256, v / 65536 % 256, v / 16777216 % 256]
  | .ascii => s.map fun c => let v := c.val.toNat; if v ≥ 0x100 then 0 else v

def bytesToNat (bs : List Nat) : Nat := bs.foldl (fun a b => a * 256 + b) 0

/-- `BigInt::from_bytes_be` = `from_signed_bytes_be`: the bytes are read as a *signed*
    big-endian number (F20), size = 8 × length. -/
def fromBytesBe (bs : List Nat) : BI :=
  let n := bytesToNat bs
  let v : Int :=
    match bs with
    | [] => 0
    | b :: _ => if b ≥ 0x80 then (n : Int) - (2 ^ (8 * bs.length) : Nat) else n
  ⟨v, some (8 * bs.length)⟩

def strToBigint (s : List Char) (enc : Enc) : BI := fromBytesBe (encodeBytes enc s)

/-- `Value::get_bigint` -/
def Value.getBigint : Value → Option BI
  | .int b => some b
  | .str s enc => some (strToBigint s enc)
  | _ => none

def Value.shouldPropagate : Value → Bool
  | .unknown => true
  | .failed _ => true
  | _ => false

end Casm
