/-!
# Casm.Model.Overlap — `src/util/overlap_checker.rs`

`entries` is kept sorted by position.  `binary_search_by` is modelled by `lowerBound`
(number of entries with a smaller position): on a list sorted by position with pairwise
distinct positions — which the invariant of C06 guarantees — `binary_search_by` returns
`Ok(i)` exactly when `entries[i].position == position` with `i = lowerBound`, and
`Err(lowerBound)` otherwise.
-/
namespace Casm

structure OEntry where
  pos : Nat
  size : Nat
deriving DecidableEq, Repr, Inhabited

def lowerBound (es : List OEntry) (p : Nat) : Nat := (es.takeWhile (fun e => e.pos < p)).length

/-- `check_overlap`: insertion index and whether an overlapping entry exists -/
def checkOverlap (es : List OEntry) (p s : Nat) : Nat × Bool :=
  let i := lowerBound es p
  match es[i]? with
  | some e =>
    if e.pos = p then
      -- `Ok(i)` arm
      (i + 1, decide (e.size > 0 ∧ s > 0))
    else
      -- `Err(i)` arm, `i < len`
      if p + s > e.pos then (i, true)
      else if i > 0 then
        match es[i - 1]? with
        | some prev => if prev.pos + prev.size > p then (i - 1, true) else (i, false)
        | none => (i, false)
      else (i, false)
  | none =>
    -- `Err(i)` arm, `i = len`
    if i > 0 then
      match es[i - 1]? with
      | some prev => if prev.pos + prev.size > p then (i - 1, true) else (i, false)
      | none => (i, false)
    else (i, false)

def insertAt (es : List OEntry) (i : Nat) (e : OEntry) : List OEntry := es.take i ++ e :: es.drop i

/-- `check_and_insert`: `none` = "output overlap" error -/
def checkAndInsert (es : List OEntry) (p s : Nat) : Option (List OEntry) :=
  if s = 0 then some es
  else
    let (i, ov) := checkOverlap es p s
    if ov then none else some (insertAt es i ⟨p, s⟩)

/-- a whole history of insertions; `none` as soon as one is rejected -/
def insertAll : List OEntry → List (Nat × Nat) → Option (List OEntry)
  | es, [] => some es
  | es, (p, s) :: rest =>
    match checkAndInsert es p s with
    | some es' => insertAll es' rest
    | none => none

end Casm
