import Casm.Model.Format
import Casm.Model.CharCounter
/-!
# Casm.Model.Listing — `format_annotated`, `format_tcgame`, `format_addrspan`
(`src/util/bitvec_format.rs`) and `format_default` / `format_mesen_mlb`
(`src/util/symbol_format.rs`).

A listing row is produced from one recorded span; the source excerpt (annotated, tcgame) and
the file name with start/end line and column (addrspan) are carried by the span.
-/
namespace Casm

structure LSpan where
  offset : Option Nat
  size : Nat
  addr : Int
  excerpt : List Char := []
  file : List Char := []
  loc : Option (Nat × Nat × Nat × Nat) := none     -- line start, column start, line end, column end
deriving Repr, Inhabited

/-- `Option<usize>` ordering: `None` first -/
def offLe (a b : Option Nat) : Bool :=
  match a, b with
  | none, _ => true
  | some _, none => false
  | some x, some y => x ≤ y

/-- stable insertion (after every element that is ≤) -/
def insertL (s : LSpan) : List LSpan → List LSpan
  | [] => [s]
  | t :: rest => if offLe t.offset s.offset then t :: insertL s rest else s :: t :: rest

/-- `sort_by(|a, b| a.offset.cmp(&b.offset))` (stable) -/
def sortL (l : List LSpan) : List LSpan := l.foldl (fun acc s => insertL s acc) []

/-- `(base - 1).count_ones()` -/
def countOnes : Nat → Nat → Nat
  | 0, _ => 0
  | fuel + 1, n => if n == 0 then 0 else n % 2 + countOnes fuel (n / 2)

def bitsPerDigit (base : Nat) : Nat := countOnes 64 (base - 1)

def hexInt (i : Int) : List Char := if i < 0 then '-' :: hexLow i.natAbs else hexLow i.toNat

/-- `{:>w$}` / `{:w$x}`: right-aligned -/
def padL (w : Nat) (s : List Char) : List Char := List.replicate (w - s.length) ' ' ++ s
/-- `{:w$}` on a string: left-aligned -/
def padR (w : Nat) (s : List Char) : List Char := s ++ List.replicate (w - s.length) ' '

structure Widths where
  outp : Nat := 2
  outpBit : Nat := 1
  addr : Nat := 4
  content : Nat

def dataDigits (size bpd : Nat) : Nat := size / bpd + (if size % bpd == 0 then 0 else 1)

/-- the column widths (first loop of `format_annotated` / `format_tcgame`) -/
def widths (spans : List LSpan) (bpd group : Nat) : Widths :=
  let bpg := group * bpd
  spans.foldl (fun (w : Widths) s =>
    match s.offset with
    | none => w
    | some off =>
      let dd := dataDigits s.size bpd
      let tcw := dd + dd / group
      { outp := max w.outp (hexLow (off / bpg)).length
        outpBit := max w.outpBit (hexLow (off % bpg)).length
        addr := max w.addr (hexInt s.addr).length
        content := if tcw > 1 && tcw ≤ (group + 1) * 5 then max w.content (tcw - 1) else w.content })
    { content := (group + 1) * 1 - 1 }

/-- the character of one digit (`'0' + d` / `'a' + d - 10` computed in `u8`, then `as char`) -/
def listingDigit (d : Nat) : Char := if d < 10 then Char.ofNat (48 + d) else Char.ofNat ((97 + d - 10) % 256)

/-- the value of digit `k` of a span: `bpd` bits read at `offset + k * bpd` (past the end: zeros) -/
def spanDigit (bits : Bits) (off bpd k : Nat) : Nat := chunkVal bits (off + k * bpd) bpd

/-- the data column of `format_annotated` -/
def annotatedData (bits : Bits) (off size bpd group : Nat) : List Char :=
  (List.range (dataDigits size bpd)).flatMap fun k =>
    (if k > 0 && k % group == 0 then [' '] else []) ++ [listingDigit (spanDigit bits off bpd k)]

def outpCols (w : Widths) (bpg : Nat) (off : Option Nat) : List Char :=
  match off with
  | some o => ' ' :: padL w.outp (hexLow (o / bpg)) ++ ':' :: padL w.outpBit (hexLow (o % bpg)) ++ " | ".toList
  | none => ' ' :: padL w.outp "--".toList ++ ':' :: padL w.outpBit "-".toList ++ " | ".toList

def annotatedRow (bits : Bits) (w : Widths) (bpd group : Nat) (s : LSpan) : List Char :=
  outpCols w (group * bpd) s.offset ++ padL w.addr (hexInt s.addr) ++ " | ".toList ++
  padR w.content (annotatedData bits (s.offset.getD 0) s.size bpd group) ++ " ; ".toList ++ s.excerpt ++ ['\n']

def listingHeader (w : Widths) (base : Nat) : List Char :=
  ' ' :: padL (w.outp + w.outpBit + 1) "outp".toList ++ " |".toList ++
  ' ' :: padL w.addr "addr".toList ++ " |".toList ++ " data (base ".toList ++ decStr base ++ ")\n\n".toList

/-- `format_annotated(base, digits_per_group)` -/
def formatAnnotated (base group : Nat) (bits : Bits) (spans : List LSpan) : List Char :=
  let bpd := bitsPerDigit base
  let sorted := sortL spans
  let w := widths sorted bpd group
  listingHeader w base ++ sorted.flatMap (annotatedRow bits w bpd group)

/-- the data line of `format_tcgame`: every group carries the `0x` / `0b` prefix -/
def tcgameData (bits : Bits) (off size bpd group : Nat) (pre : List Char) : List Char :=
  (List.range (dataDigits size bpd)).flatMap fun k =>
    (if k % group == 0 then (if k > 0 then [' '] else []) ++ pre else []) ++ [listingDigit (spanDigit bits off bpd k)]

def tcgameRow (bits : Bits) (w : Widths) (bpd group : Nat) (pre : List Char) (s : LSpan) : List Char :=
  "# ".toList ++ outpCols w (group * bpd) s.offset ++ padL w.addr (hexInt s.addr) ++ " \n".toList ++
  "# ".toList ++ s.excerpt ++ ['\n'] ++
  padR w.content (tcgameData bits (s.offset.getD 0) s.size bpd group pre) ++ ['\n']

/-- `format_tcgame(base, digits_per_group)` (base 2 or 16) -/
def formatTcgame (base group : Nat) (bits : Bits) (spans : List LSpan) : List Char :=
  let bpd := bitsPerDigit base
  let pre := if base == 2 then "0b".toList else "0x".toList
  let sorted := sortL spans
  let w := widths sorted bpd group
  '#' :: listingHeader w base ++ sorted.flatMap (tcgameRow bits w bpd group pre)

def addrspanRow (s : LSpan) : List Char :=
  (match s.offset with
   | some o => hexLow (o / 8) ++ ':' :: hexLow (o % 8) ++ " | ".toList
   | none => "-:- | ".toList) ++
  hexInt s.addr ++ " | ".toList ++
  (match s.loc with
   | some (ls, cs, le, ce) => s.file ++ ':' :: decStr ls ++ ':' :: decStr cs ++ ':' :: decStr le ++ ':' :: decStr ce
   | none => s.file ++ ":-:-:-:-".toList) ++ ['\n']

/-- `format_addrspan` -/
def formatAddrspan (spans : List LSpan) : List Char :=
  "; physical address : bit offset | logical address | file : line start : column start : line end : column end\n".toList ++
  (sortL spans).flatMap addrspanRow

/-! ## symbol tables -/

structure SymRow where
  name : List Char              -- full dotted name
  isConstant : Bool
  value : Int
  bank : Option (Int × Nat × Option Nat)     -- (addr_start, addr_unit, output_offset) of the bank of a label
deriving Repr, Inhabited

/-- `format_default`: the rows are the declared, emitted, integer-valued symbols in tree order -/
def formatSymbols (rows : List SymRow) : List Char :=
  rows.flatMap fun r => r.name ++ " = 0x".toList ++ hexInt r.value ++ ['\n']

/-- `maybe_into::<usize>()` -/
def toUsizeI (i : Int) : Option Nat :=
  match i with
  | .ofNat n => if n < 18446744073709551616 then some n else none
  | .negSucc _ => none

/-- one symbol in `format_mesen_mlb` -/
def mesenRow (r : SymRow) : List Char :=
  if r.isConstant then []
  else match r.bank with
    | none => []
    | some (addrStart, unit, outp) =>
      let nm := r.name.map fun c => if c == '.' then '_' else c
      match outp with
      | some o =>
        match toUsizeI r.value, toUsizeI addrStart with
        | some a, some a0 =>
          -- the file offset of the label in bytes: addresses count units of `unit` bits
          if a0 ≤ a && 16 ≤ ((a - a0) * unit + o) / 8 then "P:".toList ++ hexLow (((a - a0) * unit + o) / 8 - 16) ++ ':' :: nm ++ ['\n'] else []
        | _, _ => []
      | none => "R:".toList ++ hexInt r.value ++ ':' :: nm ++ ['\n']

/-- `format_mesen_mlb` -/
def formatMesen (rows : List SymRow) : List Char := rows.flatMap mesenRow

end Casm
