import Casm.Model.Show
/-!
# Casm.Model.Format — `src/util/bitvec_format.rs`, `BitVec::get_blocks`

Output bits are a `List Bool` (index 0 = first output bit); `readBit` is `false` beyond
the end, as `BitVec::read_bit`.  Every formatter is `render` of a small structured value
whose data fields are `chunks bits k` — the theorems of C11 are about those structures,
the correspondence compares the rendered text byte for byte with the implementation.
-/
namespace Casm

abbrev Bits := List Bool

def readBit (bits : Bits) (i : Nat) : Bool := bits.getD i false

/-- MSB-first value of a bit list -/
def bitsVal (l : List Bool) : Nat := l.foldl (fun acc b => 2 * acc + (if b then 1 else 0)) 0

/-- value of the `k` bits starting at `start` (zero beyond the end) -/
def chunkVal (bits : Bits) (start k : Nat) : Nat :=
  bitsVal ((List.range k).map fun j => readBit bits (start + j))

/-- number of `k`-bit chunks the `while index < len` loops produce -/
def numChunks (len k : Nat) : Nat := (len + k - 1) / k

/-- the chunk values, in order -/
def chunks (bits : Bits) (k : Nat) : List Nat :=
  (List.range (numChunks bits.length k)).map fun j => chunkVal bits (j * k) k

/-- MSB-first `k`-bit expansion of a number -/
def toBitsMSB (k n : Nat) : List Bool := (List.range k).map fun j => (n / 2 ^ (k - 1 - j)) % 2 == 1

/-! ## number formatting -/

def digitChar (upper : Bool) (d : Nat) : Char :=
  if d < 10 then Char.ofNat (48 + d) else Char.ofNat ((if upper then 55 else 87) + d)

def natDigits (base : Nat) (upper : Bool) : Nat → Nat → List Char → List Char
  | 0, _, acc => acc
  | fuel + 1, n, acc =>
    let acc := digitChar upper (n % base) :: acc
    if n / base = 0 then acc else natDigits base upper fuel (n / base) acc

def showBase (base : Nat) (upper : Bool) (n : Nat) : List Char := natDigits base upper (n + 1) n []

def padLeft (c : Char) (w : Nat) (s : List Char) : List Char := List.replicate (w - s.length) c ++ s

def hexLow (n : Nat) : List Char := showBase 16 false n
def hexUp (n : Nat) : List Char := showBase 16 true n
def decStr (n : Nat) : List Char := showBase 10 false n

/-! ## raw / strings -/

def fmtBinary (bits : Bits) : List Nat := chunks bits 8

def fmtStr (k : Nat) (bits : Bits) : List Char := (chunks bits k).map (digitChar false)

/-! ## dumps -/

def dumpLineCount (len bpl : Nat) : Nat := max 1 ((len + bpl * 8 - 1) / (8 * bpl))

def dumpAsciiChar (b : Nat) : Char :=
  if b == 32 || b == 9 || b == 13 || b == 10 then ' '
  else if b ≥ 0x80 || b < 32 || b == 124 then '.'
  else Char.ofNat b

/-- one line of `format_dump(digit_bits, 8, bytes_per_line)` -/
def dumpLine (bits : Bits) (digitBits bpl addrW line : Nat) : List Char :=
  let len := bits.length
  let addr := [' '] ++ padLeft '0' addrW (hexLow (line * bpl)) ++ " | ".toList
  let body := (List.range bpl).flatMap fun byteIndex =>
    let digs := (List.range (8 / digitBits)).map fun digitIndex =>
      let first := (line * bpl + byteIndex) * 8 + digitIndex * digitBits
      if first ≥ len then '.' else digitChar false (chunkVal bits first digitBits)
    digs ++ [' '] ++ (if byteIndex % 4 == 3 && byteIndex < bpl - 1 then [' '] else [])
  let ascii := (List.range bpl).map fun byteIndex =>
    let first := (line * bpl + byteIndex) * 8
    if first ≥ len then '.' else dumpAsciiChar (chunkVal bits first 8)
  addr ++ body ++ "| ".toList ++ ascii ++ " |\n".toList

def fmtDump (digitBits bpl : Nat) (bits : Bits) : List Char :=
  let lines := dumpLineCount bits.length bpl
  let addrW := (hexLow ((lines - 1) * bpl)).length
  (List.range lines).flatMap fun l => dumpLine bits digitBits bpl addrW l

/-! ## MIF -/

def fmtMif (bits : Bits) : List Char :=
  let bytes := chunks bits 8
  let n := bytes.length
  let addrW := (hexLow (n - 1)).length
  ("DEPTH = ".toList ++ decStr n ++ ";\nWIDTH = 8;\nADDRESS_RADIX = HEX;\nDATA_RADIX = HEX;\n\nCONTENT\nBEGIN\n".toList)
  ++ ((List.range n).flatMap fun i =>
        [' '] ++ padLeft ' ' addrW (hexUp i) ++ ": ".toList ++ padLeft '0' 2 (hexUp (bytes.getD i 0)) ++ ";\n".toList)
  ++ "END;".toList

/-! ## separators and C arrays -/

def fmtByteRadix (radix : Nat) (b : Nat) : List Char :=
  if radix == 10 then decStr b else "0x".toList ++ padLeft '0' 2 (hexLow b)

def fmtSeparator (radix : Nat) (sep : List Char) (bits : Bits) : List Char :=
  let bytes := chunks bits 8
  let n := bytes.length
  (List.range n).flatMap fun i =>
    fmtByteRadix radix (bytes.getD i 0) ++
    (if (i + 1) * 8 < bits.length then sep ++ (if (i + 1) % 16 == 0 then ['\n'] else []) else [])

def fmtCArray (radix : Nat) (bits : Bits) : List Char :=
  let bytes := chunks bits 8
  let n := bytes.length
  let addrW := (hexLow (n - 1)).length
  "const unsigned char data[] = {\n".toList ++
  "\t/* 0x".toList ++ padLeft '0' addrW (hexLow 0) ++ " */ ".toList ++
  ((List.range n).flatMap fun i =>
    fmtByteRadix radix (bytes.getD i 0) ++
    (if (i + 1) * 8 < bits.length then
      ", ".toList ++ (if (i + 1) % 16 == 0 then "\n\t/* 0x".toList ++ padLeft '0' addrW (hexLow (i + 1)) ++ " */ ".toList else [])
     else [])) ++
  "\n};".toList

/-! ## Logisim -/

def fmtLogisim (k : Nat) (bits : Bits) : List Char :=
  let cs := chunks bits k
  "v2.0 raw\n".toList ++
  ((List.range cs.length).flatMap fun i =>
    padLeft '0' (k / 4) (hexLow (cs.getD i 0)) ++ [' '] ++
    (if (((i + 1) * k) / 8) % 16 == 0 then ['\n'] else []))

/-! ## Intel HEX -/

structure Span where
  offset : Option Nat
  size : Nat
deriving Repr, Inhabited

structure Block where
  offset : Nat
  size : Nat
deriving Repr, DecidableEq, Inhabited

/-- insertion of a span into a list sorted by `offset` (`None` first), stable -/
def insertSpan (s : Span) : List Span → List Span
  | [] => [s]
  | t :: ts =>
    let le : Bool := match t.offset, s.offset with
      | none, _ => true
      | some _, none => false
      | some a, some b => a ≤ b
    if le then t :: insertSpan s ts else s :: t :: ts

def sortSpans (l : List Span) : List Span := l.foldl (fun acc s => insertSpan s acc) []

/-- the loop of `BitVec::get_blocks` over the sorted spans -/
def blocksLoop : List Span → Option Nat → Nat → List Block → List Block
  | [], origin, size, acc =>
    match origin with
    | some o => if size != 0 then (acc ++ [⟨o, size⟩]) else acc
    | none => acc
  | s :: rest, origin, size, acc =>
    match s.offset with
    | none => blocksLoop rest origin size acc
    | some off =>
      let (origin, acc) :=
        match origin with
        | some o =>
          if off != o + size then
            (none, if size != 0 then acc ++ [⟨o, size⟩] else acc)
          else (some o, acc)
        | none => (none, acc)
      match origin with
      | none => blocksLoop rest (some off) (0 + s.size) acc
      | some o => blocksLoop rest (some o) (size + s.size) acc

def getBlocks (spans : List Span) : List Block := blocksLoop (sortSpans spans) none 0 []

structure IHexRecord where
  addr : Nat          -- accum_index / address_unit (before truncation to 16 bits)
  bytes : List Nat
deriving Repr, DecidableEq

/-- bytes of a block: `ceil(size/8)` bytes read from the block start -/
def blockBytes (bits : Bits) (b : Block) : List Nat :=
  (List.range ((b.size + 7) / 8)).map fun j => chunkVal bits (b.offset + 8 * j) 8

def splitEvery (n : Nat) : Nat → List Nat → List (List Nat)
  | 0, _ => []
  | _, [] => []
  | fuel + 1, l => l.take n :: splitEvery n fuel (l.drop n)

/-- records of one block: 32 bytes each, record `j` starts at bit `offset + 256 j` -/
def blockRecords (bits : Bits) (unit : Nat) (b : Block) : List IHexRecord :=
  let bytes := blockBytes bits b
  let groups := splitEvery 32 (bytes.length + 1) bytes
  (List.range groups.length).map fun j => ⟨(b.offset + 256 * j) / unit, groups.getD j []⟩

def ihexChecksum (r : IHexRecord) : Nat :=
  let sum := r.bytes.length + (r.addr / 256) % 256 + r.addr % 256 + r.bytes.foldl (· + ·) 0
  (256 - sum % 256) % 256

def renderIHexRecord (r : IHexRecord) : List Char :=
  [':'] ++ padLeft '0' 2 (hexUp r.bytes.length) ++ padLeft '0' 2 (hexUp ((r.addr / 256) % 256)) ++
  padLeft '0' 2 (hexUp (r.addr % 256)) ++ "00".toList ++
  (r.bytes.flatMap fun b => padLeft '0' 2 (hexUp b)) ++ padLeft '0' 2 (hexUp (ihexChecksum r)) ++ ['\n']

def ihexRecords (unit : Nat) (bits : Bits) (spans : List Span) : List IHexRecord :=
  (getBlocks spans).flatMap (blockRecords bits unit)

/-- what is written: data records with 16 address bits, and Extended Linear Address records (type 04) that set the upper
    16 bits for the data records after them (finding F72, repaired: the upper bits were dropped) -/
inductive IHexLine where
  | data (addr16 : Nat) (bytes : List Nat)
  | ext (upper : Nat)
deriving Repr, DecidableEq

/-- `upper` is the value set by the latest type-04 record (0 at the start of the file) -/
def ihexLines : Nat → List IHexRecord → List IHexLine
  | _, [] => []
  | upper, r :: rs =>
    let u := (r.addr / 65536) % 65536
    (if u ≠ upper then [.ext u] else []) ++ .data (r.addr % 65536) r.bytes :: ihexLines u rs

def renderIHexLine : IHexLine → List Char
  | .data a bytes => renderIHexRecord ⟨a, bytes⟩
  | .ext u =>
    let sum := 2 + 4 + (u / 256) % 256 + u % 256
    ":02000004".toList ++ padLeft '0' 2 (hexUp ((u / 256) % 256)) ++ padLeft '0' 2 (hexUp (u % 256)) ++
    padLeft '0' 2 (hexUp ((256 - sum % 256) % 256)) ++ ['\n']

def fmtIntelHex (unit : Nat) (bits : Bits) (spans : List Span) : List Char :=
  ((ihexLines 0 (ihexRecords unit bits spans)).flatMap renderIHexLine) ++ ":00000001FF".toList

end Casm
