import Casm.Model.Util
/-!
# Casm.Model.FileNav — `src/util/file_navigation.rs`, include expansion of
`src/asm/parser/mod.rs`, and the range logic of `incbin` / `incbinstr` / `inchexstr`
(`src/asm/resolver/eval_fn.rs`)

`filename_validate_relative` only rejects Windows path prefixes (`Component::Prefix`),
which do not exist on this platform; it is modelled as always succeeding.
-/
namespace Casm

def stdPrefix : List Char := "<std>/".toList

def isStdPath (p : List Char) : Bool := stdPrefix.isPrefixOf p

inductive NavErr | invalidFilename | outOfProject
deriving DecidableEq, Repr

def fixSlashes (s : List Char) : List Char := s.map fun c => if c == '\\' then '/' else c

/-- the `..`-collapsing loop -/
def collapseDots : List (List Char) → List (List Char) → Except NavErr (List (List Char))
  | [], acc => .ok acc.reverse
  | c :: rest, acc =>
    if c == "..".toList then
      match acc with
      | [] => .error .outOfProject
      | _ :: acc' => collapseDots rest acc'
    else collapseDots rest (c :: acc)

/-- the components of the navigated path (before they are joined with `/`) -/
def navComps (current relative : List Char) : Except NavErr (List (List Char)) :=
  let cur := fixSlashes current
  let nav := fixSlashes relative
  let curComps := (splitOnChar '/' cur).dropLast
  let base := if nav.head? == some '/' then [] else curComps
  let relComps := (splitOnChar '/' nav).filter fun s => !s.isEmpty && s != ".".toList
  if relComps.isEmpty then .error .invalidFilename
  else collapseDots (base ++ relComps) []

/-- `filename_navigate(current, relative)` -/
def filenameNavigate (current relative : List Char) : Except NavErr (List Char) :=
  if isStdPath relative then .ok relative
  else
    match navComps current relative with
    | .error e => .error e
    | .ok comps =>
      let name := joinWith ['/'] comps
      if comps.isEmpty || name == [] || name == ".".toList || name == "/".toList then .error .invalidFilename
      else .ok name

/-! ## include expansion -/

inductive FOp where
  | include (rel : List Char)
  | once
  | marker (k : Nat)
deriving Repr, DecidableEq

abbrev Files := List (List Char × List FOp)

def Files.get (fs : Files) (name : List Char) : Option (List FOp) := (fs.find? (·.1 == name)).map (·.2)

inductive IncErr | notFound | nav (e : NavErr) | recursive | fuel
deriving DecidableEq, Repr

mutual
/-- `parse_and_resolve_includes`: the marker sequence of the expansion and the updated
    `#once` set -/
def expandFile (fs : Files) : Nat → List Char → List (List Char) → List (List Char) →
    Except IncErr (List Nat × List (List Char))
  | 0, _, _, _ => .error .fuel
  | fuel + 1, name, seen, once =>
    if once.contains name then .ok ([], once)
    else match fs.get name with
      | none => .error .notFound
      | some ops =>
        let once := if ops.contains .once then name :: once else once
        expandOps fs fuel name ops seen once []

/-- the `while node_index < nodes.len()` loop -/
def expandOps (fs : Files) : Nat → List Char → List FOp → List (List Char) → List (List Char) → List Nat →
    Except IncErr (List Nat × List (List Char))
  | 0, _, _, _, _, _ => .error .fuel
  | _ + 1, _, [], _, once, acc => .ok (acc.reverse, once)
  | fuel + 1, name, op :: rest, seen, once, acc =>
    match op with
    | .marker k => expandOps fs fuel name rest seen once (k :: acc)
    | .once => expandOps fs fuel name rest seen once acc
    | .include rel =>
      match filenameNavigate name rel with
      | .error e => .error (.nav e)
      | .ok inc =>
        if seen.contains inc then .error .recursive
        else match expandFile fs fuel inc (inc :: seen) once with
          | .error e => .error e
          | .ok (ms, once') => expandOps fs fuel name rest seen once' (ms.reverse ++ acc)
end

/-- generous fuel: every step consumes one op or descends into one file -/
def expandFuel (fs : Files) : Nat :=
  let total := fs.foldl (fun n f => n + f.2.length + 2) 2
  (total + 2) * (fs.length + 3)

/-! ## `incbin` / `incbinstr` / `inchexstr` ranges -/

inductive RangeErr | startsAfterEof | endsAfterEof | invalidChar
deriving DecidableEq, Repr

/-- `eval_builtin_incbin` after the file was read: `args` = number of call arguments
    (1..3); the result is the selected bytes -/
def incbinRange (bytes : List Nat) (args : Nat) (start size : Nat) : Except RangeErr (List Nat) :=
  let start := if args ≥ 2 then start else 0
  let stop := if args ≥ 3 then start + size else bytes.length
  if bytes.length = 0 ∧ args < 2 then .ok []
  else if start ≥ bytes.length then .error .startsAfterEof
  else if stop > bytes.length then .error .endsAfterEof
  else .ok ((bytes.drop start).take (stop - start))

/-- digits of the file for `incbinstr` (k = 1) / `inchexstr` (k = 4): blanks, `_`, CR, LF skipped -/
def incstrDigits (k : Nat) : List Char → Except RangeErr (List Nat)
  | [] => .ok []
  | c :: cs =>
    if c == ' ' || c == '\t' || c == '\r' || c == '_' || c == '\n' then incstrDigits k cs
    else
      let d : Option Nat :=
        if '0' ≤ c && c ≤ '9' then some (c.toNat - 48)
        else if 'a' ≤ c && c ≤ 'z' then some (c.toNat - 87)
        else if 'A' ≤ c && c ≤ 'Z' then some (c.toNat - 55)
        else none
      match d with
      | some d => if d < 2 ^ k then (incstrDigits k cs).map (d :: ·) else .error .invalidChar
      | none => .error .invalidChar

/-- `eval_builtin_incstr`: the selected digits -/
def incstrRange (digits : List Nat) (args : Nat) (start size : Nat) : Except RangeErr (List Nat) :=
  let start := if args ≥ 2 then start else 0
  let stop := if args ≥ 3 then start + size else digits.length
  if digits.length = 0 ∧ args < 2 then .ok []
  else if start ≥ digits.length then .error .startsAfterEof
  else if stop > digits.length then .error .endsAfterEof
  else .ok ((digits.drop start).take (stop - start))

end Casm
