import Casm.Model.Parse
import Casm.Model.Inspect
import Casm.Gen.Consts
/-!
# Casm.Model.Matcher — `src/asm/defs/ruledef.rs`, `ruledef_map.rs`, `src/asm/matcher/mod.rs`
-/
namespace Casm

inductive RParamTy where
  | unspecified
  | ruledefRef (idx : Nat)
  | unsigned (n : Nat)
  | signed (n : Nat)
  | integer (n : Nat)
deriving Repr, DecidableEq, Inhabited

inductive RPart where
  | whitespace
  | exact (c : Char)
  | param (idx : Nat)
deriving Repr, DecidableEq, Inhabited

structure Rule where
  pattern : List RPart
  exactCount : Nat
  params : List (String × RParamTy)
  expr : Expr
deriving Repr, Inhabited

structure Ruledef where
  isSub : Bool
  rules : List Rule
deriving Repr, Inhabited

mutual
inductive IMatch where
  | mk (ruledef rule : Nat) (args : List IArg)
inductive IArg where
  | expr (e : Expr) (start stop : Nat) (excerpt : List Char)
  | nested (m : IMatch) (start stop : Nat) (excerpt : List Char)
end

instance : Inhabited IMatch := ⟨.mk 0 0 []⟩

def IMatch.ruledef : IMatch → Nat | .mk r _ _ => r
def IMatch.rule : IMatch → Nat | .mk _ r _ => r
def IMatch.args : IMatch → List IArg | .mk _ _ a => a
def IMatch.push (m : IMatch) (a : IArg) : IMatch := .mk m.ruledef m.rule (m.args ++ [a])
def IArg.excerpt : IArg → List Char
  | .expr _ _ _ x => x
  | .nested _ _ _ x => x

mutual
/-- `InstructionMatch::is_same` -/
def IMatch.isSame : IMatch → IMatch → Bool
  | .mk d1 r1 a1, .mk d2 r2 a2 => d1 == d2 && r1 == r2 && a1.length == a2.length && argsSame a1 a2
def argsSame : List IArg → List IArg → Bool
  | [], _ => true
  | _, [] => true
  | a :: as, b :: bs => IArg.isSame a b && argsSame as bs
def IArg.isSame : IArg → IArg → Bool
  | .expr _ s1 e1 _, .expr _ s2 e2 _ => s1 == s2 && e1 == e2
  | .nested m1 s1 e1 _, .nested m2 s2 e2 _ => s1 == s2 && e1 == e2 && IMatch.isSame m1 m2
  | _, _ => false
end

/-! ## the walker of the matcher: cursor, cursor limit, absolute position -/

structure MW where
  rest : List Char     -- text from the cursor to the end of the instruction
  limit : Nat          -- number of characters of `rest` that are visible (cursor_limit - cursor_index)
  pos : Nat            -- absolute character index of the cursor
deriving Repr, Inhabited

def MW.vis (w : MW) : Src := w.rest.take w.limit
def MW.advance (w : MW) (k : Nat) : MW := ⟨w.rest.drop k, w.limit - k, w.pos + k⟩
def MW.isOver (w : MW) : Bool := w.limit == 0
/-- absolute `cursor_limit` -/
def MW.absLimit (w : MW) : Nat := w.pos + w.limit
def MW.setAbsLimit (w : MW) (l : Nat) : MW := { w with limit := l - w.pos }

/-- `next_useful_index()` (absolute) -/
def MW.nextUsefulIndex (w : MW) : Nat :=
  let v := w.vis
  w.pos + (v.length - (skipIgnorable v).length)

def eqIgnoreAsciiCase (a b : Char) : Bool := lowerAscii a == lowerAscii b

/-- `maybe_expect_char(c)` -/
def MW.maybeExpectChar (w : MW) (c : Char) : Option MW :=
  let v := w.vis
  let v' := skipIgnorable v
  let skipped := v.length - v'.length
  match v' with
  | [] => none
  | ch :: _ => if eqIgnoreAsciiCase ch c then some (w.advance (skipped + 1)) else none

/-- `find_lookahead_char_index(c)` (absolute index); comments are skipped as a whole, as the tokenizer
    does (fuel = number of characters) -/
def lookaheadScan (wanted : Char) : Nat → List Char → Nat → Bool → Nat → Nat → Option Nat
  | 0, _, _, _, _, _ => none
  | _ + 1, [], _, _, _, _ => none
  | fuel + 1, c :: cs, idx, seen, paren, brace =>
    if c == ';' then
      let n := (decideNextToken (c :: cs)).2
      let n := if n == 0 then 1 else n
      lookaheadScan wanted fuel ((c :: cs).drop n) (idx + n) seen paren brace
    else if c == '"' && (decideNextToken (c :: cs)).1 == .String then
      -- a string literal is skipped as a whole, and counts as a token seen
      let n := (decideNextToken (c :: cs)).2
      let n := if n == 0 then 1 else n
      lookaheadScan wanted fuel ((c :: cs).drop n) (idx + n) true paren brace
    else if eqIgnoreAsciiCase c wanted && seen && paren == 0 && brace == 0 then some idx
    else if c == '(' then lookaheadScan wanted fuel cs (idx + 1) (seen || !isWhitespace c) (paren + 1) brace
    else if c == ')' then
      if paren == 0 then none else lookaheadScan wanted fuel cs (idx + 1) (seen || !isWhitespace c) (paren - 1) brace
    else if c == '{' then lookaheadScan wanted fuel cs (idx + 1) (seen || !isWhitespace c) paren (brace + 1)
    else if c == '}' then
      if brace == 0 then none else lookaheadScan wanted fuel cs (idx + 1) (seen || !isWhitespace c) paren (brace - 1)
    else lookaheadScan wanted fuel cs (idx + 1) (seen || !isWhitespace c) paren brace

def MW.findLookaheadCharIndex (w : MW) (c : Char) : Option Nat := lookaheadScan c (w.vis.length + 1) w.vis w.pos false 0 0

/-- `find_lookahead_char(pattern, at)`: the next exact part after `at`, skipping whitespace parts -/
def findLookaheadChar : List RPart → Option Char
  | [] => none
  | .whitespace :: rest => findLookaheadChar rest
  | .exact c :: _ => some c
  | .param _ :: _ => none

/-- `expr::parse_optional` on the visible text; returns the expression and the characters consumed -/
def parseOptionalOn (v : Src) : Option (Expr × Nat) :=
  match parseExpr (parseFuel v) 0 v with
  | .ok (e, rest) => some (e, v.length - rest.length)
  | .error _ => none

abbrev Working := List (IMatch × MW)

mutual
/-- `match_with_rule` from pattern position `parts` (the remaining parts) -/
def matchWithRule (defs : List Ruledef) : Nat → Rule → List RPart → MW → Bool → IMatch → Working
  | 0, _, _, _, _, _ => []
  | _ + 1, _, [], w, consumeAll, m => if !w.isOver && consumeAll then [] else [(m, w)]
  | fuel + 1, rule, part :: rest, w, consumeAll, m =>
    match part with
    | .exact c =>
      match w.maybeExpectChar c with
      | none => []
      | some w' => matchWithRule defs fuel rule rest w' consumeAll m
    | .whitespace =>
      if !w.isOver && (tokenAt w.vis).kind != .Whitespace && (tokenAt w.vis).kind != .Comment then []
      else matchWithRule defs fuel rule rest w consumeAll m
    | .param idx =>
      match (rule.params.getD idx ("", .unspecified)).2 with
      | .ruledefRef r =>
        matchNested defs fuel r rule rest w consumeAll false m ++ matchNested defs fuel r rule rest w consumeAll true m
      | _ =>
        matchExpr defs fuel rule rest w consumeAll false m ++ matchExpr defs fuel rule rest w consumeAll true m

/-- `match_with_expr` -/
def matchExpr (defs : List Ruledef) : Nat → Rule → List RPart → MW → Bool → Bool → IMatch → Working
  | 0, _, _, _, _, _, _ => []
  | fuel + 1, rule, rest, w, consumeAll, lookahead, m =>
    let start := w.nextUsefulIndex
    -- `parse_with_lookahead`
    let cut : Option MW :=
      if !lookahead then some w
      else match findLookaheadChar rest with
        | none => none
        | some c => (w.findLookaheadCharIndex c).map fun l => w.setAbsLimit l
    match cut with
    | none => []
    | some wc =>
      match parseOptionalOn wc.vis with
      | none => []
      | some (e, consumed) =>
        let w' := (wc.advance consumed).setAbsLimit w.absLimit
        let stop := w'.pos
        let start := min start stop
        let excerpt := (w.rest.drop (start - w.pos)).take (stop - start)
        matchWithRule defs fuel rule rest w' consumeAll (m.push (.expr e start stop excerpt))

/-- `match_with_nested_ruledef` -/
def matchNested (defs : List Ruledef) : Nat → Nat → Rule → List RPart → MW → Bool → Bool → IMatch → Working
  | 0, _, _, _, _, _, _, _ => []
  | fuel + 1, r, rule, rest, w, consumeAll, lookahead, m =>
    let start := w.nextUsefulIndex
    let cut : Option MW :=
      if !lookahead then some w
      else match findLookaheadChar rest with
        | none => none
        | some c => (w.findLookaheadCharIndex c).map fun l => w.setAbsLimit l
    match cut with
    | none => []
    | some wc =>
      let nested := matchWithRuledef defs fuel r wc false
      nested.flatMap fun (nm, nw) =>
        let w' := nw.setAbsLimit w.absLimit
        let stop := w'.pos
        let start := min start stop
        let excerpt := (w.rest.drop (start - w.pos)).take (stop - start)
        matchWithRule defs fuel rule rest w' consumeAll (m.push (.nested nm start stop excerpt))

/-- `match_with_ruledef`: every rule of the block, from the same starting walker -/
def matchWithRuledef (defs : List Ruledef) : Nat → Nat → MW → Bool → Working
  | 0, _, _, _ => []
  | fuel + 1, r, w, consumeAll =>
    let rd := defs.getD r default
    (List.range rd.rules.length).flatMap fun i =>
      let rule := rd.rules.getD i default
      matchWithRule defs fuel rule rule.pattern w consumeAll (.mk r i [])
end

/-! ## prefix index -/

/-- the rule's prefix: leading exact characters (lower-cased), at most `MAX_PREFIX_SIZE` -/
def rulePrefix : List RPart → Nat → List Char
  | _, 0 => []
  | .exact c :: rest, n + 1 => lowerAscii c :: rulePrefix rest n
  | _, _ => []

/-- `RuledefMap::parse_prefix(walker)`: characters of the leading allowed-pattern tokens -/
def parsePrefixAux : Nat → Src → Nat → List Char
  | 0, _, _ => []
  | _, _, 0 => []
  | fuel + 1, s, room =>
    match s with
    | [] => []       -- the end-of-text token is a LineBreak: not a pattern token
    | _ =>
      let t := tokenAt s
      if t.kind.isAllowedPattern then
        let cs := (t.text.map lowerAscii).take room
        cs ++ parsePrefixAux fuel (s.drop t.text.length) (room - cs.length)
      else []

def parsePrefix (s : Src) : List Char := parsePrefixAux (s.length + 1) s Gen.MAX_PREFIX_SIZE

/-- the prefix `parse_prefix` would see if it skipped ignorable tokens the way the matcher's exact
    parts do (used only to attribute optimised/unoptimised differences, finding F10) -/
def squeezedPrefixAux : Nat → Src → Nat → List Char
  | 0, _, _ => []
  | _, _, 0 => []
  | fuel + 1, s, room =>
    match s with
    | [] => []
    | _ =>
      let t := tokenAt s
      if t.kind.isIgnorable then squeezedPrefixAux fuel (s.drop t.text.length) room
      else if t.kind.isAllowedPattern then
        let cs := (t.text.map lowerAscii).take room
        cs ++ squeezedPrefixAux fuel (s.drop t.text.length) (room - cs.length)
      else []

def squeezedPrefix (s : Src) : List Char := squeezedPrefixAux (s.length + 1) s Gen.MAX_PREFIX_SIZE

/-- no ignorable token lies inside the leading literal characters the prefix index looks at -/
def noBlankInLeadingLiteral (s : Src) : Bool := squeezedPrefix s == parsePrefix s

/-- the (ruledef, rule) pairs in insertion order whose prefix is exactly `p` -/
def entriesWithPrefix (defs : List Ruledef) (p : List Char) : List (Nat × Nat) :=
  (List.range defs.length).flatMap fun r =>
    let rd := defs.getD r default
    if rd.isSub then []
    else (List.range rd.rules.length).filterMap fun i =>
      if rulePrefix (rd.rules.getD i default).pattern Gen.MAX_PREFIX_SIZE == p then some (r, i) else none

/-- `query_prefixed`: every sub-prefix of the instruction's prefix, shortest first -/
def queryPrefixed (defs : List Ruledef) (p : List Char) : List (Nat × Nat) :=
  (List.range (p.length + 1)).flatMap fun i => entriesWithPrefix defs (p.take i)

/-- every rule of every top-level (non-sub) block, in declaration order -/
def allRules (defs : List Ruledef) : List (Nat × Nat) :=
  (List.range defs.length).flatMap fun r =>
    let rd := defs.getD r default
    if rd.isSub then [] else (List.range rd.rules.length).map fun i => (r, i)

mutual
/-- `get_recursive_exact_part_count` -/
def exactCountRec (defs : List Ruledef) : IMatch → Nat
  | .mk r i args => ((defs.getD r default).rules.getD i default).exactCount + exactCountArgs defs args
def exactCountArgs (defs : List Ruledef) : List IArg → Nat
  | [] => 0
  | .nested m _ _ _ :: rest => exactCountRec defs m + exactCountArgs defs rest
  | .expr _ _ _ _ :: rest => exactCountArgs defs rest
end

/-- duplicate removal: a match is dropped when an earlier one `is_same` -/
def dedupMatches : List IMatch → List IMatch → List IMatch
  | [], acc => acc
  | m :: rest, acc => if acc.any (fun a => m.isSame a) then dedupMatches rest acc else dedupMatches rest (acc ++ [m])

def matchFuel (src : List Char) : Nat := 200 + 8 * src.length

/-- every way the candidate rules match the whole instruction text -/
def workingOf (defs : List Ruledef) (src : List Char) (cands : List (Nat × Nat)) : Working :=
  let w : MW := ⟨src, src.length, 0⟩
  cands.flatMap fun (r, i) =>
    let rule := (defs.getD r default).rules.getD i default
    matchWithRule defs (matchFuel src) rule rule.pattern w true (.mk r i [])

/-- duplicate removal, then only the matches with the largest count of literal pattern parts -/
def selectMatches (defs : List Ruledef) (working : Working) : List IMatch :=
  let ms := dedupMatches (working.map (·.1)) []
  match ms with
  | [] => []
  | _ =>
    let counts := ms.map (exactCountRec defs)
    let mx := counts.foldl max 0
    ms.filter fun m => exactCountRec defs m == mx

/-- `match_instr(opts, defs, src)`: the candidate rules come from the prefix index, or are
    every rule (`match_with_ruledef` per block) -/
def matchInstr (optMatcher : Bool) (defs : List Ruledef) (src : List Char) : List IMatch :=
  selectMatches defs (workingOf defs src (if optMatcher then queryPrefixed defs (parsePrefix src) else allRules defs))

end Casm
