import Casm.Model.ExprEval
/-!
# Casm.Model.Inspect — `src/expr/inspect.rs`: `get_static_size`, `is_value_statically_known`
-/
namespace Casm

structure SKLocal where
  size : Option Nat := none
  valueKnown : Bool := false
deriving Repr, Inhabited

structure SKProvider where
  locals : List (String × SKLocal) := []
  queryVariable : Nat → List String → Bool := fun _ _ => false
  queryFunction : String → Bool := fun _ => false

def SKProvider.local? (p : SKProvider) (n : String) : Option SKLocal := (p.locals.find? (·.1 == n)).map (·.2)
def SKProvider.setLocal (p : SKProvider) (n : String) (l : SKLocal) : SKProvider :=
  { p with locals := (n, l) :: p.locals.filter (·.1 != n) }

/-- `try_eval_usize`: evaluation with the dummy provider, as a machine word -/
def tryEvalUsize (e : Expr) : Option Nat :=
  match eval dummyEnv {} e with
  | .ok (.int b, _) => toUsize b.v
  | _ => none

def builtinStaticallyKnownValue (n : String) : Bool :=
  match Gen.builtinStaticallyKnown.find? (·.1 == n) with
  | some p => p.2
  | none => false

mutual
/-- `get_static_size` -/
def staticSize (p : SKProvider) : Expr → Option Nat
  | .var level path =>
    match level, path with
    | 0, [n] => (p.local? n).bind (·.size)
    | _, _ => none
  | .lit (.int b) => b.size
  | .lit _ => none
  | .un _ _ => none
  | .bin .Concat l r =>
    match staticSize p l, staticSize p r with
    -- a sum that does not fit a machine word has no static size (finding F82, repaired: it wrapped)
    | some a, some b => if a + b < USIZE_MAX1 then some (a + b) else none
    | _, _ => none
  | .bin _ _ _ => none
  | .slice hi lo _ =>
    match tryEvalUsize hi, tryEvalUsize lo with
    | some h, some l => if l > h then none else if h + 1 ≥ USIZE_MAX1 then none else some (h + 1 - l)
    | _, _ => none
  | .sliceShort size _ => tryEvalUsize size
  | .tern _ t f =>
    match staticSize p t, staticSize p f with
    | some a, some b => if a == b then some a else none
    | _, _ => none
  | .block es => staticSizeLast p es
  | .call f args =>
    match f with
    | .var 0 [n] =>
      -- `get_static_size_builtin_fn`: sizeof and le pass the size of their single argument through
      if n == "sizeof" || n == "le" then
        match args with
        | [a] => staticSize p a
        | _ => none
      else none
    | _ => none
  | .asm _ => none

def staticSizeLast (p : SKProvider) : List Expr → Option Nat
  | [] => none
  | [e] => staticSize p e
  | _ :: es => staticSizeLast p es
end

mutual
/-- `is_value_statically_known` -/
def staticallyKnown (p : SKProvider) : Expr → Bool
  | .var level path =>
    match level, path with
    | 0, [n] =>
      match p.local? n with
      | some l => l.valueKnown
      | none => p.queryVariable level path
    | _, _ => p.queryVariable level path
  | .lit _ => true
  | .un _ _ => false
  | .bin _ l r => staticallyKnown p l && staticallyKnown p r
  | .slice hi lo e => staticallyKnown p hi && staticallyKnown p lo && staticallyKnown p e
  | .sliceShort s e => staticallyKnown p s && staticallyKnown p e
  | .tern c t f => staticallyKnown p c && staticallyKnown p t && staticallyKnown p f
  | .block es => staticallyKnownAll p es
  | .call f args =>
    match f with
    | .var 0 names =>
      if !staticallyKnownAll p args then false
      else match names with
        -- a local of this name hides the function when the call is evaluated
        | [n] => builtinStaticallyKnownValue n || ((p.local? n).isNone && p.queryFunction n)
        | _ => false
    | _ => false
  | .asm _ => false

def staticallyKnownAll (p : SKProvider) : List Expr → Bool
  | [] => true
  | e :: es => staticallyKnown p e && staticallyKnownAll p es
end

end Casm
