import Casm.Gen.Tokens
/-!
# Casm.Model.Token — `src/syntax/token.rs`

`decideNextToken` mirrors `decide_next_token`: the token classes are tried in the order
whitespace, comment, number, identifier, special, string, and the fallback is an `Error`
token.  Text is a `List Char`; lengths are counted in characters here and converted to
UTF-8 byte lengths by `utf8Len` where the Rust code works with byte offsets.
-/
namespace Casm

def isWhitespace (c : Char) : Bool := c == ' ' || c == '\t' || c == '\r'
def isIdentStart (c : Char) : Bool := ('a' ≤ c && c ≤ 'z') || ('A' ≤ c && c ≤ 'Z') || c == '_'
def isIdentMid (c : Char) : Bool :=
  ('a' ≤ c && c ≤ 'z') || ('A' ≤ c && c ≤ 'Z') || ('0' ≤ c && c ≤ '9') || c == '_'
def isNumberStart (c : Char) : Bool := '0' ≤ c && c ≤ '9'
def isNumberMid (c : Char) : Bool := isIdentMid c
def isBinMid (c : Char) : Bool := ('0' ≤ c && c ≤ '1') || c == '_'
def isHexMid (c : Char) : Bool :=
  ('a' ≤ c && c ≤ 'f') || ('A' ≤ c && c ≤ 'F') || ('0' ≤ c && c ≤ '9') || c == '_'

/-- UTF-8 length of one scalar value (`char::len_utf8`). -/
def utf8LenChar (c : Char) : Nat :=
  if c.val < 0x80 then 1 else if c.val < 0x800 then 2 else if c.val < 0x10000 then 3 else 4

def utf8Len (cs : List Char) : Nat := cs.foldl (fun a c => a + utf8LenChar c) 0

/-- number of leading characters satisfying `p` -/
def spanLen (p : Char → Bool) : List Char → Nat
  | [] => 0
  | c :: cs => if p c then spanLen p cs + 1 else 0

/-- `consume_while(start, mid)`: length consumed, `none` if the first char fails `start` -/
def consumeWhile (start mid : Char → Bool) : List Char → Option Nat
  | [] => none
  | c :: cs => if start c then some (spanLen mid cs + 1) else none

def checkWhitespace (s : List Char) : Option (TokKind × Nat) :=
  (consumeWhile isWhitespace isWhitespace s).map fun n => (.Whitespace, n)

/-- body of a `;* ... *;` comment after the opening `;*`; returns characters consumed.
    (`nesting` as in the Rust loop; structural on the text.) -/
def blockCommentLen : List Char → Nat → Nat
  | [], _ => 0
  | ';' :: '*' :: rest, n => blockCommentLen rest (n + 1) + 2
  | '*' :: ';' :: rest, n =>
    match n with
    | 0 => 2
    | n + 1 => blockCommentLen rest n + 2
  | _ :: rest, n => blockCommentLen rest n + 1

def checkComment : List Char → Option (TokKind × Nat)
  | ';' :: '*' :: rest => some (.Comment, blockCommentLen rest 0 + 2)
  | ';' :: rest => some (.Comment, spanLen (fun c => c != '\n') rest + 1)
  | _ => none

def checkNumber : List Char → Option (TokKind × Nat)
  | [] => none
  | c :: cs =>
    if isNumberStart c then some (.Number, spanLen isNumberMid cs + 1)
    else if c == '$' then
      (consumeWhile isHexMid isHexMid cs).map fun n => (.Number, n + 1)
    else if c == '%' then
      (consumeWhile isBinMid isBinMid cs).map fun n => (.Number, n + 1)
    else none

def checkIdentifier : List Char → Option (TokKind × Nat)
  | [] => none
  | c :: cs =>
    if c == '$' then some (.Identifier, 1)
    else if isIdentStart c then
      let n := spanLen isIdentMid cs + 1
      let ident := String.ofList ((c :: cs).take n)
      match Gen.keywords.find? (fun kw => kw.1 == ident) with
      | some kw => some (kw.2, n)
      | none => some (.Identifier, n)
    else none

def isPrefixChars : List Char → List Char → Bool
  | [], _ => true
  | _ :: _, [] => false
  | a :: as, b :: bs => a == b && isPrefixChars as bs

def checkSpecial (s : List Char) : Option (TokKind × Nat) :=
  match Gen.specialTokens.find? (fun tk => isPrefixChars tk.1.toList s) with
  | some tk => some (tk.2, tk.1.length)
  | none => none

/-- the characters of a string literal up to its closing quote: the character after a backslash never closes
    the string (finding F70, repaired: the scan stopped at the first quote, so `\\"` could not be written) -/
def strBodyLen : List Char → Nat
  | [] => 0
  | c :: rest =>
    if c == '"' then 0
    else if c == '\\' then
      match rest with
      | [] => 1
      | _ :: rest' => strBodyLen rest' + 2
    else strBodyLen rest + 1

def checkString : List Char → Option (TokKind × Nat)
  | '"' :: rest =>
    let n := strBodyLen rest
    if n < rest.length then some (.String, n + 2) else none
  | _ => none

/-- `decide_next_token`; the fallback `(Error, 1)` is a *byte* length in the Rust code. -/
def decideNextToken (s : List Char) : TokKind × Nat :=
  match checkWhitespace s with
  | some r => r
  | none =>
  match checkComment s with
  | some r => r
  | none =>
  match checkNumber s with
  | some r => r
  | none =>
  match checkIdentifier s with
  | some r => r
  | none =>
  match checkSpecial s with
  | some r => r
  | none =>
  match checkString s with
  | some r => r
  | none => (.Error, 1)

def TokKind.isIgnorable (k : TokKind) : Bool := Gen.ignorableKinds.contains k

structure Tok where
  kind : TokKind
  text : List Char
deriving Repr, Inhabited

/-- Tokenise a whole region (character-indexed; used where the Rust parser only ever
    advances by whole tokens).  Fuel = length of the text (every token is non-empty). -/
def tokenizeAux : Nat → List Char → List Tok → List Tok
  | 0, _, acc => acc.reverse
  | _, [], acc => acc.reverse
  | fuel + 1, s, acc =>
    let (k, n) := decideNextToken s
    let n := if n == 0 then 1 else n
    tokenizeAux fuel (s.drop n) (⟨k, s.take n⟩ :: acc)

def tokenize (s : List Char) : List Tok := tokenizeAux s.length s []

end Casm
