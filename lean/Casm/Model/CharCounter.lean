import Casm.Model.Token
/-!
# Casm.Model.CharCounter — `src/util/char_counter.rs`, `diagn::Span::join`

Text is a `List Char`; indices are UTF-8 **byte** offsets as in the Rust code
(`char_indices`).
-/
namespace Casm

/-- `get_line_column_at_index`: walks `char_indices()` while `byte_index < index` -/
def lineColLoop (index : Nat) : List Char → Nat → Nat → Nat → Nat × Nat
  | [], _, line, col => (line, col)
  | c :: cs, byteIndex, line, col =>
    if byteIndex ≥ index then (line, col)
    else if c == '\n' then lineColLoop index cs (byteIndex + utf8LenChar c) (line + 1) 0
    else lineColLoop index cs (byteIndex + utf8LenChar c) line (col + 1)

def lineColAtIndex (s : List Char) (index : Nat) : Nat × Nat := lineColLoop index s 0 0 0

/-- `get_line_count` -/
def lineCount (s : List Char) : Nat := 1 + (s.filter (· == '\n')).length

/-- `get_index_range_of_line`: the loop over `char_indices()`; state
    `(line_count, line_begin)`; returns `(line_begin, line_end)` -/
def lineRangeLoop (line total : Nat) : List Char → Nat → Nat → Nat → Nat × Nat
  | [], _, lineCount, lineBegin => (if lineCount < line then total else lineBegin, total)
  | c :: cs, byteIndex, lineCount, lineBegin =>
    if c != '\n' then lineRangeLoop line total cs (byteIndex + utf8LenChar c) lineCount lineBegin
    else if lineCount < line then
      lineRangeLoop line total cs (byteIndex + utf8LenChar c) (lineCount + 1) (byteIndex + 1)
    else (lineBegin, byteIndex + 1)

def indexRangeOfLine (s : List Char) (line : Nat) : Nat × Nat :=
  lineRangeLoop line (utf8Len s) s 0 0 0

/-- `src.get(start..end)`: `none` when an index is not on a character boundary or out of range -/
def sliceBytes : List Char → Nat → Nat → Nat → Option (List Char)
  | s, byteIndex, start, stop =>
    if start > stop then none
    else if byteIndex = start then takeBytes s (stop - start)
    else match s with
      | [] => none
      | c :: cs => if byteIndex + utf8LenChar c > start then none else sliceBytes cs (byteIndex + utf8LenChar c) start stop
where
  takeBytes : List Char → Nat → Option (List Char)
    | _, 0 => some []
    | [], _ + 1 => none
    | c :: cs, n + 1 =>
      if utf8LenChar c > n + 1 then none
      else (takeBytes cs (n + 1 - utf8LenChar c)).map (c :: ·)

def getExcerpt (s : List Char) (start stop : Nat) : Option (List Char) := sliceBytes s 0 start stop

/-- `Span::join` on locations (`none` = dummy span) -/
def spanJoin : Option (Nat × Nat) → Option (Nat × Nat) → Option (Nat × Nat)
  | a, none => a
  | none, b => b
  | some (a0, a1), some (b0, b1) => some (min a0 b0, max a1 b1)

end Casm
