/-!
# Casm.Model.HashOrder — the places where the Rust code *iterates* a hash container

In the model every such iteration takes the entries in an arbitrary order (a list that
is some permutation of the container's entries, keys pairwise distinct):

* `symbol_format.rs format_recursive`: `children.iter()` collected and sorted by the
  declaration index (`sort_by_key(|c| c.1.0)`) — `sortByIndex`;
* `eval.rs hygienize_locals_for_asm_subst` (`locals`, `token_substs`) and
  `eval_asm.rs` (`labels.iter()` → `set_local`): map-to-map copies — `copyInto`.
-/
namespace Casm

/-- ordered insertion by key (stable, as `sort_by_key`) -/
def insertByIndex {α} (x : α × Nat) : List (α × Nat) → List (α × Nat)
  | [] => [x]
  | y :: ys => if x.2 ≤ y.2 then x :: y :: ys else y :: insertByIndex x ys

def sortByIndex {α} : List (α × Nat) → List (α × Nat)
  | [] => []
  | x :: xs => insertByIndex x (sortByIndex xs)

/-- a map as an association list; `insert` replaces -/
abbrev AMap (κ υ : Type) := List (κ × υ)

def AMap.lookup {κ υ} [DecidableEq κ] (m : AMap κ υ) (k : κ) : Option υ := (m.find? (·.1 == k)).map (·.2)
def AMap.insert {κ υ} [DecidableEq κ] (m : AMap κ υ) (k : κ) (v : υ) : AMap κ υ := (k, v) :: m.filter (·.1 != k)

/-- copy the entries (visited in the given order) into `dst`, renaming keys with `f` and
    skipping those rejected by `keep` (the `__` prefix test of `hygienize`) -/
def copyInto {κ υ} [DecidableEq κ] (f : κ → κ) (keep : κ → Bool) (entries : List (κ × υ)) (dst : AMap κ υ) : AMap κ υ :=
  entries.foldl (fun m e => if keep e.1 then m.insert (f e.1) e.2 else m) dst

end Casm
