import Casm.Model.OutFormat
import Casm.Model.Literal
/-!
# Casm.Model.Driver — `src/driver.rs`: `parse_command` (getopts per group, globals OR-ed
together), `parse_define_arg`, default formats, `derive_output_filename`, and the
outcome logic of `assemble_with_command`.

The getopts crate (0.2.x) is modelled from its source (`Options::parse`), generic over
`Gen.optTable` (re-extracted from `make_opts` on every run).
-/
namespace Casm

open Gen in
def findOptByName (nm : String) : Option OptSpec :=
  -- `Name::from_str`: one byte = short name, otherwise long name
  if nm.utf8ByteSize == 1 then optTable.find? (fun o => o.short == nm)
  else optTable.find? (fun o => o.long == nm)

inductive OptVal | given | val (s : String)
deriving Repr, DecidableEq

structure Matches where
  vals : List (String × OptVal)    -- (long name of the option, value), in order of appearance
  free : List String
deriving Repr

def isArg (s : String) : Bool := s.toList.head? == some '-' && s.utf8ByteSize > 1

def Matches.valsOf (m : Matches) (long : String) : List OptVal := (m.vals.filter (·.1 == long)).map (·.2)
def Matches.present (m : Matches) (long : String) : Bool := !(m.valsOf long).isEmpty
/-- `opt_str`: the first occurrence, if it carries a value -/
def Matches.optStr (m : Matches) (long : String) : Option String :=
  match m.valsOf long with
  | .val s :: _ => some s
  | _ => none
def Matches.optStrs (m : Matches) (long : String) : List String :=
  (m.valsOf long).filterMap fun v => match v with | .val s => some s | .given => none

/-- the cluster loop over the characters of a short argument `-abc`: returns the flags seen,
    and the argument-taking option with its attached value, if any -/
def shortCluster : List Char → List (String × OptVal) → Except String (List (String × OptVal) × Option (Gen.OptSpec × String × Option String))
  | [], acc => .ok (acc, none)
  | ch :: rest, acc =>
    let nm := String.singleton ch
    match Gen.optTable.find? (fun o => o.short == nm) with
    | none => .error s!"Unrecognized option: '{nm}'"
    | some o =>
      match o.hasArg with
      | .no => shortCluster rest (acc ++ [(o.long, .given)])
      | _ =>
        if rest.isEmpty then .ok (acc, some (o, nm, none))
        else .ok (acc, some (o, nm, some (String.ofList rest)))

/-- `Options::parse` on the arguments of one group (no `--` inside) -/
def getoptsLoop : Nat → List String → Matches → Except String Matches
  | 0, _, m => .ok m
  | _, [], m => .ok m
  | fuel + 1, cur :: rest, m =>
    if !isArg cur then getoptsLoop fuel rest { m with free := m.free ++ [cur] }
    else
      let cs := cur.toList
      -- name, attached argument, was_long, flags collected before
      let parsed : Except String (List (String × OptVal) × Option (Gen.OptSpec × String × Option String) × Bool) :=
        if cs.getD 1 ' ' == '-' then
          let tail := cs.drop 2
          let nameCs := tail.takeWhile (· != '=')
          let iArg := if tail.length > nameCs.length then some (String.ofList (tail.drop (nameCs.length + 1))) else none
          let nm := String.ofList nameCs
          match findOptByName nm with
          | none => .error s!"Unrecognized option: '{nm}'"
          | some o => .ok ([], some (o, nm, iArg), true)
        else
          match shortCluster (cs.drop 1) [] with
          | .error e => .error e
          | .ok (flags, named) => .ok (flags, named, false)
      match parsed with
      | .error e => .error e
      | .ok (flags, named, wasLong) =>
        let m := { m with vals := m.vals ++ flags }
        match named with
        | none => getoptsLoop fuel rest m
        | some (o, nm, iArg) =>
          match o.hasArg with
          | .no =>
            if iArg.isSome then .error s!"Option '{nm}' does not take an argument"
            else getoptsLoop fuel rest { m with vals := m.vals ++ [(o.long, .given)] }
          | .maybe =>
            match iArg with
            | some a => getoptsLoop fuel rest { m with vals := m.vals ++ [(o.long, .val a)] }
            | none =>
              match rest with
              | nxt :: rest' =>
                if wasLong || isArg nxt then getoptsLoop fuel rest { m with vals := m.vals ++ [(o.long, .given)] }
                else getoptsLoop fuel rest' { m with vals := m.vals ++ [(o.long, .val nxt)] }
              | [] => getoptsLoop fuel rest { m with vals := m.vals ++ [(o.long, .given)] }
          | .yes =>
            match iArg with
            | some a => getoptsLoop fuel rest { m with vals := m.vals ++ [(o.long, .val a)] }
            | none =>
              match rest with
              | nxt :: rest' => getoptsLoop fuel rest' { m with vals := m.vals ++ [(o.long, .val nxt)] }
              | [] => .error s!"Argument to option '{nm}' missing"

def getoptsParse (args : List String) : Except String Matches :=
  match getoptsLoop (args.length + 1) args ⟨[], []⟩ with
  | .error e => .error e
  | .ok m =>
    -- occurrence check, in option-table order
    match Gen.optTable.find? (fun o => o.occur != .multi && (m.valsOf o.long).length > 1) with
    | some o => .error s!"Option '{o.long}' given more than once"
    | none => .ok m

/-! ## the command -/

inductive DefVal | bool (b : Bool) | int (v : Int) (size : Option Nat)
deriving Repr, DecidableEq

structure OutGroup where
  format : Option OutFmt
  printout : Bool
  outFile : Option String
deriving Repr

structure Command where
  inputs : List String
  groups : List OutGroup
  maxIter : Nat
  optStatic : Bool
  optMatcher : Bool
  debugIters : Bool
  quiet : Bool
  useColors : Bool
  showVersion : Bool
  showHelp : Bool
  defines : List (String × DefVal)
deriving Repr

def splitGroups : List String → List String → List (List String) → List (List String)
  | [], cur, acc => (acc ++ [cur])
  | a :: rest, cur, acc => if a == "--" then splitGroups rest [] (acc ++ [cur]) else splitGroups rest (cur ++ [a]) acc

/-- `parse_define_arg` -/
def parseDefineArg (raw : String) : Except String (String × DefVal) :=
  match splitOnChar '=' raw.toList with
  | [name] => .ok (String.ofList name, .bool true)
  | [name, value] =>
    let nm := String.ofList name
    if value == "true".toList then .ok (nm, .bool true)
    else if value == "false".toList then .ok (nm, .bool false)
    else
      let neg := value.head? == some '-'
      let digits := if neg then value.drop 1 else value
      if digits.isEmpty then .error s!"invalid value for define `{nm}`"
      else match excerptAsBigint digits with
        | .ok b => .ok (nm, .int (if neg then -b.v else b.v) (if neg then none else b.size))
        | .error _ => .error s!"invalid value for define `{nm}`"
  | _ => .error s!"invalid define argument `{raw}`"

def parseDefines : List String → List (String × DefVal) → Except String (List (String × DefVal))
  | [], acc => .ok acc
  | d :: rest, acc =>
    match parseDefineArg d with
    | .error e => .error e
    | .ok x => parseDefines rest (acc ++ [x])

/-- `PathBuf::set_extension` for a path without trailing separator whose last component is
    not `..`: the extension of the last component is the text after its last `.`, unless
    that `.` is the component's first character -/
def setExtension (path : List Char) (ext : List Char) : List Char :=
  let comps := splitOnChar '/' path
  match comps.reverse with
  | [] => path
  | last :: revInit =>
    if last.isEmpty || last == "..".toList then path
    else
      let body := last.drop 1
      let dotIdx := (body.reverse.dropWhile (· != '.')).length   -- index after the last '.' within body, 0 if none
      let stem := if dotIdx == 0 then last else last.take dotIdx   -- `dotIdx` counts the '.' itself inside body
      let newLast := stem ++ ['.'] ++ ext
      joinWith ['/'] ((newLast :: revInit).reverse)

def extensionOf (f : OutFmt) : String :=
  match Gen.extensions.find? (·.1 == f.variant) with
  | some e => e.2
  | none => Gen.defaultExtension

/-- `derive_output_filename` -/
def deriveOutputFilename (f : OutFmt) (inputs : List String) : Except String String :=
  -- the name is derived from the first input and must not be any of the inputs (finding F71, repaired: only the first was compared)
  let input := inputs.getD 0 ""
  let out := String.ofList ((setExtension input.toList (extensionOf f).toList).map fun c => if c == '\\' then '/' else c)
  if inputs.contains out then .error "cannot derive safe output filename" else .ok out

def defaultFormat (printout : Bool) : OutFmt :=
  let d := if printout then Gen.defaultFormats.getD 0 ("Binary", []) else Gen.defaultFormats.getD 1 ("Binary", [])
  ⟨d.1, d.2⟩

/-- the per-group part of `parse_command`; `cmd` accumulates the globals -/
def parseGroups : List (List String) → Command → Except String Command
  | [], cmd => .ok cmd
  | g :: rest, cmd =>
    match getoptsParse g with
    | .error e => .error e
    | .ok m =>
      let fmtR : Except String (Option OutFmt) :=
        match m.optStr "format" with
        | some s => match parseOutputFormat s.toList with
          | .ok f => .ok (some f)
          | .error e => .error e
        | none => .ok none
      match fmtR with
      | .error e => .error e
      | .ok fmt =>
        let group : OutGroup := ⟨fmt, m.present "print", m.optStr "output"⟩
        match parseDefines (m.optStrs "define") cmd.defines with
        | .error e => .error e
        | .ok defs =>
          let colorR : Except String Bool :=
            if m.present "color" then
              match m.optStr "color" with
              | some "on" => .ok true
              | some "off" => .ok false
              | _ => .error "invalid argument for `--color`"
            else .ok cmd.useColors
          match colorR with
          | .error e => .error e
          | .ok colors =>
            let itersR : Except String Nat :=
              match m.optStr "iters" with
              | some t => match parseUsize t.toList with
                | some 0 => .error "invalid argument for `--iters`"
                | some n => .ok n
                | none => .error "invalid argument for `--iters`"
              | none => .ok cmd.maxIter
            match itersR with
            | .error e => .error e
            | .ok iters =>
              parseGroups rest { cmd with
                inputs := cmd.inputs ++ m.free
                groups := cmd.groups ++ [group]
                maxIter := iters
                optStatic := cmd.optStatic && !(m.present "debug-no-optimize-static")
                optMatcher := cmd.optMatcher && !(m.present "debug-no-optimize-matcher")
                debugIters := cmd.debugIters || m.present "debug-iters"
                quiet := cmd.quiet || m.present "quiet"
                useColors := colors
                showVersion := cmd.showVersion || m.present "version"
                showHelp := cmd.showHelp || m.present "help"
                defines := defs }

/-- defaults: format (annotated when printing, binary otherwise) and derived file names -/
def finishGroups (inputs : List String) (infoOnly : Bool) : List OutGroup → List OutGroup → Except String (List OutGroup)
  | [], acc => .ok acc
  | g :: rest, acc =>
    let fmt := match g.format with
      | some f => f
      | none => defaultFormat g.printout
    -- nothing is derived when only the help or version text is asked for (finding F78, repaired)
    if !g.printout && g.outFile.isNone && inputs.length ≥ 1 && !infoOnly then
      match deriveOutputFilename fmt inputs with
      | .error e => .error e
      | .ok name => finishGroups inputs infoOnly rest (acc ++ [{ g with format := some fmt, outFile := some name }])
    else finishGroups inputs infoOnly rest (acc ++ [{ g with format := some fmt }])

/-- `parse_command(args)`; `args[0]` is the program name -/
def parseCommand (args : List String) : Except String Command :=
  let groups := splitGroups (args.drop 1) [] []
  let init : Command := ⟨[], [], 10, true, true, false, false, true, false, false, []⟩
  match parseGroups groups init with
  | .error e => .error e
  | .ok cmd =>
    match finishGroups cmd.inputs (cmd.showHelp || cmd.showVersion) cmd.groups [] with
    | .error e => .error e
    | .ok gs => .ok { cmd with groups := gs }

/-! ## outcome of a run -/

inductive AsmResult
  | failed (nerrors : Nat)                 -- at least one error, no output
  | output (bits : Bits) (spans : List Span)
deriving Repr

structure RunOutcome where
  ok : Bool                                 -- `drive` returned Ok (exit status 0)
  errors : List String                      -- error diagnostics of the driver itself
  asmErrors : Nat
  writes : List (String × Option (List Nat)) -- files written, in order (`none` = content not modelled)
  prints : Nat                              -- groups printed to the screen
deriving Repr

/-- per-group write loop of `assemble_with_command`; `unwritable` = output names whose
    write fails (injected fault) -/
def runGroups (bits : Bits) (spans : List Span) (unwritable : List String) :
    List OutGroup → RunOutcome → RunOutcome
  | [], o => o
  | g :: rest, o =>
    match g.format with
    | none => runGroups bits spans unwritable rest o
    | some f =>
      let data := formatOutputBytes f bits spans
      if g.printout then runGroups bits spans unwritable rest { o with prints := o.prints + 1 }
      else match g.outFile with
        | some name =>
          if unwritable.contains name then { o with ok := false, errors := o.errors ++ ["write error"] }
          else runGroups bits spans unwritable rest { o with writes := o.writes ++ [(name, data)] }
        | none => runGroups bits spans unwritable rest o

/-- `drive`: `asm` is the assembler's answer for this command's inputs and options -/
def drive (args : List String) (asm : Command → AsmResult) (unwritable : List String) : RunOutcome :=
  match parseCommand args with
  | .error e => ⟨false, [e], 0, [], 0⟩
  | .ok cmd =>
    if cmd.showHelp || cmd.showVersion then ⟨true, [], 0, [], 0⟩
    else if cmd.inputs.length < 1 then ⟨false, ["no input files"], 0, [], 0⟩
    else match asm cmd with
      | .failed n => ⟨false, [], n, [], 0⟩
      | .output bits spans => runGroups bits spans unwritable cmd.groups ⟨true, [], 0, [], 0⟩

end Casm
