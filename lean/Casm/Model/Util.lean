/-! Small list/string utilities shared by the model files. -/
namespace Casm

/-- `str::split(c)`: always at least one piece -/
def splitOnCharAux (c : Char) : List Char → List Char → List (List Char) → List (List Char)
  | [], cur, acc => (cur.reverse :: acc).reverse
  | x :: xs, cur, acc => if x == c then splitOnCharAux c xs [] (cur.reverse :: acc) else splitOnCharAux c xs (x :: cur) acc

def splitOnChar (c : Char) (s : List Char) : List (List Char) := splitOnCharAux c s [] []

def joinWith (sep : List Char) : List (List Char) → List Char
  | [] => []
  | [a] => a
  | a :: rest => a ++ sep ++ joinWith sep rest

end Casm
