import Casm.Model.Parse
import Casm.Model.ExprEval
/-! Canonical text forms shared with the oracle harness (`harness/src/ops.rs`). -/
namespace Casm

def hexDigitChar (n : Nat) : Char := if n < 10 then Char.ofNat (48 + n) else Char.ofNat (87 + n)

def hexOfBytes (bs : List Nat) : String :=
  if bs.isEmpty then "-" else String.ofList (bs.flatMap fun b => [hexDigitChar (b / 16), hexDigitChar (b % 16)])

def hexOfChars (s : List Char) : String := hexOfBytes (s.flatMap utf8EncodeChar)

def showSize : Option Nat → String
  | some n => toString n
  | none => "-"

def showBI' (b : BI) : String := s!"{b.v} {showSize b.size}"

def encName : Enc → String
  | .utf8 => "utf8" | .utf16be => "utf16be" | .utf16le => "utf16le"
  | .utf32be => "utf32be" | .utf32le => "utf32le" | .ascii => "ascii"

def showValue : Value → String
  | .unknown => "unknown"
  | .failed _ => "failed"
  | .void => "void"
  | .int b => s!"int {showBI' b}"
  | .str s enc => s!"str {hexOfChars s} {encName enc}"
  | .bool b => s!"bool {b}"
  | .builtin n => s!"builtin {n}"
  | .asmBuiltin n => s!"asmbuiltin {n}"
  | .fn i => s!"fn {i}"

mutual
def showExpr : Expr → String
  | .lit v => s!"(lit {showValue v})"
  | .var level path => s!"(var {level} {".".intercalate path})"
  | .un op e => s!"(un {Gen.unOpName op} {showExpr e})"
  | .bin op l r => s!"(bin {Gen.binOpName op} {showExpr l} {showExpr r})"
  | .tern c t f => s!"(tern {showExpr c} {showExpr t} {showExpr f})"
  | .slice hi lo inner => s!"(slice {showExpr hi} {showExpr lo} {showExpr inner})"
  | .sliceShort size inner => s!"(sshort {showExpr size} {showExpr inner})"
  | .block es => s!"(block{showExprs es})"
  | .call f args => s!"(call {showExpr f}{showExprs args})"
  | .asm _ => "(asm)"
def showExprs : List Expr → String
  | [] => ""
  | e :: es => " " ++ showExpr e ++ showExprs es
end

def showParamTy : ParamTy → String
  | .unspecified => "-"
  | .ruledef n => "r" ++ n
  | .unsigned n => s!"u{n}"
  | .signed n => s!"s{n}"
  | .integer n => s!"i{n}"

def showPatPart : PatPart → String
  | .whitespace => "ws"
  | .exact c => "x" ++ hexOfChars [c]
  | .param n t => "{" ++ n ++ ":" ++ showParamTy t ++ "}"

def showOptExpr : Option Expr → String
  | some e => showExpr e
  | none => "-"

mutual
def showNode : AstNode → String
  | .addr e _ => s!"(addr {showExpr e})"
  | .align e _ => s!"(align {showExpr e})"
  | .assert e => s!"(assert {showExpr e})"
  | .res e _ => s!"(res {showExpr e})"
  | .bank n _ => s!"(bank {n})"
  | .bankdef b _ => s!"(bankdef {b.name} bits={showOptExpr b.addrUnit} labelalign={showOptExpr b.labelAlign} addr={showOptExpr b.addrStart} addr_end={showOptExpr b.addrEnd} size={showOptExpr b.addrSize} outp={showOptExpr b.outp} fill={b.fill})"
  | .data sz es _ => s!"(data {showSize sz}{showExprs es})"
  | .fn n ps body _ => s!"(fn {n} ({" ".intercalate ps}) {showExpr body})"
  | .ifDir c t f => s!"(if {showExpr c} (then{showNodes t}) {match f with | some f => "(else" ++ showNodes f ++ ")" | none => "-"})"
  | .include f => s!"(include {hexOfChars f})"
  | .once => "(once)"
  | .ruledef n sub rules _ => s!"(ruledef {n.getD "-"} sub={sub}{String.join (rules.map fun r => " (rule [" ++ " ".intercalate (r.pattern.map showPatPart) ++ "] " ++ showExpr r.expr ++ ")")})"
  | .instr src _ => s!"(instr {hexOfChars src})"
  | .symbol lvl n k ne _ => s!"(sym {lvl} {n} {match k with | .label => "label" | .constant e => "const " ++ showExpr e} {ne})"
def showNodes : List AstNode → String
  | [] => ""
  | n :: ns => " " ++ showNode n ++ showNodes ns
end

/-- decode a hex-encoded UTF-8 field of the line protocol -/
def hexVal (c : Char) : Nat :=
  if '0' ≤ c && c ≤ '9' then c.toNat - 48 else if 'a' ≤ c && c ≤ 'f' then c.toNat - 87 else 0

def unhexBytes : List Char → List Nat
  | a :: b :: rest => (hexVal a * 16 + hexVal b) :: unhexBytes rest
  | _ => []

/-- UTF-8 decoding (input is valid UTF-8 produced by the generators) -/
def utf8Decode : Nat → List Nat → List Char
  | 0, _ => []
  | _, [] => []
  | fuel + 1, b :: rest =>
    if b < 0x80 then Char.ofNat b :: utf8Decode fuel rest
    else if b < 0xE0 then
      match rest with
      | c :: rest => Char.ofNat ((b % 32) * 64 + c % 64) :: utf8Decode fuel rest
      | _ => []
    else if b < 0xF0 then
      match rest with
      | c :: d :: rest => Char.ofNat ((b % 16) * 4096 + (c % 64) * 64 + d % 64) :: utf8Decode fuel rest
      | _ => []
    else
      match rest with
      | c :: d :: e :: rest => Char.ofNat ((b % 8) * 262144 + (c % 64) * 4096 + (d % 64) * 64 + e % 64) :: utf8Decode fuel rest
      | _ => []

def unhexText (s : String) : List Char :=
  if s == "-" then [] else
  let bs := unhexBytes s.toList
  utf8Decode (bs.length + 1) bs

end Casm
