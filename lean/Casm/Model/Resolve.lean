import Casm.Model.Matcher
import Casm.Model.Symbols
import Casm.Model.Layout
import Casm.Model.FileNav
/-!
# Casm.Model.Resolve — `src/asm/resolver/*.rs`

Evaluation with the resolver's provider (variables, user functions, built-in inclusion
functions, `asm` blocks), the per-item resolvers, one pass (`resolve_once`) and the
iteration loop (`resolve_iteratively`).
-/
namespace Casm

structure Opts where
  maxIter : Nat := 10
  optStatic : Bool := true
  optMatcher : Bool := true
  defines : List (String × Value) := []
  /-- the budget of the loops of `asm` blocks, when it is to differ from `maxIter` (the code always uses
      `max_iterations` for both; a pinned inner budget is what attributes finding F38) -/
  innerIter : Option Nat := none

structure SymDef where
  noEmit : Bool := false
  known : Bool := false
  value : Value := .unknown
  resolved : Bool := false
deriving Repr, Inhabited

structure FnDef where
  sym : Nat
  params : List String
  body : Expr
deriving Repr, Inhabited

structure MatchInfo where
  m : IMatch
  known : Bool
  size : Nat
deriving Inhabited

structure InstrDef where
  cands : List MatchInfo := []
  known : Bool := false
  encoding : BI := ⟨0, some 0⟩
  resolved : Bool := false
deriving Inhabited

structure DataDef where
  known : Bool := false
  encoding : BI := ⟨0, some 0⟩
  resolved : Bool := false
deriving Repr, Inhabited

structure Defs where
  symbols : List (Option SymDef) := []
  banks : List Bank := []
  ruledefs : List Ruledef := []
  fns : List FnDef := []
  instrs : List InstrDef := []
  datas : List DataDef := []
  res : List Nat := []
  aligns : List Nat := []
  addrs : List Int := []
deriving Inhabited

structure Decls where
  banks : SymMgr := SymMgr.new "bank"
  ruledefs : SymMgr := SymMgr.new "ruledef"
  symbols : SymMgr := SymMgr.new "symbol"
deriving Inhabited

/-- what does not change during resolution -/
structure Static where
  opts : Opts
  decls : Decls
  rootFile : List Char
  files : List (List Char × List Nat)   -- name, bytes (for the inclusion functions)

/-- `ResolverContext` -/
structure RCtx where
  first : Bool
  last : Bool
  symCtx : List String
  bank : Nat
  cur : Nat
deriving Repr, Inhabited

def RCtx.canGuess (c : RCtx) : Bool := !c.last

def Defs.sym (d : Defs) (i : Nat) : SymDef := (d.symbols.getD i none).getD {}
def Defs.setSym (d : Defs) (i : Nat) (s : SymDef) : Defs := { d with symbols := d.symbols.set i (some s) }

/-- `eval_address(can_guess)` -/
def evalAddress (defs : Defs) (ctx : RCtx) (canGuess : Bool) : Except String Int :=
  let b := defs.banks.getD ctx.bank defaultBank
  if ctx.cur % b.addrUnit ≠ 0 ∧ !canGuess then .error "position is not aligned to an address"
  else .ok (getAddress b ctx.cur)

def isAsmBuiltinName (n : String) : Bool := n == "incbin" || n == "incbinstr" || n == "inchexstr"

/-- `eval_variable` -/
def evalVariable (st : Static) (defs : Defs) (ctx : RCtx) (level : Nat) (path : List String) : Except String Value :=
  let builtin : Option (Except String Value) :=
    if level == 0 then
      match path with
      | [n] =>
        if n == "$" || n == "pc" then some ((evalAddress defs ctx ctx.canGuess).map fun a => .int ⟨a, none⟩)
        else if isAsmBuiltinName n then some (.ok (.asmBuiltin n))
        else none
      | _ => none
    else none
  match builtin with
  | some r => r
  | none =>
    match st.decls.symbols.getByName ctx.symCtx level path with
    | .error e => .error e
    | .ok r =>
      let v := (defs.sym r).value
      match v with
      | .unknown => if !ctx.canGuess then .error s!"unresolved symbol `{displayName level path}`" else .ok v
      | _ => .ok v

/-- `check_and_constrain_argument` -/
def checkAndConstrain (ty : RParamTy) (v : Value) : Except String Value :=
  let bi : Except String BI := match v with
    | .int b => .ok b
    | .str s e => .ok (strToBigint s e)
    | .unknown => .error "value is unknown"
    | _ => .error "expected integer"
  match bi with
  | .error e => .error e
  | .ok b =>
    let chk (t : Ty) (n : Nat) (pre : String) : Except String Value :=
      match checkArg t n b.v with
      | some r => .ok (.int r)
      | none => .ok (.failed s!"argument out of range for type `{pre}{n}`")
    match ty with
    | .unspecified => .ok v
    | .unsigned n => chk .u n "u"
    | .signed n => chk .s n "s"
    | .integer n => chk .i n "i"
    | .ruledefRef _ => .error "panic: unreachable"

inductive Resolution where
  | unresolved
  | failed (msg : String)
  | resolved (b : BI)
deriving Repr, Inhabited

def hygienizeName (n : String) : String := "__" ++ n

/-- `hygienize_locals_for_asm_subst`: a deepened context holding the locals and token
    substitutions under `__`-prefixed names (already prefixed ones are dropped) -/
def hygienize (c : ECtx) : ECtx :=
  { locals := (c.locals.filter (fun p => !p.1.startsWith "__")).map (fun p => (hygienizeName p.1, p.2))
    substs := (c.substs.filter (fun p => !p.1.startsWith "__")).map (fun p => (hygienizeName p.1, p.2))
    depth := c.depth + 1 }

/-- `get_token_subst` -/
def tokenSubst (c : ECtx) (n : String) : Option (List Char) :=
  match c.substs.find? (·.1 == n) with
  | some p => some p.2
  | none => if (c.locals.get n).isSome then some (hygienizeName n).toList else none

/-- `parse_substitutions`: `{name}` occurrences in an instruction of an `asm` block, as
    (start, stop, name) in characters -/
def parseSubsts : Nat → Src → Nat → List (Nat × Nat × String) → Except String (List (Nat × Nat × String))
  | 0, _, _, acc => .ok acc.reverse
  | fuel + 1, s, pos, acc =>
    if s.isEmpty then .ok acc.reverse
    else
      let s' := skipIgnorable s
      let pos' := pos + (s.length - s'.length)
      match s' with
      | [] => .ok acc.reverse
      | _ =>
        let t := tokenAt s'
        if t.kind == .BraceOpen then
          let s1 := s'.drop t.text.length
          match expect .Identifier s1 with
          | .error e => .error e
          | .ok (nm, s2) =>
            match expect .BraceClose s2 with
            | .error e => .error e
            | .ok (_, s3) =>
              let stop := pos' + (s'.length - s3.length)
              parseSubsts fuel s3 stop ((pos', stop, String.ofList nm.text) :: acc)
        else parseSubsts fuel (s'.drop t.text.length) (pos' + t.text.length) acc

/-- `perform_substitutions` -/
def performSubsts (src : List Char) (substs : List (Nat × Nat × String)) (c : ECtx) : Except String (List Char) :=
  let rec go (l : List (Nat × Nat × String)) (copied : Nat) (acc : List Char) : Except String (List Char) :=
    match l with
    | [] => .ok (acc ++ src.drop copied)
    | (start, stop, name) :: rest =>
      let (acc, copied) := if copied < start then (acc ++ (src.drop copied).take (start - copied), start) else (acc, copied)
      match tokenSubst c name with
      | none => .error s!"unknown substitution argument `{name}`"
      | some t => go rest (copied + (stop - start)) (acc ++ t)
  go substs 0 []

/-- bytes of a file by (already navigated) name -/
def Static.fileBytes (st : Static) (name : List Char) : Option (List Nat) := (st.files.find? (·.1 == name)).map (·.2)

def bytesToChars (bs : List Nat) : List Char := utf8Decode (bs.length + 1) bs

/-- `eval_builtin_incbin` / `incbinstr` / `inchexstr` -/
def evalAsmBuiltin (st : Static) (name : String) (args : List Value) : Except String Value :=
  if args.length < 1 ∨ args.length > 3 then .error s!"function expected 1 to 3 arguments (but got {args.length})"
  else match args.getD 0 .void with
    | .str rel _ =>
      match filenameNavigate st.rootFile rel with
      | .error .invalidFilename => .error "invalid filename"
      | .error .outOfProject => .error "cannot navigate out of project directory"
      | .ok abs =>
        match st.fileBytes abs with
        | none => .error "file not found"
        | some bytes =>
          let num (i : Nat) : Except String Nat := if args.length > i then expectUsize (args.getD i .void) else .ok 0
          match num 1, num 2 with
          | .error e, _ => .error e
          | _, .error e => .error e
          | .ok start, .ok size =>
            if name == "incbin" then
              match incbinRange bytes args.length start size with
              | .ok r => .ok (.int (fromBytesBe r))
              | .error .startsAfterEof => .error "`incbin` range starts after EOF"
              | .error _ => .error "`incbin` range ends after EOF"
            else
              let k := if name == "incbinstr" then 1 else 4
              match incstrDigits k (bytesToChars bytes) with
              | .error _ => .error "invalid character in file contents"
              | .ok ds =>
                match incstrRange ds args.length start size with
                | .ok r => .ok (.int ⟨(r.foldl (fun a d => a * 2 ^ k + d) 0 : Nat), some (k * r.length)⟩)
                | .error .startsAfterEof => .error s!"`{name}` range starts after EOF"
                | .error _ => .error s!"`{name}` range ends after EOF"
    | _ => .error "expected string"

def recursionErr : String := "recursion depth limit reached"

/-- the candidates that resolved to a sized integer, with their index among the matches -/
def resolvedOf (rs : List Resolution) : List (Nat × BI) :=
  (List.range rs.length).filterMap fun i =>
    match rs.getD i .unresolved with
    | .resolved b => some (i, b)
    | _ => none

/-- the choice made by `resolve_encoding` among the resolutions of the candidates: the
    smallest encodings; in a strict pass (`canGuess = false`) "nothing resolved" and "several
    smallest" are reported and nothing is chosen -/
def chooseEncoding (canGuess : Bool) (rs : List Resolution) : Option (List (Nat × BI)) × List String :=
  let resolved := resolvedOf rs
  if resolved.isEmpty then
    if !canGuess then
      let msgs := rs.filterMap fun r => match r with | .failed m => some m | _ => none
      (none, [msgs.headD "failed to resolve instruction"])
    else (none, [])
  else
    let smallest := (resolved.map fun e => e.2.size.getD 0).foldl min ((resolved.headD (0, default)).2.size.getD 0)
    let chosen := resolved.filter fun e => e.2.size.getD 0 == smallest
    if !canGuess && chosen.length > 1 then (none, ["multiple matches with the same encoding size"])
    else (some chosen, [])

mutual
/-- the resolver's `EvalProvider`, with `fuel` levels of nested function calls / `asm` blocks -/
def mkEnv (st : Static) (defs : Defs) : Nat → RCtx → EvalEnv
  | 0, ctx =>
    { var := evalVariable st defs ctx
      fn := fun _ _ _ => .error "model: out of fuel"
      asm := fun _ _ => .error "model: out of fuel" }
  | fuel + 1, ctx =>
    { var := evalVariable st defs ctx
      fn := fun f args ectx =>
        match f with
        | .asmBuiltin name => evalAsmBuiltin st name args
        | .fn idx =>
          if ectx.depth ≥ Gen.EVAL_RECURSION_DEPTH_MAX then .error recursionErr
          else
            let fd := defs.fns.getD idx default
            if args.length != fd.params.length then .error (argCountErr fd.params.length args.length)
            else
              let c : ECtx := { locals := (fd.params.zip args).foldl (fun l p => l.set p.1 p.2) [], substs := [], depth := ectx.depth + 1 }
              (eval (mkEnv st defs fuel ctx) c fd.body).map (·.1)
        | _ => .error "expression is not callable"
      asm := fun text ectx => evalAsm st defs fuel ctx text ectx }

/-- `resolve_instruction_match` (with `_inner`): value of one candidate -/
def resolveMatch (st : Static) (defs : Defs) : Nat → RCtx → IMatch → ECtx → Except String (Value × ECtx)
  | 0, _, _, _ => .error "model: out of fuel"
  | fuel + 1, ctx, m, argCtx =>
    let rule := (defs.ruledefs.getD m.ruledef default).rules.getD m.rule default
    match resolveArgs st defs fuel ctx rule m.args 0 argCtx argCtx.deepened with
    | .error e => .error e
    | .ok (.inl v, argCtx) => .ok (v, argCtx)
    | .ok (.inr ruleCtx, argCtx) =>
      (eval (mkEnv st defs fuel ctx) ruleCtx rule.expr).map fun r => (r.1, argCtx)

/-- the argument loop of `resolve_instruction_match_inner`: `inl v` = a propagated
    `Unknown` / `FailedConstraint`, `inr c` = the production's evaluation context -/
def resolveArgs (st : Static) (defs : Defs) : Nat → RCtx → Rule → List IArg → Nat → ECtx → ECtx →
    Except String (Sum Value ECtx × ECtx)
  | 0, _, _, _, _, _, _ => .error "model: out of fuel"
  | _ + 1, _, _, [], _, argCtx, ruleCtx => .ok (.inr ruleCtx, argCtx)
  | fuel + 1, ctx, rule, a :: rest, i, argCtx, ruleCtx =>
    let param := rule.params.getD i ("", .unspecified)
    match a with
    | .expr e _ _ excerpt =>
      match eval (mkEnv st defs fuel ctx) argCtx e with
      | .error e => .error e
      | .ok (v, argCtx) =>
        if v.shouldPropagate then .ok (.inl v, argCtx)
        else match checkAndConstrain param.2 v with
          | .error e => .error e
          | .ok cv =>
            if cv.shouldPropagate then .ok (.inl cv, argCtx)
            else resolveArgs st defs fuel ctx rule rest (i + 1) argCtx ((ruleCtx.setLocal param.1 cv).setSubst param.1 excerpt)
    | .nested nm _ _ excerpt =>
      match resolveMatch st defs fuel ctx nm argCtx with
      | .error e => .error e
      | .ok (v, argCtx) =>
        if v.shouldPropagate then .ok (.inl v, argCtx)
        else resolveArgs st defs fuel ctx rule rest (i + 1) argCtx ((ruleCtx.setLocal param.1 v).setSubst param.1 excerpt)

/-- `resolve_instruction_matches`: the resolution of every candidate -/
def resolveMatches (st : Static) (defs : Defs) : Nat → RCtx → List IMatch → ECtx → List Resolution →
    Except String (List Resolution × ECtx)
  | 0, _, _, _, _ => .error "model: out of fuel"
  | _ + 1, _, [], argCtx, acc => .ok (acc.reverse, argCtx)
  | fuel + 1, ctx, m :: rest, argCtx, acc =>
    match resolveMatch st defs fuel ctx m argCtx with
    | .error e => .error e
    | .ok (v, argCtx) =>
      -- `expect_error_or_sized_bigint`
      let r : Except String Resolution :=
        match v with
        | .unknown => .ok .unresolved
        | .failed msg => .ok (.failed msg)
        | .int b => if b.size.isSome then .ok (.resolved b) else .error "expected integer with definite size"
        | .str s e => .ok (.resolved (strToBigint s e))
        | _ => .error "expected integer with definite size"
      match r with
      | .error e => .error e
      | .ok r => resolveMatches st defs fuel ctx rest argCtx (r :: acc)

/-- `resolve_encoding`: `(result, reported)`; `result = none` when nothing could be chosen,
    `reported` = non-fatal error messages pushed to the report -/
def resolveEncoding (st : Static) (defs : Defs) : Nat → RCtx → List IMatch → ECtx →
    Except String (Option (List (Nat × BI)) × List String)
  | 0, _, _, _ => .error "model: out of fuel"
  | fuel + 1, ctx, cands, argCtx =>
    match resolveMatches st defs fuel ctx cands argCtx [] with
    | .error e => .error e
    | .ok (rs, _) => .ok (chooseEncoding ctx.canGuess rs)

/-- `eval_asm` -/
def evalAsm (st : Static) (defs : Defs) : Nat → RCtx → List Char → ECtx → Except String Value
  | 0, _, _, _ => .error "model: out of fuel"
  | fuel + 1, ctx, text, ectx =>
    if ectx.depth ≥ Gen.EVAL_RECURSION_DEPTH_MAX then .error recursionErr
    else
      match parseNested (parseFuel text) text [] with
      | .error e => .error e
      | .ok (nodes, _) =>
        -- label collection / content check
        let check : Except String (List (String × Value)) :=
          nodes.foldl (fun acc n =>
            match acc with
            | .error e => .error e
            | .ok ls =>
              match n with
              | .symbol level name kind _ _ =>
                match kind with
                | .label => if level != 0 then .error "only top-level labels are permitted in `asm` blocks"
                            else .ok ((name, Value.unknown) :: ls.filter (·.1 != name))
                | _ => .error "only labels are permitted in `asm` blocks"
              | .instr _ _ => .ok ls
              | _ => .error "invalid content for `asm` block") (.ok [])
        match check with
        | .error e => .error e
        | .ok labels => asmIterate st defs fuel ctx nodes ectx labels (st.opts.innerIter.getD st.opts.maxIter) 1

/-- the loop of `eval_asm::resolve_iteratively` (`iter` = number of the next pass) -/
def asmIterate (st : Static) (defs : Defs) : Nat → RCtx → List AstNode → ECtx → List (String × Value) → Nat → Nat →
    Except String Value
  | 0, _, _, _, _, _, _ => .error "model: out of fuel"
  | fuel + 1, ctx, nodes, ectx, labels, budget, iter =>
    let finish (labels : List (String × Value)) : Except String Value :=
      match asmOnce st defs fuel { ctx with first := false, last := ctx.last } nodes ectx labels ctx.cur (⟨0, some 0⟩) false with
      | .error e => .error e
      | .ok (v, unstable, _) =>
        if !unstable then .ok v
        else if ctx.canGuess then .ok .unknown
        else .error "`asm` block did not converge"
    if iter > budget then finish labels
    else
      match asmOnce st defs fuel { ctx with first := iter == 1, last := ctx.last && iter == budget } nodes ectx labels ctx.cur (⟨0, some 0⟩) false with
      | .error e => .error e
      | .ok (_, unstable, labels) =>
        if !unstable then finish labels
        else asmIterate st defs fuel ctx nodes ectx labels budget (iter + 1)

/-- `eval_asm::resolve_once`: `(value, unstable, labels)` -/
def asmOnce (st : Static) (defs : Defs) : Nat → RCtx → List AstNode → ECtx → List (String × Value) → Nat → BI → Bool →
    Except String (Value × Bool × List (String × Value))
  | 0, _, _, _, _, _, _, _ => .error "model: out of fuel"
  | _ + 1, _, [], _, labels, _, result, unstable => .ok (.int result, unstable, labels)
  | fuel + 1, ctx, node :: rest, ectx, labels, cur, result, unstable =>
    let inner : RCtx := { ctx with cur := cur }
    match node with
    | .symbol _ name _ _ _ =>
      match evalAddress defs inner inner.canGuess with
      | .error e => .error e
      | .ok a =>
        let nv : Value := .int ⟨a, none⟩
        let changed := match labels.find? (·.1 == name) with
          | some p => !(match p.2, nv with
              | .int x, .int y => x.v == y.v
              | _, _ => false)
          | none => false
        asmOnce st defs fuel ctx rest ectx ((name, nv) :: labels.filter (·.1 != name)) cur result (unstable || changed)
    | .instr src _ =>
      match parseSubsts (src.length + 1) src 0 [] with
      | .error e => .error e
      | .ok substs =>
        match performSubsts src substs ectx with
        | .error e => .error e
        | .ok excerpt =>
          let ms := matchInstr st.opts.optMatcher defs.ruledefs excerpt
          if ms.isEmpty then .error "no match found for instruction"
          else
            let newCtx := labels.foldl (fun c p => c.setLocal p.1 p.2) (hygienize ectx)
            match resolveEncoding st defs fuel inner ms newCtx with
            | .error e => .error e
            | .ok (some encs, _) =>
              let enc := (encs.headD (0, default)).2
              let size := enc.size.getD 0
              asmOnce st defs fuel ctx rest ectx labels (cur + size) (result.concat (result.size.getD 0) 0 enc size 0) unstable
            | .ok (none, reported) =>
              if !inner.canGuess then .error (reported.headD "failed to resolve instruction")
              else asmOnce st defs fuel ctx rest ectx labels cur result true
    | _ => .error "invalid content for `asm` block"
end

def evalFuel : Nat := 16 * Gen.EVAL_RECURSION_DEPTH_MAX + 50

/-- `asm::resolver::eval` -/
def resolverEval (st : Static) (defs : Defs) (ctx : RCtx) (ectx : ECtx) (e : Expr) : Except String (Value × ECtx) :=
  eval (mkEnv st defs evalFuel ctx) ectx e

end Casm
