/-!
# Casm.Model.Bits — big integers with optional bit size

Mirror of `src/util/bigint.rs` (the value/size pair, `min_size`, `slice`, `concat`,
bitwise operators on the infinite two's-complement expansion) and of the typed-argument
/ data-element range checks of `src/asm/resolver/instruction.rs`
(`check_and_constrain_argument`) and `src/asm/resolver/data_block.rs`
(`resolve_data_element`).  Import-free so that the model driver links as a `lean_exe`.
-/
namespace Casm

/-- `util::BigInt`: an unbounded integer with an optional size in bits. -/
structure BI where
  v : Int
  size : Option Nat
deriving DecidableEq, Repr, Inhabited

/-- `num_bigint::BigInt::bits()` of a magnitude: number of bits needed, 0 for 0. -/
def nbits (n : Nat) : Nat := if n = 0 then 0 else n.log2 + 1

/-- `BigInt::min_size` (`bigint.rs`): 1 for zero, `bits` for positives,
    `bits(v+1)+1` for negatives. -/
def minSize (x : Int) : Nat :=
  if x = 0 then 1
  else if x < 0 then nbits (x + 1).natAbs + 1
  else nbits x.natAbs

/-- `BigInt::sign` -/
def sign (x : Int) : Int := if x < 0 then -1 else if x = 0 then 0 else 1

def BI.sizeOrMin (x : BI) : Nat :=
  match x.size with
  | some s => s
  | none => minSize x.v

/-- bit `i` of the infinite two's-complement expansion (`num_bigint::BigInt::bit`). -/
def tbit (x : Int) (i : Nat) : Bool := (x >>> i) % 2 == 1

/-- value of bits `[right, left)` of `x` as a non-negative integer -/
def bitsRange (x : Int) (left right : Nat) : Int := (x >>> right) % (2 ^ (left - right) : Nat)

/-- `BigInt::slice(left, right)` for `left ≥ right` (the callers guarantee it;
    `left < right` is a `panic!` in the code and guarded by `checked_slice`). -/
def BI.slice (x : BI) (left right : Nat) : BI :=
  if x.size = some left ∧ right = 0 ∧ ¬ x.v < 0 then x
  else ⟨bitsRange x.v left right, some (left - right)⟩

/-- `BigInt::concat(self,(l0,l1),rhs,(r0,r1))` -/
def BI.concat (x : BI) (l0 l1 : Nat) (y : BI) (r0 r1 : Nat) : BI :=
  ⟨bitsRange x.v l0 l1 * (2 ^ (r0 - r1) : Nat) + bitsRange y.v r0 r1, some ((l0 - l1) + (r0 - r1))⟩

/-! ## typed arguments -/

inductive Ty | u | s | i
deriving DecidableEq, Repr

/-- the three failure predicates of `check_and_constrain_argument`, verbatim -/
def rejects (t : Ty) (size : Nat) (x : Int) : Bool :=
  match t with
  | .u => sign x == -1 || minSize x > size
  | .s => (sign x == 0 && size == 0) ||
          (sign x == 1 && minSize x ≥ size) ||
          (sign x == -1 && minSize x > size)
  | .i => minSize x > size

/-- `check_and_constrain_value_for_integer_type`: `none` = `FailedConstraint`,
    otherwise the same value with its size set to `N` -/
def checkArg (t : Ty) (N : Nat) (x : Int) : Option BI :=
  if rejects t N x then none else some ⟨x, some N⟩

/-- the `N` bits (MSB first) that `BitVec::write_bigint` emits for a value of size `N` -/
def emitBits (x : Int) (N : Nat) : List Bool :=
  (List.range N).map (fun k => tbit x (N - 1 - k))

/-! ## data elements (`#dN`) -/

inductive DataErr | outOfRange | noDefiniteSize
deriving DecidableEq, Repr

/-- final-pass branch of `resolve_data_element`: size check against the directive width,
    "no definite size" check, then `slice`. `N = none` is the plain `#d` directive. -/
def dataElem (N : Option Nat) (x : BI) : Except DataErr BI :=
  match N with
  | some n =>
    if x.sizeOrMin > n then .error .outOfRange
    else .ok (x.slice n 0)
  | none =>
    match x.size with
    | none => .error .noDefiniteSize
    | some s => .ok (x.slice s 0)

end Casm
