import Casm.Model.Ast
/-!
# Casm.Model.Symbols — `src/util/symbol_manager.rs`

The hierarchical declaration table.  Hash maps (`globals`, `children`) are association
lists here; they are only probed by key (no iteration), so no order parameter is needed.
-/
namespace Casm

inductive DeclKind | constant | label | function | other
deriving Repr, DecidableEq, Inhabited

structure SymDecl where
  name : String            -- full dotted name
  kind : DeclKind
  depth : Nat
  ctx : List String        -- `SymbolContext.hierarchy` after this declaration
  children : List (String × Nat)
deriving Repr, Inhabited

structure SymMgr where
  decls : List SymDecl
  globals : List (String × Nat)
  reportAs : String
deriving Repr, Inhabited

def SymMgr.new (reportAs : String) : SymMgr := ⟨[], [], reportAs⟩

def assocGet (l : List (String × Nat)) (k : String) : Option Nat := (l.find? (·.1 == k)).map (·.2)

def SymMgr.childrenOf (m : SymMgr) (parent : Option Nat) : List (String × Nat) :=
  match parent with
  | some p => (m.decls.getD p default).children
  | none => m.globals

/-- `get_parent(parent_ref, hierarchy)` -/
def SymMgr.getParent (m : SymMgr) : Option Nat → List String → Option (Option Nat)
  | parent, [] => some parent
  | parent, h :: rest =>
    match assocGet (m.childrenOf parent) h with
    | none => none
    | some c => m.getParent (some c) rest

/-- `traverse(parent_ref, hierarchy)` -/
def SymMgr.traverse (m : SymMgr) : Option Nat → List String → Option Nat
  | _, [] => none
  | parent, [h] => assocGet (m.childrenOf parent) h
  | parent, h :: rest =>
    match assocGet (m.childrenOf parent) h with
    | none => none
    | some c => m.traverse (some c) rest

/-- `try_get_by_name(ctx, hierarchy_level, hierarchy)`.
    NB: `get_parent` returning `None` (a context component that does not resolve) makes the
    Rust code traverse from the globals (`parent = None`), as here. -/
def SymMgr.tryGetByName (m : SymMgr) (ctx : List String) (level : Nat) (path : List String) : Option Nat :=
  if level > ctx.length then none
  else
    let parent := (m.getParent none (ctx.take level)).getD none
    m.traverse parent path

def displayName (level : Nat) (path : List String) : String :=
  String.ofList (List.replicate level '.') ++ ".".intercalate path

/-- `get_by_name`: error text on failure -/
def SymMgr.getByName (m : SymMgr) (ctx : List String) (level : Nat) (path : List String) : Except String Nat :=
  match m.tryGetByName ctx level path with
  | some r => .ok r
  | none => .error s!"unknown {m.reportAs} `{displayName level path}`"

/-- `declare(ctx, name, hierarchy_level, kind)` -/
def SymMgr.declare (m : SymMgr) (ctx : List String) (name : String) (level : Nat) (kind : DeclKind) :
    Except String (Nat × SymMgr) :=
  if level > ctx.length then .error "symbol declaration skips a nesting level"
  else
    let parent := (m.getParent none (ctx.take level)).getD none
    if (assocGet (m.childrenOf parent) name).isSome then .error s!"duplicate {m.reportAs} `{name}`"
    else
      let idx := m.decls.length
      let fullName := match parent with
        | some p => (m.decls.getD p default).name ++ "." ++ name
        | none => name
      let decl : SymDecl := ⟨fullName, kind, level, ctx.take level ++ [name], []⟩
      let m' : SymMgr :=
        match parent with
        | some p =>
          { m with decls := (m.decls.modify p fun d => { d with children := d.children ++ [(name, idx)] }) ++ [decl] }
        | none => { m with globals := m.globals ++ [(name, idx)], decls := m.decls ++ [decl] }
      .ok (idx, m')

end Casm
