import Casm.Model.Expr
import Casm.Model.Literal
import Casm.Gen.Consts
/-!
# Casm.Model.ExprParse — `src/expr/parser.rs`

The parser works on the token list of its region (whitespace and comments removed, line
breaks kept): the Rust parser only ever advances by whole tokens through
`maybe_expect`/`expect`/`next_useful_is`/`next_linebreak`, all of which skip ignorable
tokens, so this is equivalent to the lazy `Walker`.  The binary-operator levels are
*data* (`Gen.precedence`, re-extracted from parser.rs on every run); recursion is
structural on a fuel argument and the recursion-depth counter is the Rust one.
-/
namespace Casm

abbrev Toks := List Tok

def dropLB : Toks → Toks
  | [] => []
  | t :: ts => if t.kind == .LineBreak then dropLB ts else t :: ts

/-- kind of `next_useful_token` (a `LineBreak` at the end of the region) -/
def nextUsefulKind (ts : Toks) : TokKind :=
  match dropLB ts with
  | [] => .LineBreak
  | t :: _ => t.kind

/-- `maybe_expect(kind)` -/
def maybeExpect (k : TokKind) (ts : Toks) : Option (Tok × Toks) :=
  match dropLB ts with
  | [] => none
  | t :: rest => if t.kind == k then some (t, rest) else none

/-- `next_linebreak().is_some()` -/
def nextLinebreak : Toks → Bool
  | [] => true
  | t :: _ => t.kind == .LineBreak

/-- `maybe_expect_linebreak` -/
def maybeExpectLinebreak : Toks → Option Toks
  | [] => some []
  | t :: ts => if t.kind == .LineBreak then some ts else none

def printable : TokKind → String
  | .Identifier => "identifier" | .Number => "number" | .String => "string"
  | .ParenOpen => "`(`" | .ParenClose => "`)`" | .BracketOpen => "`[`" | .BracketClose => "`]`"
  | .BraceOpen => "`{`" | .BraceClose => "`}`" | .Comma => "`,`" | .Colon => "`:`"
  | .LineBreak => "line break"
  | k => Gen.tokKindName k

def expect (k : TokKind) (ts : Toks) : Except String (Tok × Toks) :=
  match maybeExpect k ts with
  | some r => .ok r
  | none => .error s!"expected {printable k}"

def findOp {α} (ops : List (TokKind × α)) (ts : Toks) : Option (α × Toks) :=
  match ops with
  | [] => none
  | (k, op) :: rest =>
    match maybeExpect k ts with
    | some (_, ts') => some (op, ts')
    | none => findOp rest ts

def depthErr : String := "expression recursion depth limit reached"
def fuelErr : String := "model: out of fuel"

abbrev PR := Except String (Expr × Toks)

mutual
/-- `parse_expr` -/
def parseExpr : Nat → Nat → Toks → PR
  | 0, _, _ => .error fuelErr
  | fuel + 1, d, ts =>
    if d + 1 > Gen.PARSE_RECURSION_DEPTH_MAX then .error depthErr
    else parseTernary fuel (d + 1) ts

def parseTernary : Nat → Nat → Toks → PR
  | 0, _, _ => .error fuelErr
  | fuel + 1, d, ts =>
    match parseAssignment fuel d ts with
    | .error e => .error e
    | .ok (cond, ts) =>
      match maybeExpect .Question ts with
      | none => .ok (cond, ts)
      | some (_, ts) =>
        match parseExpr fuel d ts with
        | .error e => .error e
        | .ok (t, ts) =>
          match maybeExpect .Colon ts with
          | none => .ok (.tern cond t (.block []), ts)
          | some (_, ts) =>
            match parseExpr fuel d ts with
            | .error e => .error e
            | .ok (f, ts) => .ok (.tern cond t f, ts)

def parseAssignment : Nat → Nat → Toks → PR
  | 0, _, _ => .error fuelErr
  | fuel + 1, d, ts =>
    match parseLevel fuel d Gen.precedence ts with
    | .error e => .error e
    | .ok (lhs, ts) =>
      match findOp Gen.assignOps ts with
      | none => .ok (lhs, ts)
      | some (op, ts) =>
        match parseExpr fuel d ts with
        | .error e => .error e
        | .ok (rhs, ts) => .ok (.bin op lhs rhs, ts)

/-- one `parse_binary_ops` level; `[]` = the function below the chain (`parse_slice`) -/
def parseLevel : Nat → Nat → List (List (TokKind × BinOp)) → Toks → PR
  | 0, _, _, _ => .error fuelErr
  | fuel + 1, d, [], ts => parseSlice fuel d ts
  | fuel + 1, d, ops :: rest, ts =>
    match parseLevel fuel d rest ts with
    | .error e => .error e
    | .ok (lhs, ts) => parseLevelLoop fuel d ops rest lhs ts

def parseLevelLoop : Nat → Nat → List (TokKind × BinOp) → List (List (TokKind × BinOp)) → Expr → Toks → PR
  | 0, _, _, _, _, _ => .error fuelErr
  | fuel + 1, d, ops, rest, lhs, ts =>
    if nextLinebreak ts then .ok (lhs, ts)
    else match findOp ops ts with
      | none => .ok (lhs, ts)
      | some (op, ts) =>
        match parseLevel fuel d rest ts with
        | .error e => .error e
        | .ok (rhs, ts) => parseLevelLoop fuel d ops rest (.bin op lhs rhs) ts

def parseSlice : Nat → Nat → Toks → PR
  | 0, _, _ => .error fuelErr
  | fuel + 1, d, ts =>
    match parseSliceShort fuel d ts with
    | .error e => .error e
    | .ok (inner, ts) =>
      if nextLinebreak ts then .ok (inner, ts)
      else match maybeExpect .BracketOpen ts with
        | none => .ok (inner, ts)
        | some (_, ts) =>
          match parseExpr fuel d ts with
          | .error e => .error e
          | .ok (hi, ts) =>
            match expect .Colon ts with
            | .error e => .error e
            | .ok (_, ts) =>
              match parseExpr fuel d ts with
              | .error e => .error e
              | .ok (lo, ts) =>
                match expect .BracketClose ts with
                | .error e => .error e
                | .ok (_, ts) => .ok (.slice hi lo inner, ts)

def parseSliceShort : Nat → Nat → Toks → PR
  | 0, _, _ => .error fuelErr
  | fuel + 1, d, ts =>
    match parseUnary fuel d ts with
    | .error e => .error e
    | .ok (inner, ts) =>
      if nextLinebreak ts then .ok (inner, ts)
      else match maybeExpect .Grave ts with
        | none => .ok (inner, ts)
        | some (_, ts) =>
          match parseLeaf fuel d ts with
          | .error e => .error e
          | .ok (size, ts) => .ok (.sliceShort size inner, ts)

/-- `parse_unary_ops` -/
def parseUnary : Nat → Nat → Toks → PR
  | 0, _, _ => .error fuelErr
  | fuel + 1, d, ts =>
    match findOp Gen.unaryOps ts with
    | some (op, ts) =>
      if d + 1 > Gen.PARSE_RECURSION_DEPTH_MAX then .error depthErr
      else match parseUnary fuel (d + 1) ts with
        | .error e => .error e
        | .ok (inner, ts) => .ok (.un op inner, ts)
    | none => parseCall fuel d ts

def parseCall : Nat → Nat → Toks → PR
  | 0, _, _ => .error fuelErr
  | fuel + 1, d, ts =>
    match parseLeaf fuel d ts with
    | .error e => .error e
    | .ok (leaf, ts) =>
      if nextLinebreak ts then .ok (leaf, ts)
      else match maybeExpect .ParenOpen ts with
        | none => .ok (leaf, ts)
        | some (_, ts) =>
          match parseArgs fuel d [] ts with
          | .error e => .error e
          | .ok (args, ts) =>
            match expect .ParenClose ts with
            | .error e => .error e
            | .ok (_, ts) => .ok (.call leaf args, ts)

def parseArgs : Nat → Nat → List Expr → Toks → Except String (List Expr × Toks)
  | 0, _, _, _ => .error fuelErr
  | fuel + 1, d, acc, ts =>
    if nextUsefulKind ts == .ParenClose then .ok (acc.reverse, ts)
    else match parseExpr fuel d ts with
      | .error e => .error e
      | .ok (e, ts) =>
        if nextUsefulKind ts == .ParenClose then .ok ((e :: acc).reverse, ts)
        else match expect .Comma ts with
          | .error e => .error e
          | .ok (_, ts) => parseArgs fuel d (e :: acc) ts

def parseLeaf : Nat → Nat → Toks → PR
  | 0, _, _ => .error fuelErr
  | fuel + 1, d, ts =>
    match nextUsefulKind ts with
    | .BraceOpen =>
      match expect .BraceOpen ts with
      | .error e => .error e
      | .ok (_, ts) =>
        match parseBlockItems fuel d [] ts with
        | .error e => .error e
        | .ok (es, ts) =>
          match expect .BraceClose ts with
          | .error e => .error e
          | .ok (_, ts) => .ok (.block es, ts)
    | .ParenOpen =>
      match expect .ParenOpen ts with
      | .error e => .error e
      | .ok (_, ts) =>
        match parseExpr fuel d ts with
        | .error e => .error e
        | .ok (e, ts) =>
          match expect .ParenClose ts with
          | .error e => .error e
          | .ok (_, ts) => .ok (e, ts)
    | .Identifier => parseVariable fuel ts
    | .Dot => parseVariable fuel ts
    | .Number =>
      match expect .Number ts with
      | .error e => .error e
      | .ok (tk, ts) =>
        match excerptAsBigint tk.text with
        | .ok b => .ok (.lit (.int b), ts)
        | .error .invalidDigits => .error "invalid digits"
        | .error .invalidValue => .error "invalid value"
        | .error .empty => .error "panic: empty excerpt"
    | .String =>
      match expect .String ts with
      | .error e => .error e
      | .ok (tk, ts) =>
        match stringContents tk.text with
        | some s => .ok (.lit (.str s .utf8), ts)
        | none => .error "invalid escape sequence"
    | .KeywordAsm => .error "model: asm block not supported at this layer"
    | .KeywordTrue =>
      match expect .KeywordTrue ts with
      | .error e => .error e
      | .ok (_, ts) => .ok (.lit (.bool true), ts)
    | .KeywordFalse =>
      match expect .KeywordFalse ts with
      | .error e => .error e
      | .ok (_, ts) => .ok (.lit (.bool false), ts)
    | _ => .error "expected expression"

def parseBlockItems : Nat → Nat → List Expr → Toks → Except String (List Expr × Toks)
  | 0, _, _, _ => .error fuelErr
  | fuel + 1, d, acc, ts =>
    if nextUsefulKind ts == .BraceClose then .ok (acc.reverse, ts)
    else match parseExpr fuel d ts with
      | .error e => .error e
      | .ok (e, ts) =>
        match maybeExpectLinebreak ts with
        | some ts => parseBlockItems fuel d (e :: acc) ts
        | none =>
          if nextUsefulKind ts == .BraceClose then .ok ((e :: acc).reverse, ts)
          else match expect .Comma ts with
            | .error e => .error e
            | .ok (_, ts) => parseBlockItems fuel d (e :: acc) ts

/-- `parse_variable`: leading dots, then `name(.name)*` -/
def parseVariable : Nat → Toks → PR
  | 0, _ => .error fuelErr
  | fuel + 1, ts =>
    let (level, ts) := parseDots fuel 0 ts
    match parseNames fuel [] ts with
    | .error e => .error e
    | .ok (names, ts) => .ok (.var level names, ts)

def parseDots : Nat → Nat → Toks → Nat × Toks
  | 0, n, ts => (n, ts)
  | fuel + 1, n, ts =>
    if nextLinebreak ts then (n, ts)
    else match maybeExpect .Dot ts with
      | some (_, ts) => parseDots fuel (n + 1) ts
      | none => (n, ts)

def parseNames : Nat → List String → Toks → Except String (List String × Toks)
  | 0, _, _ => .error fuelErr
  | fuel + 1, acc, ts =>
    match expect .Identifier ts with
    | .error e => .error e
    | .ok (tk, ts) =>
      let acc := String.ofList tk.text :: acc
      if nextLinebreak ts then .ok (acc.reverse, ts)
      else match maybeExpect .Dot ts with
        | none => .ok (acc.reverse, ts)
        | some (_, ts) => parseNames fuel acc ts
end

/-- tokens of a region with whitespace and comments removed -/
def usefulTokens (s : List Char) : Toks :=
  (tokenize s).filter fun t => !(t.kind == .Whitespace || t.kind == .Comment)

def parseFuel (ts : Toks) : Nat := 4000 + 8 * ts.length

/-- `expr::parse` on a fresh walker over `s` -/
def parseExprText (s : List Char) : PR :=
  let ts := usefulTokens s
  parseExpr (parseFuel ts) 0 ts

end Casm
