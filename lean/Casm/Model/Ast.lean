import Casm.Model.Expr
/-! # Casm.Model.Ast — the top-level syntax tree (`src/asm/parser/*.rs`) -/
namespace Casm

inductive ParamTy where
  | unspecified
  | ruledef (name : String)
  | unsigned (n : Nat)
  | signed (n : Nat)
  | integer (n : Nat)
deriving Repr, DecidableEq, Inhabited

inductive PatPart where
  | whitespace
  | exact (c : Char)
  | param (name : String) (ty : ParamTy)
deriving Repr, DecidableEq, Inhabited

structure RuleAst where
  pattern : List PatPart
  expr : Expr
deriving Repr, Inhabited

inductive SymKind where
  | constant (e : Expr)
  | label
deriving Repr, Inhabited

structure BankdefAst where
  name : String
  addrUnit : Option Expr
  labelAlign : Option Expr
  addrStart : Option Expr
  addrEnd : Option Expr
  addrSize : Option Expr
  outp : Option Expr
  fill : Bool
deriving Repr, Inhabited

/-- `ref` fields are the `item_ref`s the declaration/definition passes fill in (`none` after parsing);
    `file` is the file the node came from (its spans' file handle) -/
inductive AstNode where
  | addr (e : Expr) (ref : Option Nat := none)
  | align (e : Expr) (ref : Option Nat := none)
  | assert (e : Expr)
  | bank (name : String) (ref : Option Nat := none)
  | bankdef (b : BankdefAst) (ref : Option Nat := none)
  | data (size : Option Nat) (es : List Expr) (refs : List Nat := [])
  | fn (name : String) (params : List String) (body : Expr) (ref : Option Nat := none)
  | ifDir (cond : Expr) (t : List AstNode) (f : Option (List AstNode))
  | include (file : List Char)
  | once
  | res (e : Expr) (ref : Option Nat := none)
  | ruledef (name : Option String) (sub : Bool) (rules : List RuleAst) (ref : Option Nat := none)
  | instr (src : List Char) (ref : Option Nat := none)
  | symbol (level : Nat) (name : String) (kind : SymKind) (noEmit : Bool) (ref : Option Nat := none)
deriving Repr, Inhabited

end Casm
