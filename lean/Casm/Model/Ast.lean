import Casm.Model.Expr
/-! # Casm.Model.Ast — the top-level syntax tree (`src/asm/parser/*.rs`) -/
namespace Casm

inductive ParamTy where
  | unspecified
  | ruledef (name : String)
  | unsigned (n : Nat)
  | signed (n : Nat)
  | integer (n : Nat)
deriving Repr, DecidableEq, Inhabited

inductive PatPart where
  | whitespace
  | exact (c : Char)
  | param (name : String) (ty : ParamTy)
deriving Repr, DecidableEq, Inhabited

structure RuleAst where
  pattern : List PatPart
  expr : Expr
deriving Repr, Inhabited

inductive SymKind where
  | constant (e : Expr)
  | label
deriving Repr, Inhabited

structure BankdefAst where
  name : String
  addrUnit : Option Expr
  labelAlign : Option Expr
  addrStart : Option Expr
  addrEnd : Option Expr
  addrSize : Option Expr
  outp : Option Expr
  fill : Bool
deriving Repr, Inhabited

inductive AstNode where
  | addr (e : Expr)
  | align (e : Expr)
  | assert (e : Expr)
  | bank (name : String)
  | bankdef (b : BankdefAst)
  | data (size : Option Nat) (es : List Expr)
  | fn (name : String) (params : List String) (body : Expr)
  | ifDir (cond : Expr) (t : List AstNode) (f : Option (List AstNode))
  | include (file : List Char)
  | once
  | res (e : Expr)
  | ruledef (name : Option String) (sub : Bool) (rules : List RuleAst)
  | instr (src : List Char)
  | symbol (level : Nat) (name : String) (kind : SymKind) (noEmit : Bool)
deriving Repr, Inhabited

end Casm
