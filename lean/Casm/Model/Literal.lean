import Casm.Model.Bits
import Casm.Model.Token
/-!
# Casm.Model.Literal — `src/syntax/excerpt.rs`

`parseRadix`, `excerptAsBigint` (numeric literals with radix prefixes, `_` grouping and
size inference) and `stringContents` (escape sequences).
-/
namespace Casm

/-- `char::to_digit(radix)` -/
def toDigit (radix : Nat) (c : Char) : Option Nat :=
  let d : Option Nat :=
    if '0' ≤ c && c ≤ '9' then some (c.toNat - '0'.toNat)
    else if 'a' ≤ c && c ≤ 'z' then some (c.toNat - 'a'.toNat + 10)
    else if 'A' ≤ c && c ≤ 'Z' then some (c.toNat - 'A'.toNat + 10)
    else none
  match d with
  | some d => if d < radix then some d else none
  | none => none

/-- `parse_radix(chars, 0)`: radix and the rest after the prefix -/
def parseRadix : List Char → Nat × List Char
  | '0' :: 'b' :: rest => (2, rest)
  | '0' :: 'o' :: rest => (8, rest)
  | '0' :: 'x' :: rest => (16, rest)
  | '0' :: c :: rest => (10, '0' :: c :: rest)
  | '%' :: rest => (2, rest)
  | '$' :: rest => (16, rest)
  | cs => (10, cs)

inductive LitErr | invalidDigits | invalidValue | empty
deriving DecidableEq, Repr

/-- digit loop of `excerpt_as_bigint`: accumulated value and digit count -/
def digitLoop (radix : Nat) : List Char → Nat → Nat → Except LitErr (Nat × Nat)
  | [], v, n => .ok (v, n)
  | c :: cs, v, n =>
    if c == '_' then digitLoop radix cs v n
    else match toDigit radix c with
      | some d => digitLoop radix cs (v * radix + d) (n + 1)
      | none => .error .invalidDigits

def radixBits (radix : Nat) : Option Nat :=
  if radix == 2 then some 1 else if radix == 8 then some 3 else if radix == 16 then some 4 else none

/-- `excerpt_as_bigint` (`empty` stands for the `assert!(chars.len() >= 1)` panic) -/
def excerptAsBigint (s : List Char) : Except LitErr BI :=
  match s with
  | [] => .error .empty
  | _ =>
    let (radix, rest) := parseRadix s
    match digitLoop radix rest 0 0 with
    | .error e => .error e
    | .ok (v, n) =>
      if n == 0 then .error .invalidValue
      else .ok ⟨(v : Int), (radixBits radix).map (· * n)⟩

/-! ## string literals -/

def hexDigit (c : Char) : Option Nat := toDigit 16 c

/-- the `\u{...}` digit loop: at most 6 hex digits... mirrors the `i > 6` test that is made
    *before* reading the next char, so up to 7 reads are possible (6 digits + `}`), and a
    7th digit is read before the 8th iteration reports the error. -/
def unicodeLoop : Nat → List Char → Nat → Option (Nat × List Char)
  | i, cs, cp =>
    if i > 6 then none
    else match cs with
      | '}' :: rest => some (cp, rest)
      | c :: rest =>
        match hexDigit c with
        | some d => if i < 7 then unicodeLoop (i + 1) rest (cp * 16 + d) else none
        | none => none
      | [] => none
termination_by i _ _ => 7 - i

def isValidScalar (n : Nat) : Bool := n < 0xd800 || (0xdfff < n && n < 0x110000)

/-- `excerpt_as_string_contents` applied to the text *between* the quotes -/
def unescape : Nat → List Char → List Char → Option (List Char)
  | 0, _, _ => none
  | _, [], acc => some acc.reverse
  | fuel + 1, '\\' :: rest, acc =>
    match rest with
    | '0' :: r => unescape fuel r ('\x00' :: acc)
    | 't' :: r => unescape fuel r ('\t' :: acc)
    | 'r' :: r => unescape fuel r ('\r' :: acc)
    | 'n' :: r => unescape fuel r ('\n' :: acc)
    | '\'' :: r => unescape fuel r ('\'' :: acc)
    | '"' :: r => unescape fuel r ('"' :: acc)
    | '\\' :: r => unescape fuel r ('\\' :: acc)
    | 'x' :: a :: b :: r =>
      match hexDigit a, hexDigit b with
      | some x, some y =>
        let byte := x * 16 + y
        if byte > 0x7f then none else unescape fuel r (Char.ofNat byte :: acc)
      | _, _ => none
    | 'u' :: '{' :: r =>
      match unicodeLoop 0 r 0 with
      | some (cp, r') =>
        -- the Rust accumulator is a u32: 7 hex digits still fit, so no wrap-around
        if isValidScalar cp then unescape fuel r' (Char.ofNat cp :: acc) else none
      | none => none
    | _ => none
  | fuel + 1, c :: rest, acc => unescape fuel rest (c :: acc)

/-- contents of a string token (including its quotes) -/
def stringContents (tok : List Char) : Option (List Char) :=
  if tok.length < 2 then none
  else
    let inner := (tok.drop 1).take (tok.length - 2)
    unescape (inner.length + 1) inner []

end Casm
