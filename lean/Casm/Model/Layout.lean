import Casm.Model.Overlap
import Casm.Model.Format
/-!
# Casm.Model.Layout — banks, address bookkeeping and `build_output`

Mirrors `src/asm/defs/bankdef.rs` (the `Bankdef` record), `src/asm/resolver/iter.rs`
(`ResolveIterator::next` / `advance_address`, `bits_until_alignment`, `get_address`,
`get_output_position`) and `src/asm/output/mod.rs` (`check_bank_overlap`, `build_output`,
`fill_banks`, `check_bank_usage`, `check_bank_output`) over *resolved* items: what each
item contributes after resolution (its bits, its reserve size, its alignment, its address).
-/
namespace Casm

structure Bank where
  addrStart : Int
  addrUnit : Nat
  labelAlign : Option Nat
  size : Option Nat        -- bits (`addr_size * addr_unit`)
  outp : Option Nat        -- bits
  fill : Bool
deriving Repr, Inhabited, DecidableEq

/-- the implicit bank 0 -/
def defaultBank : Bank := ⟨0, 8, none, none, some 0, false⟩

/-- a resolved item, as `ResolveIterator` sees it -/
inductive RItem where
  | bank (k : Nat)                       -- `#bank` / `#bankdef`
  | label (depth : Nat) (value : Int)    -- a label with its resolved value
  | emit (bits : List Bool) -- an instruction or data element with its encoding
  | res (reserve : Nat)                  -- `#res`, already multiplied by the address unit
  | align (n : Nat)
  | addr (a : Int)
  | const (depth : Nat)                  -- a constant: a symbol, but no label - `labelalign` does not apply (F57)
  | other                                -- #assert, #fn, #ruledef, ...
deriving Repr, Inhabited

inductive LayErr where
  | bankOverlap | defaultBank | outOfRange | nonWritable | overlap | misaligned | valueRange | badBank
deriving DecidableEq, Repr

/-- `bits_until_alignment` -/
def bitsUntilAlignment (curAddrBits : Int) (alignment : Nat) : Except LayErr Nat :=
  if alignment = 0 then .ok 0
  else
    let excess := Int.tmod curAddrBits alignment
    if excess < 0 ∨ excess ≥ (2 ^ 64 : Nat) then .error .valueRange
    else
      let e := excess.toNat
      .ok (if e ≠ 0 then alignment - e else 0)

structure IterSt where
  bank : Nat
  cur : List Nat       -- `bank_data[k].cur_position`
deriving Repr

def IterSt.pos (s : IterSt) : Nat := s.cur.getD s.bank 0
def IterSt.setPos (s : IterSt) (p : Nat) : IterSt := { s with cur := s.cur.set s.bank p }

def initIter (banks : List Bank) : IterSt := ⟨0, List.replicate banks.length 0⟩

/-- `advance_position`: the position of a bank is a machine word; a sum that does not fit is "value is out of
    supported range" (finding F61, repaired: the sums wrapped around in the released binary) -/
def addPos (s : IterSt) (n : Nat) : Except LayErr IterSt :=
  if s.pos + n < 2 ^ 64 then .ok (s.setPos (s.pos + n)) else .error .valueRange

/-- `labelalign` is honoured for every *label* of depth 0 (finding F57, repaired: constants were padded too) -/
def visitSymbol (banks : List Bank) (s : IterSt) (depth : Nat) : Except LayErr IterSt :=
  match banks[s.bank]? with
  | none => .error .badBank
  | some b =>
    match b.labelAlign with
    | some la =>
      if depth = 0 then
        match bitsUntilAlignment (b.addrStart * b.addrUnit + s.pos) la with
        | .ok n => addPos s n
        | .error e => .error e
      else .ok s
    | none => .ok s

/-- the part of `next()` that runs before the context is built (bank switches, `labelalign`) -/
def visit (banks : List Bank) (s : IterSt) : RItem → Except LayErr IterSt
  | .bank k => .ok { s with bank := k }
  | .label depth _ => visitSymbol banks s depth
  | .const _ => .ok s
  | _ => .ok s

/-- `advance_address` for the item just visited -/
def advance (banks : List Bank) (s : IterSt) : RItem → Except LayErr IterSt
  | .emit bits => addPos s bits.length
  | .res n => addPos s n
  | .align n =>
    match banks[s.bank]? with
    | none => .error .badBank
    | some b =>
      match bitsUntilAlignment (b.addrStart * b.addrUnit + s.pos) n with
      | .ok k => addPos s k
      | .error e => .error e
  | .addr a =>
    match banks[s.bank]? with
    | none => .error .badBank
    | some b =>
      let newPos :=
        if a ≥ b.addrStart then
          let d := a - b.addrStart
          if d < (2 ^ 64 : Nat) ∧ d.toNat * b.addrUnit < 2 ^ 64 then d.toNat * b.addrUnit else 0
        else 0
      .ok (s.setPos newPos)
  | _ => .ok s

/-- `get_address(can_guess = true)` -/
def getAddress (b : Bank) (cur : Nat) : Int := (cur / b.addrUnit : Nat) + b.addrStart

/-- `eval_address(can_guess = false)`: `none` = "position is not aligned to an address" -/
def evalAddressStrict (b : Bank) (cur : Nat) : Option Int :=
  if cur % b.addrUnit ≠ 0 then none else some (getAddress b cur)

def getOutputPosition (b : Bank) (cur : Nat) : Option Nat := b.outp.map (· + cur)

/-! ## output -/

structure OSpan where
  offset : Option Nat
  size : Nat
  addr : Int
deriving Repr, DecidableEq

structure Output where
  bits : List Bool
  spans : List OSpan
deriving Repr

/-- `BitVec::write_bigint` at `pos` (extends with zeros) -/
def writeAt (out : List Bool) (pos : Nat) (bs : List Bool) : List Bool :=
  let out' := out ++ List.replicate (pos + bs.length - out.length) false
  out'.take pos ++ bs ++ out'.drop (pos + bs.length)

/-- `write_bit(index, false)`: only extends the length -/
def extendTo (out : List Bool) (len : Nat) : List Bool := out ++ List.replicate (len - out.length) false

/-- `check_bank_overlap`: pairs `1 ≤ i < j` of banks with an output offset -/
def banksOverlap (b1 b2 : Bank) : Bool :=
  match b1.outp, b2.outp with
  | some o1, some o2 =>
    match b1.size, b2.size with
    | none, none => true
    | some s1, none => o1 + s1 > o2
    | none, some s2 => o2 + s2 > o1
    | some s1, some s2 => o1 + s1 > o2 && o2 + s2 > o1
  | _, _ => false

def checkBankOverlap (banks : List Bank) : Bool :=
  let idx := (List.range banks.length).filter (· ≥ 1)
  idx.all fun i => idx.all fun j =>
    if i < j then !(banksOverlap (banks.getD i defaultBank) (banks.getD j defaultBank)) else true

/-- `fill_banks` -/
def fillBanks (banks : List Bank) (out : List Bool) : List Bool :=
  banks.foldl (fun out b =>
    match b.fill, b.size, b.outp with
    | true, some size, some offset =>
      if size > 0 ∧ out.length < offset + size then extendTo out (offset + size) else out
    | _, _, _ => out) out

def checkBankUsage (banks : List Bank) (s : IterSt) : Except LayErr Unit :=
  if s.bank = 0 ∧ banks.length ≠ 1 then .error .defaultBank else .ok ()

/-- the item's position in the output must be addressable (finding F81, repaired: `outp + position` wrapped around in the
    released binary and the item landed outside its bank's window) -/
def outputFits (b : Bank) (cur size : Nat) : Bool :=
  match b.outp with
  | some o => o + cur + size < 2 ^ 64
  | none => true

def checkBankOutput (b : Bank) (cur size : Nat) (write : Bool) : Except LayErr Unit :=
  match b.size with
  | some bs => if cur + size > bs then .error .outOfRange
               else if !outputFits b cur size then .error .valueRange
               else if write ∧ b.outp.isNone then .error .nonWritable else .ok ()
  | none => if !outputFits b cur size then .error .valueRange
            else if write ∧ b.outp.isNone then .error .nonWritable else .ok ()

structure BuildSt where
  it : IterSt
  out : List Bool
  spans : List OSpan
  ov : List OEntry

/-- label node of `build_output` -/
def nodeLabel (banks : List Bank) (b : Bank) (it : IterSt) (st : BuildSt) (value : Int) : Except LayErr BuildSt :=
  match checkBankUsage banks it with
  | .error e => .error e
  | .ok _ =>
    match checkBankOutput b it.pos 0 false with
    | .error e => .error e
    | .ok _ => .ok { st with it := it, spans := st.spans ++ [⟨getOutputPosition b it.pos, 0, value⟩] }

/-- instruction / data element node of `build_output` -/
def nodeEmit (banks : List Bank) (b : Bank) (it : IterSt) (st : BuildSt) (bits : List Bool) : Except LayErr BuildSt :=
  match checkBankUsage banks it with
  | .error e => .error e
  | .ok _ =>
    match checkBankOutput b it.pos bits.length true with
    | .error e => .error e
    | .ok _ =>
      match getOutputPosition b it.pos with
      | none => .error .nonWritable
      | some pos =>
        match checkAndInsert st.ov pos bits.length with
        | none => .error .overlap
        | some ov =>
          .ok { it := it, out := writeAt st.out pos bits,
                spans := st.spans ++ [⟨some pos, bits.length, getAddress b it.pos⟩], ov := ov }

/-- `#res` node of `build_output` -/
def nodeRes (banks : List Bank) (b : Bank) (it : IterSt) (st : BuildSt) (n : Nat) : Except LayErr BuildSt :=
  match checkBankUsage banks it with
  | .error e => .error e
  | .ok _ =>
    match checkBankOutput b it.pos n false with
    | .error e => .error e
    | .ok _ =>
      match getOutputPosition b it.pos with
      | none => .ok { st with it := it }
      | some pos =>
        match checkAndInsert st.ov pos n with
        | none => .error .overlap
        | some ov => .ok { st with it := it, ov := ov }

def nodeOf (banks : List Bank) (b : Bank) (it : IterSt) (st : BuildSt) : RItem → Except LayErr BuildSt
  | .label _ value => nodeLabel banks b it st value
  | .emit bits => nodeEmit banks b it st bits
  | .res n => nodeRes banks b it st n
  | _ => .ok { st with it := it }

/-- one step of the `while let Some(ctx) = iter.next(...)` loop of `build_output` -/
def buildStep (banks : List Bank) (st : BuildSt) (item : RItem) : Except LayErr BuildSt :=
  match visit banks st.it item with
  | .error e => .error e
  | .ok it =>
    match banks[it.bank]? with
    | none => .error .badBank
    | some b =>
      match nodeOf banks b it st item with
      | .error e => .error e
      | .ok st' =>
        match advance banks st'.it item with
        | .error e => .error e
        | .ok it' => .ok { st' with it := it' }

def buildLoop (banks : List Bank) : BuildSt → List RItem → Except LayErr BuildSt
  | st, [] => .ok st
  | st, i :: rest =>
    match buildStep banks st i with
    | .error e => .error e
    | .ok st' => buildLoop banks st' rest

/-- `check_bank_overlap` followed by `build_output` -/
def buildOutput (banks : List Bank) (items : List RItem) : Except LayErr Output :=
  if !checkBankOverlap banks then .error .bankOverlap
  else
    match buildLoop banks ⟨initIter banks, fillBanks banks [], [], []⟩ items with
    | .error e => .error e
    | .ok st => .ok ⟨st.out, st.spans⟩

/-- the label pass of the final iteration: assigns every label the address at which it
    lies (`eval_address` with guessing forbidden), walking the items with the same address
    bookkeeping; `#addr` range errors of the final pass are included. -/
def resolveLabels (banks : List Bank) : IterSt → List RItem → List RItem → Except LayErr (List RItem)
  | _, [], acc => .ok acc.reverse
  | s, item :: rest, acc =>
    match visit banks s item with
    | .error e => .error e
    | .ok it =>
      match banks[it.bank]? with
      | none => .error .badBank
      | some b =>
        let item' : Except LayErr RItem :=
          match item with
          | .label d _ =>
            match evalAddressStrict b it.pos with
            | some a => .ok (.label d a)
            | none => .error .misaligned
          | .addr a =>
            if a < b.addrStart then .error .outOfRange
            else
              let delta := (a - b.addrStart) * b.addrUnit
              if delta ≥ (2 ^ 64 : Nat) then .error .valueRange
              else match b.size with
                | some sz => if delta.toNat ≥ sz then .error .outOfRange else .ok item
                | none => .ok item
          | .align n => if n = 0 then .error .valueRange else .ok item
          | _ => .ok item
        match item' with
        | .error e => .error e
        | .ok item' =>
          match advance banks it item' with
          | .error e => .error e
          | .ok it' => resolveLabels banks it' rest (item' :: acc)

end Casm
