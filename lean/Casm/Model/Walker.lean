import Casm.Model.Token
/-!
# Casm.Model.Walker — `src/syntax/walker.rs`

The walker's state is the text from the cursor to the cursor limit (`Src`, a `List Char`);
tokens are decided lazily at the cursor exactly as `Walker::token_at` does.  Positions,
where needed, are recovered as `original.length - remaining.length` (in characters) or
with `utf8Len` (in bytes).
-/
namespace Casm

abbrev Src := List Char

/-- `token_at(cursor)`: at the limit a `LineBreak` token of length 0 -/
def tokenAt (s : Src) : Tok :=
  match s with
  | [] => ⟨.LineBreak, []⟩
  | _ =>
    let (k, n) := decideNextToken s
    let n := if n == 0 then 1 else n
    ⟨k, s.take n⟩

/-- `skip_ignorable` (whitespace, comments and line breaks); fuel = length of the text -/
def skipIgnorableAux : Nat → Src → Src
  | 0, s => s
  | _, [] => []
  | fuel + 1, s =>
    let t := tokenAt s
    if t.kind.isIgnorable then skipIgnorableAux fuel (s.drop t.text.length) else s

def skipIgnorable (s : Src) : Src := skipIgnorableAux s.length s

/-- skip whitespace and comments only (up to a line break) -/
def skipBlanksAux : Nat → Src → Src
  | 0, s => s
  | _, [] => []
  | fuel + 1, s =>
    let t := tokenAt s
    if t.kind == .Whitespace || t.kind == .Comment then skipBlanksAux fuel (s.drop t.text.length) else s

def skipBlanks (s : Src) : Src := skipBlanksAux s.length s

/-- `next_useful_token()` -/
def nextUsefulToken (s : Src) : Tok := tokenAt (skipIgnorable s)

/-- kind of the `nth` useful token (`next_nth_useful_token(nth)`) -/
def nthUsefulKind : Nat → Src → TokKind
  | 0, s => (nextUsefulToken s).kind
  | n + 1, s =>
    let s' := skipIgnorable s
    match s' with
    | [] => .LineBreak
    | _ => nthUsefulKind n (s'.drop (tokenAt s').text.length)

def nextUsefulKind (s : Src) : TokKind := (nextUsefulToken s).kind

/-- `maybe_expect(kind)`: the token and the text after it -/
def maybeExpect (k : TokKind) (s : Src) : Option (Tok × Src) :=
  let s' := skipIgnorable s
  match s' with
  | [] => none          -- the end-of-text token is a `LineBreak` of length 0; nothing expects it through this path
  | _ =>
    let t := tokenAt s'
    if t.kind == k then some (t, s'.drop t.text.length) else none

/-- `next_linebreak().is_some()`: only blanks and comments before the next line break / the end -/
def nextLinebreak (s : Src) : Bool :=
  match skipBlanks s with
  | [] => true
  | s' => (tokenAt s').kind == .LineBreak

/-- `maybe_expect_linebreak()` -/
def maybeExpectLinebreak (s : Src) : Option Src :=
  match skipBlanks s with
  | [] => some []
  | s' =>
    let t := tokenAt s'
    if t.kind == .LineBreak then some (s'.drop t.text.length) else none

def isOver (s : Src) : Bool := s.isEmpty

/-- `advance_until_closing_brace()`: character-level brace matching; returns the inner text
    and the text from the closing brace on -/
def untilClosingBraceAux : Nat → Src → Nat → List Char → List Char × Src
  | 0, s, _, acc => (acc.reverse, s)
  | _ + 1, [], _, acc => (acc.reverse, [])
  | fuel + 1, c :: cs, nesting, acc =>
    -- braces inside comments and string literals do not count (finding F64, repaired)
    if (c == ';' || c == '"') && ((decideNextToken (c :: cs)).1 == .Comment || (decideNextToken (c :: cs)).1 == .String) then
      let n := (decideNextToken (c :: cs)).2
      let n := if n == 0 then 1 else n
      untilClosingBraceAux fuel ((c :: cs).drop n) nesting (((c :: cs).take n).reverse ++ acc)
    else if c == '{' then untilClosingBraceAux fuel cs (nesting + 1) (c :: acc)
    else if c == '}' then
      if nesting == 0 then (acc.reverse, c :: cs) else untilClosingBraceAux fuel cs (nesting - 1) (c :: acc)
    else untilClosingBraceAux fuel cs nesting (c :: acc)

def untilClosingBrace (s : Src) (nesting : Nat) (acc : List Char) : List Char × Src :=
  untilClosingBraceAux (s.length + 1) s nesting acc

/-- `advance_until_linebreak()`: token-level, braces nest; returns the line (up to the end
    of its last non-ignorable token) and the rest (from the line break / closing brace on) -/
def untilLinebreakAux : Nat → Src → Nat → Nat → Nat → Nat × Nat
  -- returns (end of last useful token, stop position), both as counts of characters consumed
  | 0, _, _, pos, endPos => (endPos, pos)
  | _, [], _, pos, endPos => (endPos, pos)
  | fuel + 1, s, nesting, pos, endPos =>
    let t := tokenAt s
    let len := t.text.length
    if t.kind == .LineBreak && nesting == 0 then (endPos, pos)
    else if t.kind == .BraceClose && nesting == 0 then (endPos, pos)
    else
      let nesting := if t.kind == .BraceOpen then nesting + 1 else if t.kind == .BraceClose then nesting - 1 else nesting
      let pos' := pos + len
      let endPos := if t.kind.isIgnorable then endPos else pos'
      untilLinebreakAux fuel (s.drop len) nesting pos' endPos

def untilLinebreak (s : Src) : List Char × Src :=
  let (e, p) := untilLinebreakAux s.length s 0 0 0
  (s.take e, s.drop p)

end Casm
