import Casm.Gen.Formats
import Casm.Model.Format
import Casm.Model.Util
/-!
# Casm.Model.OutFormat — `driver::parse_output_format`, `format_output` dispatch

Generic over `Gen.formatTable` (re-extracted from driver.rs on every run).
-/
namespace Casm

structure OutFmt where
  variant : String
  fields : List (String × Nat)
deriving DecidableEq, Repr

/-- `str::parse::<usize>()`: optional `+`, at least one ASCII digit, value below 2^64 -/
def parseUsize (s : List Char) : Option Nat :=
  let ds := match s with
    | '+' :: rest => rest
    | _ => s
  if ds.isEmpty || !(ds.all fun c => '0' ≤ c && c ≤ '9') then none
  else
    let v := ds.foldl (fun a c => a * 10 + (c.toNat - 48)) 0
    if v < 2 ^ 64 then some v else none

def Gen.Validator.check : Gen.Validator → Nat → Bool
  | .nonzero, v => v > 0
  | .oneOf l, v => l.contains v

abbrev Params := List (String × String)

def Params.insert (p : Params) (k v : String) : Params := (k, v) :: p.filter (·.1 != k)
def Params.get (p : Params) (k : String) : Option String := (p.find? (·.1 == k)).map (·.2)
def Params.remove (p : Params) (k : String) : Params := p.filter (·.1 != k)

/-- the loop that fills the parameter map -/
def collectParams (id : String) : List (List Char) → Params → Except String Params
  | [], acc => .ok acc
  | p :: rest, acc =>
    -- a parameter given twice is rejected (finding F74, repaired: the later value replaced the earlier one unchecked)
    match splitOnChar ':' p with
    | [k] =>
      if (acc.get (String.ofList k)).isSome then .error s!"invalid format argument `{id},{String.ofList p}`"
      else collectParams id rest (acc.insert (String.ofList k) "")
    | [k, v] =>
      if (acc.get (String.ofList k)).isSome then .error s!"invalid format argument `{id},{String.ofList p}`"
      else collectParams id rest (acc.insert (String.ofList k) (String.ofList v))
    | _ => .error s!"invalid format argument `{id},{String.ofList p}`"

/-- the fields of one variant, in order (`get_arg_usize`) -/
def resolveFields (id : String) : List Gen.FieldSpec → Params → List (String × Nat) → Except String (List (String × Nat) × Params)
  | [], ps, acc => .ok (acc.reverse, ps)
  | f :: rest, ps, acc =>
    match f.param with
    | none => resolveFields id rest ps ((f.field, f.default) :: acc)
    | some pname =>
      match ps.get pname with
      | none => resolveFields id rest ps ((f.field, f.default) :: acc)
      | some value =>
        match parseUsize value.toList with
        | some v =>
          if f.validator.check v then resolveFields id rest (ps.remove pname) ((f.field, v) :: acc)
          else .error s!"invalid format argument `{id},{pname}:{value}`"
        | none => .error s!"invalid format argument `{id},{pname}:{value}`"

/-- `parse_output_format` -/
def parseOutputFormat (s : List Char) : Except String OutFmt :=
  match splitOnChar ',' s with
  | [] => .error "unreachable"
  | idc :: paramStrs =>
    let id := String.ofList idc
    match collectParams id paramStrs [] with
    | .error e => .error e
    | .ok params =>
      match Gen.formatTable.find? (·.1 == id) with
      | none => .error s!"unknown format `{id}`"
      | some (_, variant, fields) =>
        match resolveFields id fields params [] with
        | .error e => .error e
        | .ok (fs, left) =>
          -- left-over parameters, reported in argument order
          match paramStrs.find? (fun p => (left.get (String.ofList ((splitOnChar ':' p).headD []))).isSome) with
          | some p => .error s!"unknown format argument `{id},{String.ofList ((splitOnChar ':' p).headD [])}`"
          | none => .ok ⟨variant, fs⟩

def showOutFmt (f : OutFmt) : String :=
  f.variant ++ String.join (f.fields.map fun (k, v) => s!" {k}={v}")

def OutFmt.field (f : OutFmt) (k : String) : Nat := ((f.fields.find? (·.1 == k)).map (·.2)).getD 0

/-- `format_output` for the formats that depend on the bits (and block spans) only;
    `none` = listing / symbol formats, handled elsewhere. Binary output is bytes. -/
def formatOutputBytes (f : OutFmt) (bits : Bits) (spans : List Span) : Option (List Nat) :=
  let txt (cs : List Char) : Option (List Nat) := some (cs.flatMap utf8EncodeChar)
  match f.variant with
  | "Binary" => some (fmtBinary bits)
  | "BinStr" => txt (fmtStr 1 bits)
  | "HexStr" => txt (fmtStr 4 bits)
  | "BinDump" => txt (fmtDump 1 8 bits)
  | "HexDump" => txt (fmtDump 4 16 bits)
  | "Mif" => txt (fmtMif bits)
  | "IntelHex" => txt (fmtIntelHex (f.field "address_unit") bits spans)
  | "DecComma" => txt (fmtSeparator 10 ", ".toList bits)
  | "HexComma" => txt (fmtSeparator 16 ", ".toList bits)
  | "DecSpace" => txt (fmtSeparator 10 " ".toList bits)
  | "HexSpace" => txt (fmtSeparator 16 " ".toList bits)
  | "DecC" => txt (fmtCArray 10 bits)
  | "HexC" => txt (fmtCArray 16 bits)
  | "LogiSim8" => txt (fmtLogisim 8 bits)
  | "LogiSim16" => txt (fmtLogisim 16 bits)
  | _ => none

end Casm
