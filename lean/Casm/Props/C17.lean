import Casm.Proofs.ModeMono
import Casm.Proofs.Hygiene
import Casm.Model.Assemble
/-!
# C17 — asm blocks and user functions mean what their expansion means

About the resolver's evaluation environment `Casm.mkEnv` (model of `eval_fn`, `eval_asm`).

* `fn_call_is_body_with_bound_params` — a call of a user function is its body evaluated in a
  fresh context holding exactly the parameters bound to the argument values (no caller
  locals, no token substitutions), one level deeper; `fn_arity_checked`.
* `fn_depth_limit`, `asm_depth_limit` — beyond `EVAL_RECURSION_DEPTH_MAX` nested calls/blocks the
  result is the recursion error, never a value.
* `asm_label_is_address` — a label inside a block is bound to the address at its own position
  (start of the block plus the sizes of the instructions before it).
* `asm_instr_appends` — each inner instruction contributes its chosen encoding, appended to
  the bits so far, and advances the position by its size: the block is the concatenation of
  its instructions' encodings at consecutive addresses.

* `asm_loop_unfolds`, `asm_block_guesses_in_a_guessing_pass` — the passes of a block's own loop are
  strict only when the enclosing pass is the last one (finding F39, repaired);
  `asm_block_strict_result_is_the_guessing_result` — strictness only adds errors.

* `parameter_is_substituted_as_text`, `local_is_substituted_by_its_hygienic_name`,
  `by_value_local_reaches_the_block` — "arguments substituted textually or by value as written";
  `block_sees_only_its_own_productions_locals` — the locals visible inside a block are exactly the
  renamed locals of the production that contains it (the cause of finding F40, open).

The equality with the hand-inlined program is established by the search (implementation on
both programs) and the model correspondence.
-/
namespace Casm.C17

def bindParams (params : List String) (args : List Value) : ECtx → ECtx := fun ectx =>
  { locals := (params.zip args).foldl (fun l p => l.set p.1 p.2) [], substs := [], depth := ectx.depth + 1 }

/-- **a function call equals its body with the arguments bound to the parameters** -/
theorem fn_call_is_body_with_bound_params (st : Static) (defs : Defs) (fuel : Nat) (ctx : RCtx) (idx : Nat) (args : List Value) (ectx : ECtx)
    (hd : ectx.depth < Gen.EVAL_RECURSION_DEPTH_MAX)
    (ha : args.length = (defs.fns.getD idx default).params.length) :
    (mkEnv st defs (fuel + 1) ctx).fn (.fn idx) args ectx =
      (eval (mkEnv st defs fuel ctx) (bindParams (defs.fns.getD idx default).params args ectx) (defs.fns.getD idx default).body).map (·.1) := by
  have h1 : ¬ ectx.depth ≥ Gen.EVAL_RECURSION_DEPTH_MAX := by omega
  simp only [mkEnv, h1, if_false, ha, bne_self_eq_false, Bool.false_eq_true, bindParams]

theorem fn_arity_checked (st : Static) (defs : Defs) (fuel : Nat) (ctx : RCtx) (idx : Nat) (args : List Value) (ectx : ECtx)
    (hd : ectx.depth < Gen.EVAL_RECURSION_DEPTH_MAX)
    (ha : args.length ≠ (defs.fns.getD idx default).params.length) :
    (mkEnv st defs (fuel + 1) ctx).fn (.fn idx) args ectx = .error (argCountErr (defs.fns.getD idx default).params.length args.length) := by
  have h1 : ¬ ectx.depth ≥ Gen.EVAL_RECURSION_DEPTH_MAX := by omega
  have h2 : (args.length != (defs.fns.getD idx default).params.length) = true := by simpa using ha
  simp only [mkEnv, h1, if_false, h2, if_true]

/-- **recursion beyond the depth limit is an error** (functions) -/
theorem fn_depth_limit (st : Static) (defs : Defs) (fuel : Nat) (ctx : RCtx) (idx : Nat) (args : List Value) (ectx : ECtx)
    (hd : Gen.EVAL_RECURSION_DEPTH_MAX ≤ ectx.depth) :
    (mkEnv st defs (fuel + 1) ctx).fn (.fn idx) args ectx = .error recursionErr := by
  have h1 : ectx.depth ≥ Gen.EVAL_RECURSION_DEPTH_MAX := hd
  simp only [mkEnv, h1, if_true]

/-- **recursion beyond the depth limit is an error** (asm blocks) -/
theorem asm_depth_limit (st : Static) (defs : Defs) (fuel : Nat) (ctx : RCtx) (text : List Char) (ectx : ECtx)
    (hd : Gen.EVAL_RECURSION_DEPTH_MAX ≤ ectx.depth) :
    (mkEnv st defs (fuel + 2) ctx).asm text ectx = .error recursionErr := by
  have h1 : ectx.depth ≥ Gen.EVAL_RECURSION_DEPTH_MAX := hd
  simp only [mkEnv, evalAsm, h1, if_true]

/-- every nested block or call runs one level deeper -/
theorem hygienize_deepens (c : ECtx) : (hygienize c).depth = c.depth + 1 := rfl
theorem deepened_deepens (c : ECtx) : c.deepened.depth = c.depth + 1 := rfl

/-- **a block label is bound to the address at its own position** — and in the strict pass that position has to be a whole
    address, as for a label written in place (finding F52, repaired: the address was always asked for with guessing allowed) -/
theorem asm_label_is_address (st : Static) (defs : Defs) (fuel : Nat) (ctx : RCtx) (level : Nat) (name : String) (kind : SymKind)
    (ne : Bool) (ref : Option Nat) (rest : List AstNode) (ectx : ECtx) (labels : List (String × Value)) (cur : Nat) (result : BI)
    (unstable : Bool) (a : Int) (ha : evalAddress defs { ctx with cur := cur } ({ ctx with cur := cur } : RCtx).canGuess = .ok a) :
    ∃ u, asmOnce st defs (fuel + 1) ctx (.symbol level name kind ne ref :: rest) ectx labels cur result unstable =
      asmOnce st defs fuel ctx rest ectx ((name, .int ⟨a, none⟩) :: labels.filter (·.1 != name)) cur result u := by
  simp only [asmOnce, ha]
  exact ⟨_, rfl⟩

/-- **an inner instruction appends its encoding and advances the position by its size** -/
theorem asm_instr_appends (st : Static) (defs : Defs) (fuel : Nat) (ctx : RCtx) (src : List Char) (ref : Option Nat)
    (rest : List AstNode) (ectx : ECtx) (labels : List (String × Value)) (cur : Nat) (result : BI) (unstable : Bool)
    (substs : List (Nat × Nat × String)) (excerpt : List Char) (encs : List (Nat × BI)) (rep : List String)
    (hs : parseSubsts (src.length + 1) src 0 [] = .ok substs)
    (hp : performSubsts src substs ectx = .ok excerpt)
    (hm : (matchInstr st.opts.optMatcher defs.ruledefs excerpt).isEmpty = false)
    (he : resolveEncoding st defs fuel { ctx with cur := cur } (matchInstr st.opts.optMatcher defs.ruledefs excerpt)
            (labels.foldl (fun c p => c.setLocal p.1 p.2) (hygienize ectx)) = .ok (some encs, rep)) :
    asmOnce st defs (fuel + 1) ctx (.instr src ref :: rest) ectx labels cur result unstable =
      asmOnce st defs fuel ctx rest ectx labels (cur + ((encs.headD (0, default)).2.size.getD 0))
        (result.concat (result.size.getD 0) 0 (encs.headD (0, default)).2 ((encs.headD (0, default)).2.size.getD 0) 0) unstable := by
  simp only [asmOnce, hs, hp, hm, Bool.false_eq_true, if_false, he]

/-- the passes of a block's own loop, spelled out: pass `it` of `budget` runs in the context
    `{ first := it == 1, last := ctx.last && it == budget }`, the confirming pass in `{ first := false, last := ctx.last }` -/
theorem asm_loop_unfolds (st : Static) (defs : Defs) (fuel : Nat) (ctx : RCtx) (nodes : List AstNode) (ectx : ECtx)
    (labels : List (String × Value)) (budget it : Nat) :
    asmIterate st defs (fuel + 1) ctx nodes ectx labels budget it =
      (let finish := fun (labels : List (String × Value)) =>
        match asmOnce st defs fuel { ctx with first := false, last := ctx.last } nodes ectx labels ctx.cur (⟨0, some 0⟩) false with
        | .error e => (.error e : Except String Value)
        | .ok (v, unstable, _) =>
          if !unstable then .ok v
          else if ctx.canGuess then .ok .unknown
          else .error "`asm` block did not converge"
      if it > budget then finish labels
      else
        match asmOnce st defs fuel { ctx with first := it == 1, last := ctx.last && it == budget } nodes ectx labels ctx.cur (⟨0, some 0⟩) false with
        | .error e => .error e
        | .ok (_, unstable, labels) =>
          if !unstable then finish labels
          else asmIterate st defs fuel ctx nodes ectx labels budget (it + 1)) := by
  rw [asmIterate]
  rfl

/-- **in a guessing pass of the enclosing resolution every pass of a block guesses too** (finding F39:
    the code ran the last pass of the block's loop and the confirming pass strictly whatever the
    enclosing pass, so a block naming a label declared further down failed in the first outer pass) -/
theorem asm_block_guesses_in_a_guessing_pass (ctx : RCtx) (hl : ctx.last = false) (budget it : Nat) :
    ({ ctx with first := it == 1, last := ctx.last && it == budget } : RCtx).canGuess = true ∧
    ({ ctx with first := false, last := ctx.last } : RCtx).canGuess = true := by
  simp [RCtx.canGuess, hl]

/-- **what a block yields in the strict pass it yields in a guessing pass**: strictness only adds errors -/
theorem asm_block_strict_result_is_the_guessing_result (st : Static) (defs : Defs) (fuel : Nat) (ctx : RCtx) (text : List Char)
    (ectx : ECtx) (v : Value) (h : evalAsm st defs fuel ctx text ectx = .ok v) :
    evalAsm st defs fuel (guessOf ctx) text ectx = .ok v :=
  evalAsm_mono st defs fuel ctx text ectx v h

/-! ## substitution and hygiene -/

/-- **a parameter written `{p}` is replaced by the text of the argument** -/
theorem parameter_is_substituted_as_text (c : ECtx) (n : String) (p : String × List Char)
    (h : c.substs.find? (·.1 == n) = some p) : tokenSubst c n = some p.2 := by
  unfold tokenSubst; rw [h]

/-- **a local of the production written `{v}` is passed by value**: the text put in its place is its
    hygienic name `__v` … -/
theorem local_is_substituted_by_its_hygienic_name (c : ECtx) (n : String) (v : Value)
    (h1 : c.substs.find? (·.1 == n) = none) (h2 : c.locals.get n = some v) :
    tokenSubst c n = some (hygienizeName n).toList := by
  unfold tokenSubst; rw [h1]; simp [h2]

/-- … **and that name is bound, inside the block, to the local's value** -/
theorem by_value_local_reaches_the_block (c : ECtx) (m : String) (hm : m.startsWith "__" = false) :
    (hygienize c).locals.get (hygienizeName m) = c.locals.get m := by
  rw [hygienize_locals]; exact renLocals_get c.locals m hm

/-- **a block sees exactly the un-prefixed locals of its own production, renamed** — nothing else.  This is
    the cause of finding F40: a name that was hygienised one level up (`__y`, standing for a local of a
    *calling* block and passed on as the text of an argument) is, one level down, either unbound or —
    by `by_value_local_reaches_the_block` applied to the callee — bound to the callee's own `y`. -/
theorem block_sees_only_its_own_productions_locals (c : ECtx) (k : String) (v : Value)
    (h : (hygienize c).locals.get k = some v) :
    ∃ m, k = hygienizeName m ∧ m.startsWith "__" = false ∧ c.locals.get m = some v := by
  rw [hygienize_locals] at h; exact renLocals_get_some c.locals k v h

/-- the witness of F40 at the level of contexts: the callee `test2 {a}, {y}` called as `test2 {y}, 5` from a
    production whose `y` is 0x11 holds `a = 0x11` (text `__y`) and `y = 5`; inside its block `__y` is 5 -/
example : let callee : ECtx := (({} : ECtx).setLocal "a" (.int ⟨0x11, none⟩)).setLocal "y" (.int ⟨5, none⟩)
    (hygienize callee).locals.get (hygienizeName "y") = some (.int ⟨5, none⟩) := by
  intro callee
  rw [by_value_local_reaches_the_block callee "y" (by decide)]
  simp [callee, ECtx.setLocal, Locals.set, Locals.get]


/-! ### where a block ends (finding F64, repaired) -/

/-- **a comment or a string literal inside a block is stepped over as a whole**: a brace in it neither opens nor closes
    anything, and its text stays part of the block -/
theorem block_scan_skips_comments_and_strings (fuel : Nat) (c : Char) (cs : List Char) (nesting : Nat) (acc : List Char)
    (hc : c = ';' ∨ c = '"')
    (hk : (decideNextToken (c :: cs)).1 = .Comment ∨ (decideNextToken (c :: cs)).1 = .String) :
    untilClosingBraceAux (fuel + 1) (c :: cs) nesting acc =
      (let n := (decideNextToken (c :: cs)).2
       let n := if n == 0 then 1 else n
       untilClosingBraceAux fuel ((c :: cs).drop n) nesting (((c :: cs).take n).reverse ++ acc)) := by
  rw [untilClosingBraceAux]
  have h1 : (c == ';' || c == '"') = true := by rcases hc with rfl | rfl <;> decide
  have h2 : ((decideNextToken (c :: cs)).1 == .Comment || (decideNextToken (c :: cs)).1 == .String) = true := by
    rcases hk with h | h <;> simp [h]
  simp only [h1, h2, Bool.and_self, if_true]

/-- outside comments and strings, the block ends at the first closing brace at nesting depth 0 -/
theorem block_scan_ends_at_closing_brace (fuel : Nat) (cs : List Char) (acc : List Char) :
    untilClosingBraceAux (fuel + 1) ('}' :: cs) 0 acc = (acc.reverse, '}' :: cs) := by
  rw [untilClosingBraceAux]
  simp

end Casm.C17
