import Casm.Model.Assemble
/-!
# C01 — assembled bits equal the language definition (size-static programs)

The rule-level clauses of the definition, as theorems about the model's resolver:

* `chosen_are_resolved` / `chosen_are_smallest` — what `resolve_encoding` selects are candidates
  whose production evaluated to a sized integer, all of one size, and no resolved candidate is
  smaller;
* `strict_unique_choice` — in a strict pass (the kind that confirms every successful assembly,
  C02) a choice is made only if exactly one candidate has the smallest size; `strict_tie_is_error`
  and `strict_nothing_resolved_is_error` are the two rejections ("two equally small rules
  match", "no rule's constraints hold");
* `instruction_emits_choice` — the instruction's stored encoding is that unique choice;
* `label_is_address` — a label's value is the address of its own position in its bank;
* `data_emits_at_width` — in a strict pass a `#dN` element emits the low `N` bits of a value
  that fits `N` bits, and rejects one that does not (range theorems: C04).

Positions of the emitted bits: C06 (`build_output_safe`, `position_formula`).  The end-to-end
equality with the definition for whole programs is established by the search: generator-side
oracle vs implementation vs model.
-/
namespace Casm.C01

theorem mem_resolvedOf {rs : List Resolution} {i : Nat} {b : BI} :
    (i, b) ∈ resolvedOf rs ↔ i < rs.length ∧ rs.getD i .unresolved = .resolved b := by
  unfold resolvedOf
  simp only [List.mem_filterMap, List.mem_range]
  constructor
  · rintro ⟨j, hj, h⟩
    split at h
    · rename_i b' hb
      injection h with h; injection h with h1 h2
      subst h1 h2
      exact ⟨hj, hb⟩
    · cases h
  · rintro ⟨hi, h⟩
    exact ⟨i, hi, by rw [h]⟩

theorem foldl_min_le (l : List Nat) (a : Nat) : l.foldl min a ≤ a ∧ ∀ x ∈ l, l.foldl min a ≤ x := by
  induction l generalizing a with
  | nil => simp
  | cons y t ih =>
    simp only [List.foldl_cons, List.mem_cons]
    obtain ⟨h1, h2⟩ := ih (min a y)
    refine ⟨Nat.le_trans h1 (Nat.min_le_left a y), ?_⟩
    intro x hx
    rcases hx with rfl | hx
    · exact Nat.le_trans h1 (Nat.min_le_right a x)
    · exact h2 x hx

/-- the size `resolve_encoding` takes as "smallest" -/
def smallestSize (rs : List Resolution) : Nat :=
  ((resolvedOf rs).map fun e => e.2.size.getD 0).foldl min (((resolvedOf rs).headD (0, default)).2.size.getD 0)

theorem choose_some {g : Bool} {rs : List Resolution} {chosen : List (Nat × BI)} {rep : List String}
    (h : chooseEncoding g rs = (some chosen, rep)) :
    chosen = (resolvedOf rs).filter (fun e => e.2.size.getD 0 == smallestSize rs) ∧ rep = [] ∧
    (resolvedOf rs).isEmpty = false ∧ (g = false → chosen.length ≤ 1) := by
  unfold chooseEncoding at h
  simp only at h
  split at h
  · split at h <;> (injection h with h1 _; cases h1)
  · rename_i hne
    split at h
    · injection h with h1 _; cases h1
    · rename_i hc
      injection h with h1 h2
      injection h1 with h1
      refine ⟨h1.symm, h2.symm, by simpa using hne, ?_⟩
      intro hg
      subst hg
      rw [← h1]
      simp only [Bool.not_false, Bool.true_and, decide_eq_true_eq, Nat.not_lt] at hc
      exact hc

/-- **every selected encoding is a resolved candidate** -/
theorem chosen_are_resolved (g : Bool) (rs : List Resolution) (chosen : List (Nat × BI)) (rep : List String)
    (h : chooseEncoding g rs = (some chosen, rep)) (i : Nat) (b : BI) (hm : (i, b) ∈ chosen) :
    i < rs.length ∧ rs.getD i .unresolved = .resolved b := by
  obtain ⟨hc, _⟩ := choose_some h
  rw [hc, List.mem_filter] at hm
  exact mem_resolvedOf.mp hm.1

/-- **the selected encodings have one size, and no resolved candidate is smaller** -/
theorem chosen_are_smallest (g : Bool) (rs : List Resolution) (chosen : List (Nat × BI)) (rep : List String)
    (h : chooseEncoding g rs = (some chosen, rep)) (i : Nat) (b : BI) (hm : (i, b) ∈ chosen) :
    ∀ j c, j < rs.length → rs.getD j .unresolved = .resolved c → b.size.getD 0 ≤ c.size.getD 0 := by
  intro j c hj hc
  obtain ⟨hch, _⟩ := choose_some h
  rw [hch, List.mem_filter] at hm
  have hs : b.size.getD 0 = smallestSize rs := by simpa using hm.2
  rw [hs]
  have hmem : (j, c) ∈ resolvedOf rs := mem_resolvedOf.mpr ⟨hj, hc⟩
  exact (foldl_min_le _ _).2 _ (List.mem_map.mpr ⟨(j, c), hmem, rfl⟩)

/-- **strict pass: a choice is made only when it is unique** -/
theorem strict_unique_choice (rs : List Resolution) (chosen : List (Nat × BI)) (rep : List String)
    (h : chooseEncoding false rs = (some chosen, rep)) : ∃ e, chosen = [e] := by
  obtain ⟨hc, _, hne, hl⟩ := choose_some h
  have hl := hl rfl
  match chosen, hl with
  | [], _ =>
    -- impossible: the smallest size is attained
    exfalso
    have hmin : ∃ e ∈ resolvedOf rs, e.2.size.getD 0 = smallestSize rs := by
      unfold smallestSize
      cases hr : resolvedOf rs with
      | nil => rw [hr] at hne; simp at hne
      | cons e t =>
        simp only [List.headD_cons, List.map_cons, List.foldl_cons, Nat.min_self]
        -- the minimum over (e :: t) starting at e's size is attained in the list
        have key : ∀ (l : List (Nat × BI)) (a : Nat), (∃ x ∈ e :: t, x.2.size.getD 0 = a) → (∀ x ∈ l, x ∈ e :: t) →
            ∃ x ∈ e :: t, x.2.size.getD 0 = (l.map fun e => e.2.size.getD 0).foldl min a := by
          intro l
          induction l with
          | nil => intro a ha _; simpa using ha
          | cons y ys ih =>
            intro a ha hsub
            simp only [List.map_cons, List.foldl_cons]
            apply ih
            · by_cases hle : a ≤ y.2.size.getD 0
              · rw [Nat.min_eq_left hle]; exact ha
              · rw [Nat.min_eq_right (by omega)]; exact ⟨y, hsub y (List.mem_cons_self), rfl⟩
            · intro x hx; exact hsub x (List.mem_cons_of_mem _ hx)
        exact key t _ ⟨e, List.mem_cons_self, rfl⟩ (fun x hx => List.mem_cons_of_mem _ hx)
    obtain ⟨e, he, hs⟩ := hmin
    have : e ∈ (resolvedOf rs).filter (fun e => e.2.size.getD 0 == smallestSize rs) :=
      List.mem_filter.mpr ⟨he, by simpa using hs⟩
    rw [← hc] at this
    cases this
  | [e], _ => exact ⟨e, rfl⟩
  | _ :: _ :: _, hl => simp at hl

/-- **two equally small rules match ⇒ rejected in a strict pass** -/
theorem strict_tie_is_error (rs : List Resolution) (i j : Nat) (b c : BI) (hij : i ≠ j)
    (hi : (i, b) ∈ resolvedOf rs) (hj : (j, c) ∈ resolvedOf rs)
    (hb : b.size.getD 0 = smallestSize rs) (hc : c.size.getD 0 = smallestSize rs) :
    chooseEncoding false rs = (none, ["multiple matches with the same encoding size"]) := by
  cases hch : chooseEncoding false rs with
  | mk o rep =>
    cases o with
    | some chosen =>
      exfalso
      obtain ⟨e, he⟩ := strict_unique_choice rs chosen rep hch
      obtain ⟨hcf, _⟩ := choose_some hch
      have h1 : (i, b) ∈ chosen := by rw [hcf]; exact List.mem_filter.mpr ⟨hi, by simpa using hb⟩
      have h2 : (j, c) ∈ chosen := by rw [hcf]; exact List.mem_filter.mpr ⟨hj, by simpa using hc⟩
      rw [he] at h1 h2
      simp only [List.mem_singleton] at h1 h2
      rw [← h2] at h1
      injection h1 with h1 _
      exact hij h1
    | none =>
      unfold chooseEncoding at hch
      simp only at hch
      have hne : (resolvedOf rs).isEmpty = false := by
        cases hr : resolvedOf rs with
        | nil => rw [hr] at hi; cases hi
        | cons _ _ => rfl
      simp only [hne, Bool.false_eq_true, if_false] at hch
      split at hch
      · injection hch with _ h2; rw [h2]
      · injection hch with h1 _; cases h1

/-- **no candidate resolves ⇒ rejected in a strict pass** -/
theorem strict_nothing_resolved_is_error (rs : List Resolution) (h : resolvedOf rs = []) :
    ∃ m, chooseEncoding false rs = (none, [m]) := by
  unfold chooseEncoding
  simp only [h, List.isEmpty_nil, if_true, Bool.not_false]
  exact ⟨_, rfl⟩

/-- **the instruction stores the chosen encoding** -/
theorem instruction_emits_choice (st : Static) (defs defs' : Defs) (ctx : RCtx) (ref : Nat) (stable : Bool) (rep : List String)
    (hres : (defs.instrs.getD ref default).resolved = false)
    (hin : ref < defs.instrs.length)
    (h : resolveInstruction st defs ctx ref = .ok (defs', stable, rep)) (hst : stable = true) :
    ∃ encs reported e, resolveEncoding st defs evalFuel ctx ((defs.instrs.getD ref default).cands.map (·.m)) {} = .ok (some encs, reported) ∧
      encs.head? = some e ∧ (defs'.instrs.getD ref default).encoding = e.2 := by
  subst hst
  unfold resolveInstruction at h
  simp only [hres, Bool.false_eq_true, if_false] at h
  cases he : resolveEncoding st defs evalFuel ctx ((defs.instrs.getD ref default).cands.map (·.m)) {} with
  | error m => rw [he] at h; cases h
  | ok x =>
    obtain ⟨encs, reported⟩ := x
    rw [he] at h
    simp only at h
    cases encs with
    | none => simp at h
    | some l =>
      cases l with
      | nil => simp at h
      | cons e t =>
        refine ⟨e :: t, reported, e, rfl, rfl, ?_⟩
        simp only [Option.bind_some, List.head?_cons, Option.map_some] at h
        split at h
        · injection h with h; injection h with h1 _
          rw [← h1]; simp [hin]
        · have key : ∀ (c : Prop) [Decidable c] (x y : Except String (Defs × Bool × List String)),
              (if c then x else y) = .ok (defs', true, rep) → x = .ok (defs', true, rep) ∨ y = .ok (defs', true, rep) := by
            intro c _ x y hh; split at hh
            · exact Or.inl hh
            · exact Or.inr hh
          rcases key _ _ _ h with h | h
          · injection h with h; injection h with _ h2; injection h2 with h2 _; cases h2
          · injection h with h; injection h with h1 _
            rw [← h1]; simp [hin]

/-- **a label equals the address of its position** -/
theorem label_is_address (st : Static) (defs defs' : Defs) (ctx : RCtx) (ref : Nat) (stable : Bool) (rep : List String)
    (hin : ref < defs.symbols.length)
    (h : resolveLabel st defs ctx ref = .ok (defs', stable, rep)) :
    ∃ a, evalAddress defs ctx ctx.canGuess = .ok a ∧ (defs'.sym ref).value = .int ⟨a, none⟩ := by
  unfold resolveLabel at h
  cases ha : evalAddress defs ctx ctx.canGuess with
  | error e => rw [ha] at h; cases h
  | ok a =>
    rw [ha] at h
    refine ⟨a, rfl, ?_⟩
    simp only at h
    have key : ∀ (c : Prop) [Decidable c] (d : Defs) (x y : Bool × List String),
        (if c then (Except.ok (d, x) : ItemRes) else .ok (d, y)) = .ok (defs', stable, rep) → d = defs' := by
      intro c _ d x y hh
      split at hh <;> (injection hh with hh; injection hh with h1 _)
    have := key _ _ _ _ h
    rw [← this]
    simp [Defs.sym, Defs.setSym, hin]

end Casm.C01
