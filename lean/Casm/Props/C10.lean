import Casm.Model.HashOrder
import Casm.Gen.HashSites
/-!
# C10 — assembly is a deterministic function of its inputs

The model is a function of its inputs: it has no clock, no environment, no global state.
Non-determinism could only enter where the Rust code iterates a hash container, whose
order depends on the per-process random seed.  The translator lists every such site
(`Gen.hashIterationSites`) and every piece of global state (`Gen.globalState`); the
theorems below show that each listed site computes the same result for every iteration
order, and that the list is exactly the modelled one — a new iteration site or a new
global is an undischarged obligation.
-/
namespace Casm.C10

/-- the iteration sites are exactly the four modelled ones -/
theorem hash_sites_are_the_modelled_ones : Gen.hashIterationSites =
    [ ("src/asm/resolver/eval_asm.rs", "labels", "iter"),
      ("src/expr/eval.rs", "locals", "for"),
      ("src/expr/eval.rs", "token_substs", "for"),
      ("src/util/symbol_format.rs", "children", "iter") ] := by decide

/-- no mutable statics, thread-locals, clocks, environment reads or randomness in `src/` -/
theorem no_global_state : Gen.globalState = [] := by decide

/-! ## symbol listing: sorted by the unique declaration index -/

theorem insertByIndex_perm {α} (x : α × Nat) (l : List (α × Nat)) : (insertByIndex x l).Perm (x :: l) := by
  induction l with
  | nil => exact List.Perm.refl _
  | cons y ys ih =>
    simp only [insertByIndex]
    split
    · exact List.Perm.refl _
    · exact ((List.Perm.cons y ih).trans (List.Perm.swap x y ys))

theorem sortByIndex_perm {α} (l : List (α × Nat)) : (sortByIndex l).Perm l := by
  induction l with
  | nil => exact List.Perm.refl _
  | cons x xs ih => exact (insertByIndex_perm x _).trans (List.Perm.cons x ih)

theorem insertByIndex_sorted {α} (x : α × Nat) (l : List (α × Nat))
    (h : l.Pairwise (fun a b => a.2 ≤ b.2)) : (insertByIndex x l).Pairwise (fun a b => a.2 ≤ b.2) := by
  induction l with
  | nil => simp [insertByIndex]
  | cons y ys ih =>
    simp only [insertByIndex]
    rw [List.pairwise_cons] at h
    split
    · rename_i hxy
      refine List.Pairwise.cons ?_ (List.Pairwise.cons h.1 h.2)
      intro b hb
      rcases List.mem_cons.1 hb with rfl | hb
      · exact hxy
      · exact Nat.le_trans hxy (h.1 b hb)
    · rename_i hxy
      refine List.Pairwise.cons ?_ (ih h.2)
      intro b hb
      have := (insertByIndex_perm x ys).subset hb
      rcases List.mem_cons.1 this with rfl | hb'
      · omega
      · exact h.1 b hb'

theorem sortByIndex_sorted {α} (l : List (α × Nat)) : (sortByIndex l).Pairwise (fun a b => a.2 ≤ b.2) := by
  induction l with
  | nil => exact List.Pairwise.nil
  | cons x xs ih => exact insertByIndex_sorted x _ ih

/-- **The symbol listing does not depend on the hash order**: two enumerations of the same
    children (permutations of each other) whose declaration indices are pairwise distinct
    sort to the same list. -/
theorem symbols_order_free {α} (l₁ l₂ : List (α × Nat)) (hp : l₁.Perm l₂)
    (hd : (l₁.map (·.2)).Nodup) : sortByIndex l₁ = sortByIndex l₂ := by
  have hperm : (sortByIndex l₁).Perm (sortByIndex l₂) :=
    (sortByIndex_perm l₁).trans (hp.trans (sortByIndex_perm l₂).symm)
  have strict : ∀ l : List (α × Nat), (l.map (·.2)).Nodup →
      (sortByIndex l).Pairwise (fun a b => a.2 < b.2) := by
    intro l hl
    have hk : ((sortByIndex l).map (·.2)).Nodup := ((sortByIndex_perm l).map _).nodup_iff.2 hl
    have hne := List.pairwise_map.1 hk
    exact ((sortByIndex_sorted l).and hne).imp (fun h => Nat.lt_of_le_of_ne h.1 h.2)
  have hd2 : (l₂.map (·.2)).Nodup := (hp.map _).nodup_iff.1 hd
  exact List.Perm.eq_of_pairwise (le := fun a b => a.2 < b.2)
    (fun a b _ _ h1 h2 => absurd h1 (Nat.lt_asymm h2)) (strict l₁ hd) (strict l₂ hd2) hperm

/-! ## map-to-map copies -/

theorem lookup_insert {κ υ} [DecidableEq κ] (m : AMap κ υ) (k k' : κ) (v : υ) :
    (m.insert k v).lookup k' = if k = k' then some v else m.lookup k' := by
  unfold AMap.insert AMap.lookup
  by_cases h : k = k'
  · subst h; simp
  · have hb : (k == k') = false := by simpa using h
    simp only [List.find?_cons, hb, h, if_false]
    congr 1
    rw [List.find?_filter]
    congr 1
    funext e
    by_cases he : e.1 = k'
    · subst he
      have : (e.1 != k) = true := by simp; exact fun hc => h hc.symm
      simp [this]
    · simp [he]

theorem nodup_map_inj {κ υ} (l : List (κ × υ)) (hl : (l.map (·.1)).Nodup) :
    ∀ a ∈ l, ∀ b ∈ l, a.1 = b.1 → a = b := by
  induction l with
  | nil => intro a ha; cases ha
  | cons x xs ih =>
    simp only [List.map_cons, List.nodup_cons] at hl
    intro a ha b hb hk
    rcases List.mem_cons.1 ha with hax | hax
    · rcases List.mem_cons.1 hb with hbx | hbx
      · rw [hax, hbx]
      · have hm : x.1 ∈ xs.map (·.1) := List.mem_map.2 ⟨b, hbx, by rw [← hk, hax]⟩
        exact absurd hm hl.1
    · rcases List.mem_cons.1 hb with hbx | hbx
      · have hm : x.1 ∈ xs.map (·.1) := List.mem_map.2 ⟨a, hax, by rw [hk, hbx]⟩
        exact absurd hm hl.1
      · exact ih hl.2 a hax b hbx hk

/-- what a copy computes: the last visited kept entry whose renamed key is `k'`, else the old value -/
theorem lookup_copyInto {κ υ} [DecidableEq κ] (f : κ → κ) (keep : κ → Bool) (hf : Function.Injective f)
    (entries : List (κ × υ)) (hd : (entries.map (·.1)).Nodup) (dst : AMap κ υ) (k' : κ) :
    (copyInto f keep entries dst).lookup k' =
      match entries.find? (fun e => keep e.1 && f e.1 == k') with
      | some e => some e.2
      | none => dst.lookup k' := by
  unfold copyInto
  induction entries generalizing dst with
  | nil => simp
  | cons e es ih =>
    simp only [List.map_cons, List.nodup_cons] at hd
    simp only [List.foldl_cons]
    rw [ih hd.2]
    by_cases hk : keep e.1 = true
    · simp only [hk, if_true, List.find?_cons, Bool.true_and]
      by_cases he : f e.1 = k'
      · have hb : (f e.1 == k') = true := by simpa using he
        simp only [hb]
        -- no later entry has the same renamed key (keys distinct, f injective)
        have hnone : es.find? (fun e' => keep e'.1 && f e'.1 == k') = none := by
          rw [List.find?_eq_none]
          intro e' he' hc
          simp only [Bool.and_eq_true, beq_iff_eq] at hc
          have : e'.1 = e.1 := hf (hc.2.trans he.symm)
          exact hd.1 (List.mem_map.2 ⟨e', he', this⟩)
        rw [hnone]
        simp [lookup_insert, he]
      · have hb : (f e.1 == k') = false := by simpa using he
        simp only [hb]
        cases hfind : es.find? (fun e' => keep e'.1 && f e'.1 == k') with
        | some x => rfl
        | none => simp [lookup_insert, he]
    · have hk' : keep e.1 = false := by simpa using hk
      simp only [hk', Bool.false_eq_true, if_false, List.find?_cons, Bool.false_and]

/-- **Map copies do not depend on the hash order**: visiting the same entries (distinct
    keys) in any two orders yields maps that agree on every key.  Covers
    `hygienize_locals_for_asm_subst` (renaming with the injective `__` prefix, skipping
    already-prefixed names) and the label binding of asm blocks. -/
theorem copy_order_free {κ υ} [DecidableEq κ] (f : κ → κ) (keep : κ → Bool) (hf : Function.Injective f)
    (e₁ e₂ : List (κ × υ)) (hp : e₁.Perm e₂) (hd : (e₁.map (·.1)).Nodup) (dst : AMap κ υ) (k' : κ) :
    (copyInto f keep e₁ dst).lookup k' = (copyInto f keep e₂ dst).lookup k' := by
  have hd2 : (e₂.map (·.1)).Nodup := (hp.map _).nodup_iff.1 hd
  rw [lookup_copyInto f keep hf e₁ hd, lookup_copyInto f keep hf e₂ hd2]
  -- at most one entry satisfies the predicate, so `find?` agrees on permutations
  have huniq : ∀ (l : List (κ × υ)), (l.map (·.1)).Nodup → ∀ a ∈ l, ∀ b ∈ l,
      (keep a.1 && f a.1 == k') = true → (keep b.1 && f b.1 == k') = true → a = b := by
    intro l hl a ha b hb h1 h2
    simp only [Bool.and_eq_true, beq_iff_eq] at h1 h2
    have hk : a.1 = b.1 := hf (h1.2.trans h2.2.symm)
    exact nodup_map_inj l hl a ha b hb hk
  have key : e₁.find? (fun e => keep e.1 && f e.1 == k') = e₂.find? (fun e => keep e.1 && f e.1 == k') := by
    cases h1 : e₁.find? (fun e => keep e.1 && f e.1 == k') with
    | none =>
      rw [List.find?_eq_none] at h1
      symm; rw [List.find?_eq_none]
      intro x hx; exact h1 x (hp.symm.subset hx)
    | some a =>
      have ha := List.find?_some h1
      have ham := List.mem_of_find?_eq_some h1
      cases h2 : e₂.find? (fun e => keep e.1 && f e.1 == k') with
      | none =>
        rw [List.find?_eq_none] at h2
        exact absurd ha (h2 a (hp.subset ham))
      | some b =>
        have hb := List.find?_some h2
        have hbm := List.mem_of_find?_eq_some h2
        rw [huniq e₁ hd a ham b (hp.symm.subset hbm) ha hb]
  rw [key]

/-- the renaming used by `hygienize_name_for_asm_subst` is injective -/
theorem prefix_injective (p : List Char) : Function.Injective (fun s : List Char => p ++ s) :=
  fun _ _ h => List.append_cancel_left h

example : sortByIndex [("c", 7), ("a", 2), ("b", 5)] = sortByIndex [("b", 5), ("c", 7), ("a", 2)] := by decide

end Casm.C10
