import Casm.Model.CharCounter
/-!
# C13 — diagnostics point at the fault (location arithmetic)

`lineColAtIndex` / `indexRangeOfLine` (the byte-index → line/column conversions behind
every printed `--> file:line:col`) against their specification, for every text —
multi-byte characters included — and every position on a character boundary.
-/
namespace Casm.C13

theorem utf8LenChar_pos (c : Char) : 0 < utf8LenChar c := by
  unfold utf8LenChar
  split
  · decide
  · split
    · decide
    · split <;> decide

theorem utf8Len_foldl (cs : List Char) (a : Nat) :
    cs.foldl (fun a c => a + utf8LenChar c) a = a + utf8Len cs := by
  unfold utf8Len
  induction cs generalizing a with
  | nil => simp
  | cons c cs ih => simp only [List.foldl_cons]; rw [ih, ih (0 + _)]; omega

theorem utf8Len_cons (c : Char) (cs : List Char) : utf8Len (c :: cs) = utf8LenChar c + utf8Len cs := by
  simp only [utf8Len, List.foldl_cons]; rw [utf8Len_foldl]; simp [utf8Len]

theorem utf8Len_append (a b : List Char) : utf8Len (a ++ b) = utf8Len a + utf8Len b := by
  induction a with
  | nil => simp [utf8Len]
  | cons c cs ih => simp only [List.cons_append, utf8Len_cons, ih]; omega

theorem utf8Len_nil : utf8Len [] = 0 := rfl

/-- number of line breaks -/
def newlines (p : List Char) : Nat := (p.filter (· == '\n')).length

/-- column after reading `p` starting at column `col` -/
def colAfter (p : List Char) (col : Nat) : Nat := p.foldl (fun k c => if c == '\n' then 0 else k + 1) col

/-- the loop consumes a whole prefix that ends at or before `index` -/
theorem lineColLoop_prefix (index : Nat) (p rest : List Char) (b0 line col : Nat)
    (h : b0 + utf8Len p ≤ index) :
    lineColLoop index (p ++ rest) b0 line col =
      lineColLoop index rest (b0 + utf8Len p) (line + newlines p) (colAfter p col) := by
  induction p generalizing b0 line col with
  | nil => simp [utf8Len_nil, newlines, colAfter]
  | cons c cs ih =>
    rw [utf8Len_cons] at h
    have hc := utf8LenChar_pos c
    simp only [List.cons_append, lineColLoop]
    rw [if_neg (by omega)]
    by_cases hn : c = '\n'
    · subst hn
      simp only [beq_self_eq_true, if_true]
      rw [ih _ _ _ (by omega)]
      simp [utf8Len_cons, newlines, colAfter]; congr 1 <;> omega
    · have hb : (c == '\n') = false := by simpa using hn
      simp only [hb, Bool.false_eq_true, if_false]
      rw [ih _ _ _ (by omega)]
      simp [utf8Len_cons, newlines, colAfter, hb, hn]; congr 1; omega

theorem lineColLoop_stop (index : Nat) (rest : List Char) (b line col : Nat) (h : index ≤ b) :
    lineColLoop index rest b line col = (line, col) := by
  cases rest with
  | nil => rfl
  | cons c cs => simp only [lineColLoop]; rw [if_pos h]

theorem colAfter_no_newline (b : List Char) (col : Nat) (hb : ∀ c ∈ b, c ≠ '\n') :
    colAfter b col = col + b.length := by
  induction b generalizing col with
  | nil => simp [colAfter]
  | cons c cs ih =>
    have hc : (c == '\n') = false := by simpa using hb c (List.mem_cons_self)
    simp only [colAfter, List.foldl_cons, hc, Bool.false_eq_true, if_false, List.length_cons]
    have := ih (col + 1) (fun d hd => hb d (List.mem_cons_of_mem _ hd))
    simp only [colAfter] at this
    rw [this]; omega

theorem colAfter_ends_newline (a : List Char) (col : Nat) : colAfter (a ++ ['\n']) col = 0 := by
  simp [colAfter, List.foldl_append]

theorem newlines_append (a b : List Char) : newlines (a ++ b) = newlines a + newlines b := by
  simp [newlines, List.filter_append]

theorem newlines_none (b : List Char) (hb : ∀ c ∈ b, c ≠ '\n') : newlines b = 0 := by
  unfold newlines
  rw [List.length_eq_zero_iff, List.filter_eq_nil_iff]
  intro c hc; simpa using hb c hc

/-- **Line and column are right for every text.**  If the text before the position
    consists of complete lines `a` (empty or ending in a line break) followed by `b`
    without line breaks, the reported (0-based) line is the number of line breaks before
    the position and the column is the number of *characters* of `b` — whatever
    multi-byte characters occur anywhere in the file. -/
theorem linecol_correct (a b post : List Char)
    (ha : a = [] ∨ ∃ a', a = a' ++ ['\n']) (hb : ∀ c ∈ b, c ≠ '\n') :
    lineColAtIndex (a ++ b ++ post) (utf8Len (a ++ b)) = (newlines a, b.length) := by
  unfold lineColAtIndex
  rw [lineColLoop_prefix _ (a ++ b) post 0 0 0 (by omega)]
  rw [lineColLoop_stop _ _ _ _ _ (by omega)]
  rw [newlines_append, newlines_none b hb]
  congr 1
  · omega
  · simp only [colAfter, List.foldl_append]
    have h1 : List.foldl (fun k c => if (c == '\n') = true then 0 else k + 1) 0 a = 0 := by
      rcases ha with rfl | ⟨a', rfl⟩
      · rfl
      · exact colAfter_ends_newline a' 0
    rw [h1]
    have := colAfter_no_newline b 0 hb
    simpa [colAfter] using this

/-- a position past the end of the text reports the end of the text -/
theorem linecol_past_end (s : List Char) (index : Nat) (h : utf8Len s ≤ index) :
    lineColAtIndex s index = (newlines s, colAfter s 0) := by
  unfold lineColAtIndex
  have := lineColLoop_prefix index s [] 0 0 0 (by omega)
  simp only [List.append_nil] at this
  rw [this]; simp [lineColLoop]

/-! ### line ranges -/

theorem lineRangeLoop_skip (line total : Nat) (b rest : List Char) (bi lc lb : Nat)
    (hb : ∀ c ∈ b, c ≠ '\n') :
    lineRangeLoop line total (b ++ rest) bi lc lb = lineRangeLoop line total rest (bi + utf8Len b) lc lb := by
  induction b generalizing bi with
  | nil => simp [utf8Len_nil]
  | cons c cs ih =>
    have hc : (c != '\n') = true := by simpa using hb c (List.mem_cons_self)
    simp only [List.cons_append, lineRangeLoop, hc, if_true]
    rw [ih _ (fun d hd => hb d (List.mem_cons_of_mem _ hd)), utf8Len_cons]
    congr 1; omega

/-- skipping `k` complete lines -/
theorem lineRangeLoop_lines (line total : Nat) (ls : List (List Char)) (rest : List Char) (bi lc lb : Nat)
    (hls : ∀ l ∈ ls, ∀ c ∈ l, c ≠ '\n') (hk : lc + ls.length ≤ line) :
    lineRangeLoop line total ((ls.flatMap fun l => l ++ ['\n']) ++ rest) bi lc lb =
      lineRangeLoop line total rest (bi + utf8Len (ls.flatMap fun l => l ++ ['\n'])) (lc + ls.length)
        (if ls = [] then lb else bi + utf8Len (ls.flatMap fun l => l ++ ['\n'])) := by
  induction ls generalizing bi lc lb with
  | nil => simp [utf8Len_nil]
  | cons l ls ih =>
    simp only [List.flatMap_cons, List.append_assoc, List.length_cons] at hk ⊢
    rw [lineRangeLoop_skip _ _ l _ _ _ _ (hls l (List.mem_cons_self))]
    simp only [List.cons_append, List.nil_append, lineRangeLoop]
    have : ('\n' != '\n') = false := by decide
    simp only [this, Bool.false_eq_true, if_false]
    rw [if_pos (by omega)]
    rw [ih _ _ _ (fun m hm => hls m (List.mem_cons_of_mem _ hm)) (by omega)]
    have e1 : utf8LenChar '\n' = 1 := by decide
    simp only [utf8Len_append, utf8Len_cons, utf8Len_nil, e1, List.cons_ne_nil, if_false]
    by_cases hn : ls = []
    · subst hn; simp [utf8Len_nil]; congr 1 <;> omega
    · simp only [hn, if_false]; congr 1 <;> omega

/-- **The byte range of line `k`** (0-based) of a text made of `ls.length` complete lines
    followed by a last line without line break: it starts right after the `k`-th line break
    and ends right after the next one (or at the end of the text). -/
theorem line_range_correct (ls : List (List Char)) (last : List Char) (k : Nat)
    (hls : ∀ l ∈ ls, ∀ c ∈ l, c ≠ '\n') (hlast : ∀ c ∈ last, c ≠ '\n') (hk : k < ls.length) :
    indexRangeOfLine ((ls.flatMap fun l => l ++ ['\n']) ++ last) k =
      (utf8Len ((ls.take k).flatMap fun l => l ++ ['\n']),
       utf8Len ((ls.take (k + 1)).flatMap fun l => l ++ ['\n'])) := by
  unfold indexRangeOfLine
  have hsplit : ls = ls.take k ++ ls.drop k := (List.take_append_drop k ls).symm
  obtain ⟨l, tl, hd⟩ : ∃ l tl, ls.drop k = l :: tl := by
    cases h : ls.drop k with
    | nil => simp [List.drop_eq_nil_iff] at h; omega
    | cons l tl => exact ⟨l, tl, rfl⟩
  have htk : (ls.take k).length = k := by simp; omega
  have e : (ls.flatMap fun l => l ++ ['\n']) ++ last =
      ((ls.take k).flatMap fun l => l ++ ['\n']) ++ (l ++ ('\n' :: ((tl.flatMap fun l => l ++ ['\n']) ++ last))) := by
    conv => lhs; rw [hsplit, hd]
    simp [List.flatMap_append]
  rw [e]
  generalize utf8Len (((ls.take k).flatMap fun l => l ++ ['\n']) ++ (l ++ ('\n' :: ((tl.flatMap fun l => l ++ ['\n']) ++ last)))) = total
  rw [lineRangeLoop_lines k total (ls.take k) _ 0 0 0
      (fun m hm => hls m (List.mem_of_mem_take hm)) (by omega)]
  have hl : ∀ c ∈ l, c ≠ '\n' := hls l (by rw [hsplit, hd]; simp)
  rw [lineRangeLoop_skip _ _ l _ _ _ _ hl]
  simp only [lineRangeLoop]
  have : ('\n' != '\n') = false := by decide
  simp only [this, Bool.false_eq_true, if_false]
  rw [if_neg (by omega)]
  have htake : ls.take (k + 1) = ls.take k ++ [l] := by
    rw [List.take_succ_eq_append_getElem hk]
    congr 1
    have h1 := List.getElem_cons_drop_succ_eq_drop (as := ls) hk
    rw [hd] at h1
    rw [(List.cons.inj h1).1]
  rw [htake, List.flatMap_append]
  simp only [List.flatMap_cons, List.flatMap_nil, List.append_nil, utf8Len_append, utf8Len_cons, utf8Len_nil]
  have e1 : utf8LenChar '\n' = 1 := by decide
  rw [e1]
  by_cases hk0 : ls.take k = []
  · simp [hk0, utf8Len_nil]
  · simp only [hk0, if_false]; congr 1 <;> omega

/-- joining two spans gives their hull -/
theorem join_hull (a0 a1 b0 b1 : Nat) :
    spanJoin (some (a0, a1)) (some (b0, b1)) = some (min a0 b0, max a1 b1) := rfl

theorem join_dummy (a : Option (Nat × Nat)) : spanJoin a none = a ∧ spanJoin none a = a := by
  cases a <;> simp [spanJoin]

/-- the fallback `Error` token spans one whole character (extracted from token.rs) -/
theorem error_token_is_one_character : Gen.errorTokenLen = none := rfl

example : lineColAtIndex "é\nxé y".toList 6 = (1, 2) := by decide
example : indexRangeOfLine "é\nxé y\nz".toList 1 = (3, 9) := by decide

/-! ## tokens partition the text -/

theorem tokenizeAux_partition : ∀ (fuel : Nat) (s : List Char) (acc : List Tok), s.length ≤ fuel →
    (tokenizeAux fuel s acc).flatMap (·.text) = (acc.reverse).flatMap (·.text) ++ s := by
  intro fuel
  induction fuel with
  | zero =>
    intro s acc h
    have : s = [] := List.eq_nil_of_length_eq_zero (by omega)
    subst this
    simp [tokenizeAux]
  | succ f ih =>
    intro s acc h
    cases s with
    | nil => simp [tokenizeAux]
    | cons c cs =>
      simp only [tokenizeAux]
      generalize hn : (if (decideNextToken (c :: cs)).2 == 0 then 1 else (decideNextToken (c :: cs)).2) = n
      have hn1 : 1 ≤ n := by
        rw [← hn]; split
        · omega
        · rename_i hz; have : (decideNextToken (c :: cs)).2 ≠ 0 := by simpa using hz
          omega
      have hlen : ((c :: cs).drop n).length ≤ f := by
        simp only [List.length_drop, List.length_cons] at h ⊢; omega
      have := ih ((c :: cs).drop n) (⟨(decideNextToken (c :: cs)).1, (c :: cs).take n⟩ :: acc) hlen
      simp only [hn] at this ⊢
      rw [this]
      simp only [List.reverse_cons, List.flatMap_append, List.flatMap_cons, List.flatMap_nil, List.append_nil, List.append_assoc,
        List.take_append_drop]

/-- **Every character of a text belongs to exactly one token, in order**: the texts of the
    tokens, concatenated, are the text.  (So every token span, and every span joined from token
    spans, starts and ends on a character boundary of the source.) -/
theorem tokens_partition_text (s : List Char) : (tokenize s).flatMap (·.text) = s := by
  unfold tokenize
  have := tokenizeAux_partition s.length s [] (Nat.le_refl _)
  simpa using this

example : (tokenize "ld é, 1 ; c".toList).map (·.text.length) = [2, 1, 1, 1, 1, 1, 1, 3] := by decide

end Casm.C13
