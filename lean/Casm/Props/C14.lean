import Casm.Model.FileNav
/-!
# C14 — file inclusion is relative, confined, acyclic and once-only where asked
-/
namespace Casm.C14

def dotdot : List Char := "..".toList

/-! ## navigation -/

/-- the stack discipline of the `..` loop never leaves a `..` in the result -/
theorem collapse_no_dotdot (comps acc out : List (List Char))
    (hacc : ∀ c ∈ acc, c ≠ dotdot) (h : collapseDots comps acc = .ok out) : ∀ c ∈ out, c ≠ dotdot := by
  induction comps generalizing acc with
  | nil =>
    simp only [collapseDots, Except.ok.injEq] at h; subst h
    intro c hc; exact hacc c (List.mem_reverse.1 hc)
  | cons x rest ih =>
    simp only [collapseDots] at h
    by_cases hx : x = dotdot
    · have : (x == "..".toList) = true := by simp [hx, dotdot]
      rw [if_pos this] at h
      cases acc with
      | nil => simp at h
      | cons a acc' =>
        simp only at h
        exact ih acc' (fun c hc => hacc c (List.mem_cons_of_mem _ hc)) h
    · have : (x == "..".toList) = false := by
        rw [beq_eq_false_iff_ne]; exact hx
      rw [if_neg (by rw [this]; decide)] at h
      apply ih (x :: acc) _ h
      intro c hc
      rcases List.mem_cons.1 hc with rfl | hc
      · exact hx
      · exact hacc c hc

/-- **Confinement.** Whatever the current file and the relative name (not `<std>/`),
    a successful navigation yields a path none of whose components is `..`: the result
    cannot climb out of the directory the components are interpreted in. -/
theorem navigate_no_dotdot (cur rel : List Char) (comps : List (List Char))
    (h : navComps cur rel = .ok comps) : ∀ c ∈ comps, c ≠ dotdot := by
  unfold navComps at h
  simp only at h
  split at h
  · cases h
  · exact collapse_no_dotdot _ [] comps (fun c hc => by cases hc) h

/-- the path returned is exactly those components joined with `/` -/
theorem navigate_is_join (cur rel p : List Char) (hstd : isStdPath rel = false)
    (h : filenameNavigate cur rel = .ok p) :
    ∃ comps, navComps cur rel = .ok comps ∧ p = joinWith ['/'] comps ∧ comps ≠ [] ∧ p ≠ [] := by
  unfold filenameNavigate at h
  rw [hstd] at h
  simp only [Bool.false_eq_true, if_false] at h
  cases hc : navComps cur rel with
  | error e => rw [hc] at h; cases h
  | ok comps =>
    rw [hc] at h
    simp only at h
    split at h
    · cases h
    · rename_i hn
      simp only [Except.ok.injEq] at h
      simp only [Bool.or_eq_true, not_or, Bool.not_eq_true] at hn
      refine ⟨comps, rfl, h.symm, ?_, ?_⟩
      · intro he; simp [he] at hn
      · intro he; rw [← h] at he; simp [he] at hn

/-- popping past the start is an error: a leading `..` (after the directory of a
    top-level file) is rejected -/
theorem escape_rejected (rest : List (List Char)) :
    collapseDots (dotdot :: rest) [] = .error .outOfProject := by
  simp [collapseDots, dotdot]

/-- more `..` than directories available, anywhere in the path, is rejected -/
theorem escape_rejected_deep (dirs : List (List Char)) (rest : List (List Char))
    (hd : ∀ d ∈ dirs, d ≠ dotdot) :
    collapseDots (dirs ++ List.replicate (dirs.length + 1) dotdot ++ rest) [] = .error .outOfProject := by
  -- generalise over the accumulator
  suffices h : ∀ (acc : List (List Char)),
      collapseDots (dirs ++ List.replicate (dirs.length + acc.length + 1) dotdot ++ rest) acc = .error .outOfProject by
    simpa using h []
  induction dirs with
  | nil =>
    intro acc
    induction acc with
    | nil => simp [collapseDots, dotdot]
    | cons a acc ih =>
      simp only [List.nil_append, List.length_nil, Nat.zero_add, List.length_cons] at ih ⊢
      rw [List.replicate_succ]
      simp only [List.cons_append, collapseDots, dotdot]
      simp only [beq_self_eq_true, if_true]
      exact ih
  | cons d ds ih =>
    intro acc
    have hdd : (d == "..".toList) = false := by
      rw [beq_eq_false_iff_ne]; exact hd d (List.mem_cons_self)
    simp only [List.cons_append, collapseDots]
    rw [if_neg (by rw [hdd]; decide)]
    have := ih (fun x hx => hd x (List.mem_cons_of_mem _ hx)) (d :: acc)
    simp only [List.length_cons] at this ⊢
    have e : ds.length + 1 + acc.length + 1 = ds.length + (acc.length + 1) + 1 := by omega
    rw [e]; exact this

theorem std_passthrough (cur rel : List Char) (h : isStdPath rel = true) :
    filenameNavigate cur rel = .ok rel := by
  simp [filenameNavigate, h]

/-- both slash styles are the same path -/
theorem backslash_is_slash (cur rel : List Char) :
    navComps cur rel = navComps (fixSlashes cur) (fixSlashes rel) := by
  have idem : ∀ s : List Char, fixSlashes (fixSlashes s) = fixSlashes s := by
    intro s
    simp only [fixSlashes, List.map_map]
    apply List.map_congr_left
    intro c _
    simp only [Function.comp]
    by_cases h : c = '\\' <;> simp [h]
  simp only [navComps, idem]

/-! ### what the navigated path means (the statement: relative, confined) - and where that fails (finding F69) -/

/-- what a sequence of path components *means*, read from the directory `st` (innermost name first): an empty component and
    `.` stay, `..` goes up (`none`: above the directory the walk started in), a name goes down -/
def walkPath : List (List Char) → List (List Char) → Option (List (List Char))
  | [], st => some st
  | c :: cs, st =>
    if c.isEmpty || c == ['.'] then walkPath cs st
    else if c == ['.', '.'] then
      match st with
      | [] => none
      | _ :: t => walkPath cs t
    else walkPath cs (c :: st)

def cleanComp (c : List Char) : Bool := !c.isEmpty && c != ['.']

theorem walkPath_cons (c : List Char) (cs st : List (List Char)) :
    walkPath (c :: cs) st =
      if c.isEmpty || c == ['.'] then walkPath cs st
      else if c == ['.', '.'] then (match st with | [] => none | _ :: t => walkPath cs t)
      else walkPath cs (c :: st) := by
  rw [walkPath.eq_def]

theorem clean_iff (c : List Char) : cleanComp c = true ↔ (c.isEmpty || c == ['.']) = false := by
  unfold cleanComp
  cases c.isEmpty <;> cases h : (c == ['.']) <;> simp [bne, h]

theorem walkPath_filter (cs st : List (List Char)) : walkPath (cs.filter cleanComp) st = walkPath cs st := by
  induction cs generalizing st with
  | nil => rfl
  | cons c cs ih =>
    by_cases hc : cleanComp c = true
    · rw [List.filter_cons_of_pos hc]
      have h' := (clean_iff c).1 hc
      rw [walkPath_cons, walkPath_cons]
      simp only [h', Bool.false_eq_true, if_false]
      split
      · cases st <;> simp [ih]
      · exact ih _
    · rw [List.filter_cons_of_neg hc]
      have h' : (c.isEmpty || c == ['.']) = true := by
        cases h : (c.isEmpty || c == ['.'])
        · exact absurd ((clean_iff c).2 h) hc
        · rfl
      rw [walkPath_cons c cs]
      simp only [h', if_true]
      exact ih st

theorem walkPath_append (a b st : List (List Char)) :
    walkPath (a ++ b) st = (walkPath a st).bind (walkPath b) := by
  induction a generalizing st with
  | nil => rfl
  | cons c a ih =>
    simp only [List.cons_append]
    rw [walkPath_cons, walkPath_cons c a]
    split
    · exact ih st
    · split
      · cases st with
        | nil => rfl
        | cons x t => exact ih t
      · exact ih _

/-- on components none of which is empty or `.`, the collapsing loop computes the meaning of the path -/
theorem collapse_is_walk (comps acc : List (List Char)) (hc : ∀ c ∈ comps, cleanComp c = true) :
    collapseDots comps acc = match walkPath comps acc with
      | some st => .ok st.reverse
      | none => .error .outOfProject := by
  induction comps generalizing acc with
  | nil => rfl
  | cons c rest ih =>
    have h' := (clean_iff c).1 (hc c List.mem_cons_self)
    have ihr := fun acc => ih acc (fun x hx => hc x (List.mem_cons_of_mem _ hx))
    rw [collapseDots.eq_def, walkPath_cons]
    simp only [h', Bool.false_eq_true, if_false]
    have dd : "..".toList = ['.', '.'] := rfl
    rw [dd]
    split
    · cases acc with
      | nil => rfl
      | cons x t => exact ihr t
    · exact ihr _

/-- **the navigated name is what the path `directory of the current file / relative name` means** - for a current file
    whose own name is written without empty and `.` components (`sub/main.asm`, not `./main.asm`; every name the assembler
    itself produces is of that form): the components of the result are the directory stack of the walk, and a walk that
    leaves the starting directory is exactly the error "cannot navigate out of project directory".
    PARTIAL: the hypothesis excludes root names such as `./main.asm` - see the example below (finding F69). -/
theorem navigate_means_the_path_partial (cur rel : List Char)
    (hcur : ∀ c ∈ (splitOnChar '/' (fixSlashes cur)).dropLast, cleanComp c = true)
    (hrel : (fixSlashes rel).head? ≠ some '/')
    (hne : ((splitOnChar '/' (fixSlashes rel)).filter cleanComp).isEmpty = false) :
    navComps cur rel = match walkPath ((splitOnChar '/' (fixSlashes cur)).dropLast ++ splitOnChar '/' (fixSlashes rel)) [] with
      | some st => .ok st.reverse
      | none => .error .outOfProject := by
  unfold navComps
  simp only
  have hb : ((fixSlashes rel).head? == some '/') = false := by
    rw [beq_eq_false_iff_ne]; exact hrel
  have hf : (splitOnChar '/' (fixSlashes rel)).filter (fun s => !s.isEmpty && s != ".".toList) =
      (splitOnChar '/' (fixSlashes rel)).filter cleanComp := rfl
  rw [hf, hne]
  simp only [hb, Bool.false_eq_true, if_false]
  rw [collapse_is_walk]
  · have hw : walkPath ((splitOnChar '/' (fixSlashes rel)).filter cleanComp) = walkPath (splitOnChar '/' (fixSlashes rel)) :=
      funext (walkPath_filter _)
    rw [walkPath_append, walkPath_append, hw]
  · intro c hc
    rcases List.mem_append.1 hc with h | h
    · exact hcur c h
    · exact (List.mem_filter.1 h).2

/-- the premises are met by an ordinary case, and the conclusion is not vacuous -/
example : (navComps "src/a/main.asm".toList "../b/./x.asm".toList).toOption = some ["src".toList, "b".toList, "x.asm".toList] := by
  decide

/-- **F69: the excluded point.**  With the root written `./main.asm`, the path `./../x.asm` leaves the working directory
    (`walkPath` = none), yet navigation succeeds and names `x.asm` inside it: the `.` was popped in place of a directory -/
example : walkPath ((splitOnChar '/' "./main.asm".toList).dropLast ++ splitOnChar '/' "../x.asm".toList) [] = none ∧
    (navComps "./main.asm".toList "../x.asm".toList).toOption = some ["x.asm".toList] := by decide

def navShow (r : Except NavErr (List Char)) : String :=
  match r with
  | .ok p => "ok " ++ String.ofList p
  | .error .invalidFilename => "invalid"
  | .error .outOfProject => "out"

example : navShow (filenameNavigate "src/a/main.asm".toList "../b/./x.asm".toList) = "ok src/b/x.asm" := by decide
example : navShow (filenameNavigate "main.asm".toList "../x.asm".toList) = "out" := by decide
example : navShow (filenameNavigate "a/main.asm".toList "b\\..\\..\\..\\x".toList) = "out" := by decide
example : navShow (filenameNavigate "a/main.asm".toList "/x.asm".toList) = "ok x.asm" := by decide

/-! ## inclusion -/

/-- a file already marked `#once` contributes nothing the second time -/
theorem once_at_most_once (fs : Files) (fuel : Nat) (name : List Char) (seen once : List (List Char))
    (h : once.contains name = true) : expandFile fs (fuel + 1) name seen once = .ok ([], once) := by
  unfold expandFile
  rw [if_pos h]

/-- a file that is on the inclusion stack is reported, not expanded again -/
theorem cycle_is_error (fs : Files) (fuel : Nat) (name rel inc : List Char) (rest : List FOp)
    (seen once : List (List Char)) (acc : List Nat)
    (hnav : filenameNavigate name rel = .ok inc) (hseen : seen.contains inc = true) :
    expandOps fs (fuel + 1) name (.include rel :: rest) seen once acc = .error .recursive := by
  unfold expandOps
  simp only [hnav]
  rw [if_pos hseen]

/-- a file including itself is an error (second level: the root is pushed when first included) -/
theorem self_inclusion_error (fuel : Nat) (name : List Char) (hn : filenameNavigate name name = .ok name) :
    expandFile [(name, [.include name])] (fuel + 4) name [] [] = .error .recursive := by
  have hget : Files.get [(name, [FOp.include name])] name = some [.include name] := by
    simp [Files.get]
  have hc1 : ([] : List (List Char)).contains name = false := rfl
  have hc2 : [name].contains name = true := by simp
  unfold expandFile
  rw [if_neg (by rw [hc1]; decide), hget]
  simp only
  unfold expandOps
  simp only [hn]
  rw [if_neg (by rw [hc1]; decide)]
  unfold expandFile
  have hc3 : (if ([FOp.include name].contains FOp.once) = true then [name] else ([] : List (List Char))) = [] := by
    have : [FOp.include name].contains FOp.once = false := by simp
    rw [this]; rfl
  rw [hc3, if_neg (by rw [hc1]; decide), hget]
  simp only
  rw [hc3]
  unfold expandOps
  simp only [hn]
  rw [if_pos hc2]

/-- markers are spliced in order -/
theorem markers_in_order (fs : Files) (name : List Char) (ks : List Nat) (seen once : List (List Char))
    (acc : List Nat) (fuel : Nat) (hf : ks.length < fuel) :
    expandOps fs fuel name (ks.map .marker) seen once acc = .ok (acc.reverse ++ ks, once) := by
  induction ks generalizing acc fuel with
  | nil =>
    cases fuel with
    | zero => omega
    | succ f => simp [expandOps]
  | cons k ks ih =>
    cases fuel with
    | zero => omega
    | succ f =>
      simp only [List.map_cons, expandOps]
      rw [ih (k :: acc) f (by simp at hf; omega)]
      simp

/-- an included file is spliced exactly at the point of inclusion -/
theorem splice_at_point (fs : Files) (fuel : Nat) (name rel inc : List Char) (rest : List FOp)
    (seen once once' : List (List Char)) (acc ms : List Nat)
    (hnav : filenameNavigate name rel = .ok inc) (hseen : seen.contains inc = false)
    (hinner : expandFile fs fuel inc (inc :: seen) once = .ok (ms, once')) :
    expandOps fs (fuel + 1) name (.include rel :: rest) seen once acc =
      expandOps fs fuel name rest seen once' (ms.reverse ++ acc) := by
  conv => lhs; unfold expandOps
  simp only [hnav]
  rw [if_neg (by rw [hseen]; decide), hinner]

/-! ## `incbin` / `incbinstr` / `inchexstr` ranges -/

theorem incbin_exact (bytes : List Nat) (start size : Nat) (h1 : start < bytes.length)
    (h2 : start + size ≤ bytes.length) :
    incbinRange bytes 3 start size = .ok ((bytes.drop start).take size) := by
  unfold incbinRange
  simp only [ge_iff_le, Nat.le_refl, if_true, show (2 ≤ 3) from by decide]
  rw [if_neg (by omega), if_neg (by omega), if_neg (by omega)]
  congr 2; omega

theorem incbin_rejects_past_end (bytes : List Nat) (start size : Nat)
    (h : start + size > bytes.length) : ∃ e, incbinRange bytes 3 start size = .error e := by
  unfold incbinRange
  simp only [ge_iff_le, Nat.le_refl, if_true, show (2 ≤ 3) from by decide]
  rw [if_neg (by omega)]
  by_cases hs : start ≥ bytes.length
  · exact ⟨_, by rw [if_pos hs]⟩
  · exact ⟨_, by rw [if_neg hs, if_pos h]⟩

theorem incbin_start_past_end (bytes : List Nat) (args start size : Nat) (ha : 2 ≤ args)
    (h : start ≥ bytes.length) : incbinRange bytes args start size = .error .startsAfterEof := by
  unfold incbinRange
  simp only [ge_iff_le, ha, if_true]
  rw [if_neg (by omega), if_pos h]

theorem incbin_whole_file (bytes : List Nat) (s z : Nat) : incbinRange bytes 1 s z = .ok bytes := by
  unfold incbinRange
  simp only [ge_iff_le, show ¬ (2 ≤ 1) from by decide, show ¬ (3 ≤ 1) from by decide, if_false]
  by_cases h : bytes.length = 0
  · simp [h, List.length_eq_zero_iff.1 h]
  · rw [if_neg (by omega), if_neg (by omega), if_neg (by omega)]
    simp

theorem incstr_exact (digits : List Nat) (start size : Nat) (h1 : start < digits.length)
    (h2 : start + size ≤ digits.length) :
    incstrRange digits 3 start size = .ok ((digits.drop start).take size) := by
  unfold incstrRange
  simp only [ge_iff_le, Nat.le_refl, if_true, show (2 ≤ 3) from by decide]
  rw [if_neg (by omega), if_neg (by omega), if_neg (by omega)]
  congr 2; omega

theorem incstr_rejects_past_end (digits : List Nat) (start size : Nat)
    (h : start + size > digits.length) : ∃ e, incstrRange digits 3 start size = .error e := by
  unfold incstrRange
  simp only [ge_iff_le, Nat.le_refl, if_true, show (2 ≤ 3) from by decide]
  rw [if_neg (by omega)]
  by_cases hs : start ≥ digits.length
  · exact ⟨_, by rw [if_pos hs]⟩
  · exact ⟨_, by rw [if_neg hs, if_pos h]⟩

end Casm.C14
