import Casm.Model.Bits
import Casm.Proofs.BitsLemmas
/-!
# C04 — typed arguments and sized data accept exactly their range, never truncating

Theorems only.  Model: `Casm.Model.Bits` (`checkArg` = `check_and_constrain_argument`,
`dataElem` = final-pass branch of `resolve_data_element`, `minSize` = `BigInt::min_size`).
The range of `sN`/`iN` is written without the fraction `2^(N-1)`: `-(2^N) ≤ 2*v` is
`-2^(N-1) ≤ v` for `N ≥ 1` and, at `N = 0`, reads `-1/2 ≤ v` as the statement's formula does.
-/
namespace Casm.C04

def InU (N : Nat) (v : Int) : Prop := 0 ≤ v ∧ v < 2 ^ N
def InS (N : Nat) (v : Int) : Prop := -(2 ^ N) ≤ 2 * v ∧ 2 * v < 2 ^ N
def InI (N : Nat) (v : Int) : Prop := -(2 ^ N) ≤ 2 * v ∧ v < 2 ^ N

def InTy : Ty → Nat → Int → Prop
  | .u => InU | .s => InS | .i => InI

/-- The statement at full strength (every width, including 0). -/
def C04_full : Prop := ∀ (t : Ty) (N : Nat) (v : Int), (checkArg t N v).isSome ↔ InTy t N v

/-- F17: at width 0 the formula admits `v = 0`, the code rejects everything. -/
theorem zero_width_rejects_all (t : Ty) (v : Int) : checkArg t 0 v = none := by
  have hm := minSize_pos v
  have : rejects t 0 v = true := by
    cases t
    · rw [rejects_u_prop]; omega
    · rw [rejects_s_prop]; omega
    · rw [rejects_i_prop]; omega
  simp [checkArg, this]

theorem C04_full_false : ¬ C04_full := by
  intro h
  have := (h .u 0 0).2 (by simp [InTy, InU])
  rw [zero_width_rejects_all] at this
  simp at this

private theorem two_pow_succ' (k : Nat) : (2 : Int) ^ (k + 1) = 2 * 2 ^ k := by
  rw [Int.pow_succ]; omega

theorem accept_u (N : Nat) (hN : 1 ≤ N) (v : Int) :
    (checkArg .u N v).isSome ↔ 0 ≤ v ∧ v < 2 ^ N := by
  have hp1 : (0 : Int) < 2 ^ (N - 1) := Int.pow_pos (by decide)
  have hms := minSize_le_iff v N hN
  rw [isSome_checkArg_iff, rejects_u_prop]
  omega

theorem accept_i (N : Nat) (hN : 1 ≤ N) (v : Int) :
    (checkArg .i N v).isSome ↔ -(2 ^ (N - 1)) ≤ v ∧ v < 2 ^ N := by
  have hms := minSize_le_iff v N hN
  rw [isSome_checkArg_iff, rejects_i_prop]
  omega

theorem accept_s (N : Nat) (hN : 1 ≤ N) (v : Int) :
    (checkArg .s N v).isSome ↔ -(2 ^ (N - 1)) ≤ v ∧ v < 2 ^ (N - 1) := by
  obtain ⟨k, rfl⟩ : ∃ k, N = k + 1 := ⟨N - 1, by omega⟩
  have hpk : (0 : Int) < 2 ^ k := Int.pow_pos (by decide)
  simp only [Nat.add_sub_cancel]
  rw [isSome_checkArg_iff, rejects_s_prop]
  rcases Int.lt_trichotomy v 0 with h | h | h
  · have := minSize_neg_le v h k; omega
  · subst h; omega
  · have := minSize_pos_le v h k; omega

/-- The three ranges, uniformly, in the statement's own form; `1 ≤ N` is the guard. -/
theorem C04_partial (t : Ty) (N : Nat) (hN : 1 ≤ N) (v : Int) :
    (checkArg t N v).isSome ↔ InTy t N v := by
  obtain ⟨k, rfl⟩ : ∃ k, N = k + 1 := ⟨N - 1, by omega⟩
  have e := two_pow_succ' k
  cases t
  · rw [accept_u _ hN]; rfl
  · rw [accept_s _ hN]; simp only [InTy, InS, Nat.add_sub_cancel]; omega
  · rw [accept_i _ hN]; simp only [InTy, InI, Nat.add_sub_cancel]; omega

/-- An accepted value is passed on unchanged, with its size set to `N`. -/
theorem accepted_value (t : Ty) (N : Nat) (v : Int) (b : BI) (h : checkArg t N v = some b) :
    b = ⟨v, some N⟩ := by
  unfold checkArg at h; split at h <;> simp at h; exact h.symm

/-- Bits emitted for an accepted argument are the `N` low-order two's-complement bits,
    most significant first. -/
theorem emit_low_bits (t : Ty) (N : Nat) (v : Int) (b : BI) (h : checkArg t N v = some b)
    (k : Nat) (hk : k < N) : (emitBits b.v N)[k]? = some (tbit v (N - 1 - k)) := by
  rw [accepted_value t N v b h]
  simp [emitBits, hk]

/-- the number denoted by the emitted bit string -/
theorem ofBits_emitBits (v : Int) (N : Nat) : (ofBits (emitBits v N) : Int) = v % 2 ^ N := by
  induction N with
  | zero => simp [emitBits, ofBits]; try omega
  | succ n ih =>
    have hl : emitBits v (n + 1) = tbit v n :: emitBits v n := by
      simp only [emitBits, List.range_succ_eq_map, List.map_cons, List.map_map]
      congr 1
      apply List.map_congr_left
      intro k hk
      have : k < n := List.mem_range.1 hk
      simp only [Function.comp]
      congr 1
      omega
    rw [hl]
    simp only [ofBits, List.foldl_cons]
    rw [ofBits_foldl]
    have hlen : (emitBits v n).length = n := by simp [emitBits]
    rw [hlen]
    push_cast
    rw [ih]
    have hpn : (0 : Int) < 2 ^ n := Int.pow_pos (by decide)
    -- v % 2^(n+1) = (v / 2^n % 2) * 2^n + v % 2^n
    have key : v % 2 ^ (n + 1) = (v / 2 ^ n % 2) * 2 ^ n + v % 2 ^ n := by
      have e1 : (2 : Int) ^ (n + 1) = 2 ^ n * 2 := Int.pow_succ 2 n
      have h1 := emod_mul_ediv v (2 ^ n) 2 hpn
      have h2 : v % (2 ^ n * 2) % 2 ^ n = v % 2 ^ n :=
        Int.emod_emod_of_dvd _ (Int.dvd_mul_right _ _)
      have h3 := Int.emod_def (v % (2 ^ n * 2)) (2 ^ n)
      rw [e1]
      rw [h2, h1] at h3
      rw [Int.mul_comm (v / 2 ^ n % 2)]
      omega
    rw [key, tbit_eq]
    have hb : v / 2 ^ n % 2 = 0 ∨ v / 2 ^ n % 2 = 1 := by omega
    rcases hb with hb | hb <;> simp [hb]

/-- "Never truncates": the emitted `N`-bit string, read as an unsigned number for a
    non-negative value and as a two's-complement number for a negative one, is `v`. -/
theorem never_truncates (t : Ty) (N : Nat) (hN : 1 ≤ N) (v : Int) (b : BI)
    (h : checkArg t N v = some b) :
    (0 ≤ v → (ofBits (emitBits b.v N) : Int) = v) ∧
    (v < 0 → (ofBits (emitBits b.v N) : Int) - 2 ^ N = v) := by
  have hin : InTy t N v := (C04_partial t N hN v).1 (by simp [h])
  rw [accepted_value t N v b h]
  simp only
  rw [ofBits_emitBits]
  have hp : (0 : Int) < 2 ^ N := Int.pow_pos (by decide)
  have hr : -(2 ^ N) ≤ v ∧ v < 2 ^ N := by
    cases t <;> simp only [InTy, InU, InS, InI] at hin <;> omega
  constructor
  · intro h0; exact Int.emod_eq_of_lt h0 hr.2
  · intro h0
    have : (v + 2 ^ N) % 2 ^ N = v + 2 ^ N := Int.emod_eq_of_lt (by omega) (by omega)
    rw [Int.add_emod_right] at this
    omega

/-! ## data directives -/

def isOk {ε α} : Except ε α → Bool
  | .ok _ => true
  | .error _ => false

/-- `#dN` with an unsized value: accepted exactly when representable in `N` bits, signed
    or unsigned. -/
theorem data_accept_unsized (N : Nat) (hN : 1 ≤ N) (v : Int) :
    isOk (dataElem (some N) ⟨v, none⟩) ↔ -(2 ^ (N - 1)) ≤ v ∧ v < 2 ^ N := by
  have hms := minSize_le_iff v N hN
  simp only [dataElem, BI.sizeOrMin]
  by_cases hle : minSize v ≤ N
  · have : ¬ minSize v > N := by omega
    simp only [this, if_false, isOk, true_iff]; exact hms.1 hle
  · have : minSize v > N := by omega
    simp only [this, if_true, isOk, Bool.false_eq_true, false_iff]
    intro h; exact hle (hms.2 h)

/-- `#dN` with a sized value: accepted exactly when the value is no wider than `N`. -/
theorem data_accept_sized (N k : Nat) (v : Int) :
    isOk (dataElem (some N) ⟨v, some k⟩) ↔ k ≤ N := by
  simp only [dataElem, BI.sizeOrMin]
  by_cases h : k > N
  · simp only [h, if_true, isOk, Bool.false_eq_true, false_iff]; omega
  · simp only [h, if_false, isOk, true_iff]; omega

/-- zero width: an unsized value is never accepted (F17 for `#d0`) -/
theorem data_zero_width_rejects (v : Int) : isOk (dataElem (some 0) ⟨v, none⟩) = false := by
  have := minSize_pos v
  simp [dataElem, BI.sizeOrMin, isOk, this]

/-- The emitted element has size `N` and its bits are the low `N` bits of the value. -/
theorem data_emit (N : Nat) (x b : BI) (h : dataElem (some N) x = .ok b) :
    b.size = some N ∧ ∀ i, i < N → tbit b.v i = tbit x.v i := by
  simp only [dataElem] at h
  split at h
  · simp at h
  · simp only [Except.ok.injEq] at h
    subst h
    unfold BI.slice
    split
    · rename_i hc; exact ⟨hc.1, fun _ _ => rfl⟩
    · refine ⟨by simp, ?_⟩
      intro i hi
      simp only [bitsRange_zero_right, tbit_emod_pow, hi, decide_true, Bool.true_and]

/-- An accepted unsized value is not cut: the `N` emitted bits denote `v`. -/
theorem data_never_truncates (N : Nat) (hN : 1 ≤ N) (v : Int) (b : BI)
    (h : dataElem (some N) ⟨v, none⟩ = .ok b) :
    b.v = v % 2 ^ N ∧ (0 ≤ v → b.v = v) ∧ (v < 0 → b.v - 2 ^ N = v) := by
  have hr := (data_accept_unsized N hN v).1 (by simp [h, isOk])
  have hp : (0 : Int) < 2 ^ N := Int.pow_pos (by decide)
  have hp1 : (0 : Int) < 2 ^ (N - 1) := Int.pow_pos (by decide)
  have hle : (2 : Int) ^ (N - 1) ≤ 2 ^ N := by
    have : (2 : Nat) ^ (N - 1) ≤ 2 ^ N := Nat.pow_le_pow_right (by decide) (by omega)
    exact_mod_cast this
  simp only [dataElem] at h
  split at h
  · simp at h
  · simp only [Except.ok.injEq] at h
    subst h
    have e : (BI.slice ⟨v, none⟩ N 0).v = v % 2 ^ N := by
      simp [BI.slice, bitsRange_zero_right]
    rw [e]
    refine ⟨rfl, ?_, ?_⟩
    · intro h0; exact Int.emod_eq_of_lt h0 hr.2
    · intro h0
      have : (v + 2 ^ N) % 2 ^ N = v + 2 ^ N := Int.emod_eq_of_lt (by omega) (by omega)
      rw [Int.add_emod_right] at this
      omega

/-! ## non-vacuity -/
example : (checkArg .s 8 (-128)).isSome = true ∧ (checkArg .s 8 128).isSome = false ∧
    (checkArg .u 8 255).isSome = true ∧ (checkArg .i 8 (-129)).isSome = false := by decide
example : isOk (dataElem (some 8) ⟨-128, none⟩) = true ∧ isOk (dataElem (some 8) ⟨256, none⟩) = false ∧
    isOk (dataElem (some 8) ⟨0, some 9⟩) = false := by decide

end Casm.C04
