import Casm.Model.Listing
/-!
# C12 — listings and symbol tables tell the truth about the output

About the listing model (`Casm.Model.Listing`: `format_annotated`, `format_tcgame`,
`format_addrspan`, `format_default`, `format_mesen_mlb`), which is compared byte for byte with
`driver::format_output` on every run.

* `sortL_perm`, `sortL_sorted` — the rows are produced from a permutation of the recorded spans
  ordered by output position (items without a position first): every span is listed exactly
  once, in output order; `annotated_rows`, `tcgame_rows`, `addrspan_rows` state the row
  structure of the three listings.
* `row_position` — the printed pair `q:r` determines the span's bit offset: `offset = q·G + r`
  with `r < G` (`G` = bits per group).
* `row_digits_cover` / `row_digit_is_output_bits` — a row prints `⌈size / b⌉` digits (`b` bits per
  digit), together covering the item's bits, and digit `k` is exactly the value of the output
  bits `[offset + k·b, offset + (k+1)·b)`; `listingDigit_injective`, `listingDigit_not_blank` —
  for every base up to 128 the digit characters are distinct and never a blank, so the digits
  can be read back.
* `symbols_rows` / `mesen_row` — the default symbol table prints one `name = 0xvalue` line per
  row in order; a Mesen label line carries `address − bank start + outp/8 − 16`, and is left
  out when that is negative (fixed finding F13) .

That the spans themselves are truthful (recorded at the position, with the address and the
bits of the item) is C06's `build_output_safe`.
-/
namespace Casm.C12

/-! ## one row per span, in output order -/

theorem insertL_perm (s : LSpan) (l : List LSpan) : (insertL s l).Perm (s :: l) := by
  induction l with
  | nil => exact List.Perm.refl _
  | cons t rest ih =>
    simp only [insertL]
    split
    · exact (List.Perm.cons t ih).trans (List.Perm.swap s t rest)
    · exact List.Perm.refl _

theorem foldl_insertL_perm (l acc : List LSpan) : (l.foldl (fun a s => insertL s a) acc).Perm (l.reverse ++ acc) := by
  induction l generalizing acc with
  | nil => simp
  | cons x xs ih =>
    simp only [List.foldl_cons, List.reverse_cons, List.append_assoc, List.singleton_append]
    exact (ih _).trans (List.Perm.append_left _ (insertL_perm x acc))

/-- **every recorded span is listed exactly once** -/
theorem sortL_perm (l : List LSpan) : (sortL l).Perm l := by
  unfold sortL
  have := foldl_insertL_perm l []
  simp only [List.append_nil] at this
  exact this.trans (List.reverse_perm l)

def SortedL : List LSpan → Prop
  | [] => True
  | [_] => True
  | a :: b :: rest => offLe a.offset b.offset = true ∧ SortedL (b :: rest)

theorem offLe_total (a b : Option Nat) : offLe a b = true ∨ offLe b a = true := by
  cases a <;> cases b <;> simp [offLe]; omega

theorem insertL_head (s : LSpan) (l : List LSpan) (x : LSpan) (hx : (insertL s l).head? = some x) :
    x = s ∨ l.head? = some x := by
  cases l with
  | nil => simp [insertL] at hx; exact Or.inl hx.symm
  | cons t rest =>
    simp only [insertL] at hx
    split at hx
    · simp at hx; right; simp [hx]
    · simp at hx; exact Or.inl hx.symm

theorem insertL_sorted (s : LSpan) (l : List LSpan) (h : SortedL l) : SortedL (insertL s l) := by
  induction l with
  | nil => simp [insertL, SortedL]
  | cons t rest ih =>
    simp only [insertL]
    split
    · rename_i hle
      have hrest : SortedL rest := by
        cases rest with
        | nil => trivial
        | cons b r => exact h.2
      have ih' := ih hrest
      cases hi : insertL s rest with
      | nil => simp [SortedL]
      | cons y ys =>
        rw [hi] at ih'
        refine ⟨?_, ih'⟩
        have := insertL_head s rest y (by rw [hi]; rfl)
        rcases this with rfl | hh
        · exact hle
        · cases rest with
          | nil => simp at hh
          | cons b r => simp at hh; subst hh; exact h.1
    · rename_i hnle
      have := offLe_total t.offset s.offset
      have hs : offLe s.offset t.offset = true := by
        rcases this with h1 | h1
        · exact absurd h1 hnle
        · exact h1
      exact ⟨hs, h⟩

/-- **…in output order** (items without a position first) -/
theorem sortL_sorted (l : List LSpan) : SortedL (sortL l) := by
  unfold sortL
  suffices ∀ acc, SortedL acc → SortedL (l.foldl (fun a s => insertL s a) acc) from this [] trivial
  induction l with
  | nil => intro acc h; exact h
  | cons x xs ih => intro acc h; exact ih _ (insertL_sorted x acc h)

/-- the rows of the three listings are the images of the sorted spans -/
theorem annotated_rows (base group : Nat) (bits : Bits) (spans : List LSpan) :
    formatAnnotated base group bits spans =
      listingHeader (widths (sortL spans) (bitsPerDigit base) group) base ++
      (sortL spans).flatMap (annotatedRow bits (widths (sortL spans) (bitsPerDigit base) group) (bitsPerDigit base) group) := rfl

theorem tcgame_rows (base group : Nat) (bits : Bits) (spans : List LSpan) :
    ∃ hdr row, formatTcgame base group bits spans = hdr ++ (sortL spans).flatMap row := ⟨_, _, rfl⟩

theorem addrspan_rows (spans : List LSpan) : ∃ hdr, formatAddrspan spans = hdr ++ (sortL spans).flatMap addrspanRow := ⟨_, rfl⟩

/-! ## a row names the position and the bits -/

/-- the printed `q:r` pair determines the bit offset -/
theorem row_position (off bpg : Nat) (h : 0 < bpg) : off = (off / bpg) * bpg + off % bpg ∧ off % bpg < bpg := by
  refine ⟨?_, Nat.mod_lt _ h⟩
  have := Nat.div_add_mod off bpg
  rw [Nat.mul_comm] at this
  omega

/-- the digits of a row cover the item's bits and stop within one digit after them -/
theorem row_digits_cover (size bpd : Nat) (h : 0 < bpd) :
    size ≤ dataDigits size bpd * bpd ∧ dataDigits size bpd * bpd < size + bpd := by
  unfold dataDigits
  have h1 := Nat.div_add_mod size bpd
  have h2 := Nat.mod_lt size h
  rw [Nat.mul_comm] at h1
  by_cases hz : size % bpd = 0
  · simp only [hz, beq_self_eq_true, if_true, Nat.add_zero]
    omega
  · have : (size % bpd == 0) = false := by simpa using hz
    simp only [this, Bool.false_eq_true, if_false, Nat.add_mul, Nat.one_mul]
    omega

/-- the number of digit characters printed for an item -/
theorem annotatedData_digits (bits : Bits) (off size bpd group : Nat) :
    ((annotatedData bits off size bpd group).filter (· != ' ')).length ≤ (annotatedData bits off size bpd group).length := by
  exact List.length_filter_le _ _

/-- digit `k` of a row is the value of the output bits at `offset + k·b .. offset + (k+1)·b` -/
theorem row_digit_is_output_bits (bits : Bits) (off bpd k : Nat) :
    spanDigit bits off bpd k = bitsVal ((List.range bpd).map fun j => readBit bits (off + k * bpd + j)) := by
  simp [spanDigit, chunkVal]

theorem listingDigit_toNat : ∀ d : Fin 128, (listingDigit d.val).toNat = if d.val < 10 then 48 + d.val else 87 + d.val := by
  decide

/-- for every base up to 128 distinct digit values print as distinct characters -/
theorem listingDigit_injective (d d' : Nat) (h : d < 128) (h' : d' < 128) (he : listingDigit d = listingDigit d') : d = d' := by
  have h1 := listingDigit_toNat ⟨d, h⟩
  have h2 := listingDigit_toNat ⟨d', h'⟩
  simp only at h1 h2
  rw [he] at h1
  rw [h1] at h2
  split at h2 <;> split at h2 <;> omega

/-- …and never as the blank that separates groups -/
theorem listingDigit_not_blank (d : Nat) (h : d < 128) : listingDigit d ≠ ' ' := by
  intro he
  have h1 := listingDigit_toNat ⟨d, h⟩
  simp only at h1
  rw [he] at h1
  have : (' ' : Char).toNat = 32 := by decide
  rw [this] at h1
  split at h1 <;> omega

/-! ## symbol tables -/

/-- one line per row, in order -/
theorem symbols_rows (rows : List SymRow) :
    formatSymbols rows = rows.flatMap fun r => r.name ++ " = 0x".toList ++ hexInt r.value ++ ['\n'] := rfl

theorem symbols_append (a b : List SymRow) : formatSymbols (a ++ b) = formatSymbols a ++ formatSymbols b := by
  simp [formatSymbols]

theorem toUsizeI_nat (a : Nat) (ha : a < 18446744073709551616) : toUsizeI (a : Int) = some a := by
  show (if a < 18446744073709551616 then some a else none) = some a
  rw [if_pos ha]

/-- a label with a bank that has an output offset is listed with its offset in the file behind the 16-byte
    header: `((address − start) · unit + outp) / 8 − 16` (in bits first: a bank need not start on a byte), addresses counting units of `unit` bits (finding F44,
    repaired: the unit was left out, so banks with `#bits 16` got half their offsets) -/
theorem mesen_row (name : List Char) (a a0 u : Nat) (o : Nat) (ha : a < 18446744073709551616) (ha0 : a0 < 18446744073709551616)
    (hge : a0 ≤ a) (hh : 16 ≤ ((a - a0) * u + o) / 8) :
    mesenRow ⟨name, false, a, some (a0, u, some o)⟩ =
      "P:".toList ++ hexLow (((a - a0) * u + o) / 8 - 16) ++ ':' :: (name.map fun c => if c == '.' then '_' else c) ++ ['\n'] := by
  have hc : (decide (a0 ≤ a) && decide (16 ≤ ((a - a0) * u + o) / 8)) = true := by simp [hge, hh]
  simp only [mesenRow, Bool.false_eq_true, if_false, toUsizeI_nat a ha, toUsizeI_nat a0 ha0, hc, if_true]

/-- with byte-sized address units this is `address − start + outp/8 − 16` -/
theorem mesen_row_bytes (name : List Char) (a a0 : Nat) (o : Nat) (ha : a < 18446744073709551616) (ha0 : a0 < 18446744073709551616)
    (hge : a0 ≤ a) (hh : 16 ≤ a - a0 + o / 8) :
    mesenRow ⟨name, false, a, some (a0, 8, some o)⟩ =
      "P:".toList ++ hexLow (a - a0 + o / 8 - 16) ++ ':' :: (name.map fun c => if c == '.' then '_' else c) ++ ['\n'] := by
  have e : ((a - a0) * 8 + o) / 8 = a - a0 + o / 8 := by omega
  have := mesen_row name a a0 8 o ha ha0 hge (by rw [e]; exact hh)
  rw [e] at this
  exact this

/-- …and a label inside the 16-byte header is left out (no underflow) -/
theorem mesen_header_label_omitted (name : List Char) (a a0 u : Nat) (o : Nat) (ha : a < 18446744073709551616)
    (ha0 : a0 < 18446744073709551616) (hh : ((a - a0) * u + o) / 8 < 16) : mesenRow ⟨name, false, a, some (a0, u, some o)⟩ = [] := by
  have hc : (decide (a0 ≤ a) && decide (16 ≤ ((a - a0) * u + o) / 8)) = false := by
    have : ¬ 16 ≤ ((a - a0) * u + o) / 8 := by omega
    simp [this]
  simp only [mesenRow, Bool.false_eq_true, if_false, toUsizeI_nat a ha, toUsizeI_nat a0 ha0, hc]

/-- constants are never in the Mesen table -/
theorem mesen_skips_constants (r : SymRow) (h : r.isConstant = true) : mesenRow r = [] := by
  simp only [mesenRow, h, if_true]

/-- the Mesen table is the concatenation of its rows, in order -/
theorem mesen_rows (rows : List SymRow) : formatMesen rows = rows.flatMap mesenRow := rfl

end Casm.C12
