import Casm.Proofs.IterModel
import Casm.Proofs.AssembleLemmas
import Casm.Proofs.StableId
import Casm.Proofs.KindInv
import Casm.Proofs.FrontOKb
import Casm.Proofs.FrontSyms
import Casm.Proofs.BudgetOne
import Casm.Proofs.FrontUniq
import Casm.Proofs.FrontInv
import Casm.Props.C01
/-!
# C02 — a successful result is a genuine fixed point, never a stale guess

About `Casm.assemble` (model of `asm::assemble`, tied to the implementation by the `asm`
correspondence stream and, per successful run, by the `cert` certificate computed on the
implementation's own final state).

* `success_is_confirmed` — whenever assembly succeeds, under any budget, the emitted bits,
  spans and symbol values were read from a state `d` produced by a pass in which guessing is
  forbidden (`last = true`), in which every item compared equal to its previous value
  (`stable = true`) and which reported nothing.
* `unconfirmed_is_error` — if no such pass exists the outcome is an error, and an error always
  carries a message (`error_has_message`).
* `stable_nonfirst_pass_is_identity` — a stable pass that is not the first one returns the
  state it was given (every item resolver compares its new value, and size, with the previous
  one), provided the state is well-formed (`NodesOK`: no hole in a symbol slot that a node
  uses, labels hold unsized addresses), and `every_pass_output_is_well_formed`.
* `success_is_fixed_point` — **with a budget of at least two passes** the final state `d` of a
  successful assembly is a genuine fixed point: the strict, non-first pass run on `d` is stable,
  silent and returns `d` itself.  `fixed_point_recomputes_every_item` — in that pass every node
  is resolved *on the final state* `d` at its own position and returns `d`; together with
  `Casm.C01.instruction_emits_choice` / `label_is_address` / `chosen_are_smallest` this is the
  statement's "recomputing every instruction from the final symbol values selects one unique
  smallest encoding, which is what was emitted; every label is the address of what follows".
  No hypothesis is left: that no constant node shares its symbol slot with a label node
  (`NoClash`, needed for well-formedness of pass outputs) is proved of every node list the front
  end produces (`front_end_never_clashes`: a node's reference always points at a declaration of
  the node's own kind; declarations are append-only and keep their kind; `#if` splicing adds only
  reference-free nodes).  With budget 1 the only pass is the first one and the statement is
  `success_is_confirmed`.
* `success_recomputes_everything` — **the statement in full for the optimised assembler**: the
  fixed point above is that of the pass as the code runs it, which *skips* the items the static
  optimisation froze in the first pass.  With every mark cleared (`Defs.unfreeze`) the final
  state is still a fixed point: every frozen instruction recomputes, from the final values at its
  final address, to the frozen encoding, every frozen data element to its frozen bits.  Proof
  (`Casm/Proofs/{StaticEval,StaticMatch,ViewCongr,Unfreeze,Recompute,History,Frozen,FullFix}`):
  the analysis is sound (C08), evaluation reads a state only through its values, every resolver
  commutes with clearing the marks, and an invariant of all passes (`Good`) keeps, for each mark,
  the state and context in which the item was frozen, related to the current state so that the
  soundness theorem applies (statically known symbols with a value are marked resolved and never
  change).  Hypothesis `frontOKb`: decidable facts about the front end's output, evaluated by
  every certificate run.  Findings F30–F34 (stale frozen encodings) are the counterexamples the
  proof obligations produced while this theorem was being stated.
* `every_emitted_instruction_is_unique_smallest` — the end-to-end clause for instructions with the
  exception removed: it now holds of every instruction of every successfully assembled program.
-/
namespace Casm.C02

/-- the state `d` comes out of a strict, stable pass whose messages are `r` -/
def ConfirmedBy (st : Static) (nodes : List AstNode) (d : Defs) (r : List String) : Prop :=
  ∃ d0 f, resolveOnce st nodes f true d0 = .ok (d, true, r)

/-- **every successful iteration ends with a strict stable pass**, whatever the budget -/
theorem iteration_confirmed (st : Static) (nodes : List AstNode) (max : Nat) (d0 : Defs) (k : Nat) (d : Defs) (rep : List String)
    (h : resolveIterativelyN st nodes max d0 = .ok (k, d, rep)) :
    ∃ r pre, ConfirmedBy st nodes d r ∧ rep = pre ++ r := by
  unfold resolveIterativelyN at h
  cases hl : iterLoop st nodes max max 0 d0 [] with
  | error e => rw [hl] at h; cases h
  | ok x =>
    obtain ⟨i, d1, rep1, fin⟩ := x
    rw [hl] at h
    cases fin with
    | true =>
      simp only at h
      injection h with h; injection h with h1 h; injection h with h2 h3
      subst h1 h2 h3
      obtain ⟨da, f, r, pre, hp, hr⟩ := iterLoop_fin st nodes max _ _ _ _ _ _ _ hl
      exact ⟨r, pre, ⟨da, f, hp⟩, hr⟩
    | false =>
      simp only at h
      cases hp : resolveOnce st nodes false true d1 with
      | error e => rw [hp] at h; cases e; cases h
      | ok y =>
        obtain ⟨d2, stable, r⟩ := y
        rw [hp] at h
        cases stable with
        | true =>
          simp only [if_true] at h
          injection h with h; injection h with h1 h; injection h with h2 h3
          subst h1 h2 h3
          exact ⟨r, rep1, ⟨d1, false, hp⟩, rfl⟩
        | false => simp at h

/-- a silent iteration was confirmed by a silent pass -/
theorem silent_iteration_confirmed (st : Static) (nodes : List AstNode) (max : Nat) (d0 : Defs) (k : Nat) (d : Defs)
    (h : resolveIterativelyN st nodes max d0 = .ok (k, d, [])) : ConfirmedBy st nodes d [] := by
  obtain ⟨r, pre, hc, hr⟩ := iteration_confirmed st nodes max d0 k d [] h
  have : r = [] := by
    cases pre with
    | nil => simpa using hr.symm
    | cons a t => simp at hr
  rw [this] at hc; exact hc

/-- what a successful `assemble` returns, in terms of the final state `d` -/
structure ReadFrom (st : Static) (nodes : List AstNode) (d : Defs) (res : AsmOk) : Prop where
  bits : ∃ bst, buildLoop d.banks ⟨initIter d.banks, fillBanks d.banks [], [], []⟩ (outputItems st d nodes) = .ok bst ∧
    res.bits = bst.out ∧ res.spans = bst.spans
  symbols : res.symbols = symbolListing st.decls d

/-- **C02, success side.** Whenever assembly succeeds — any program, any budget, any
    optimisation switches — there is a final state `d` from which bits, spans and symbols are
    read, and `d` was produced by a strict (`last`), stable, silent pass. -/
theorem success_is_confirmed (opts : Opts) (fs : SrcFiles) (roots : List (List Char)) (res : AsmOk)
    (h : assemble opts fs roots = .ok res) :
    ∃ st nodes defs0 d, frontEnd opts fs roots = .ok (st, nodes, defs0) ∧
      ConfirmedBy st nodes d [] ∧ ReadFrom st nodes d res := by
  unfold assemble at h
  cases hf : frontEnd opts fs roots with
  | error e => rw [hf] at h; cases h
  | ok x =>
    obtain ⟨st, nodes, defs0⟩ := x
    rw [hf] at h
    simp only at h
    cases hr : resolveIteratively st nodes defs0 with
    | error e => rw [hr] at h; cases h
    | ok y =>
      obtain ⟨iters, d, rep⟩ := y
      rw [hr] at h
      simp only at h
      cases rep with
      | cons a t => simp at h
      | nil =>
        refine ⟨st, nodes, defs0, d, rfl, silent_iteration_confirmed st nodes _ defs0 iters d hr, ?_⟩
        simp only [List.isEmpty_nil, Bool.not_true, Bool.false_eq_true, if_false] at h
        split at h
        · cases h
        · split at h
          · cases h
          · split at h
            · cases h
            · rename_i bst hb
              injection h with h
              subst h
              exact ⟨⟨bst, hb, rfl, rfl⟩, rfl⟩

/-- **C02, failure side.** If no strict, stable, silent pass exists for the program (no
    consistent state can be confirmed), the outcome is an error, not output. -/
theorem unconfirmed_is_error (opts : Opts) (fs : SrcFiles) (roots : List (List Char))
    (h : ∀ st nodes defs0 d, frontEnd opts fs roots = .ok (st, nodes, defs0) → ¬ ConfirmedBy st nodes d []) :
    ∃ msgs, assemble opts fs roots = .error msgs := by
  cases ha : assemble opts fs roots with
  | error msgs => exact ⟨msgs, rfl⟩
  | ok res =>
    obtain ⟨st, nodes, defs0, d, hf, hc, _⟩ := success_is_confirmed opts fs roots res ha
    exact absurd hc (h st nodes defs0 d hf)

/-- an error is never silent -/
theorem error_has_message (opts : Opts) (fs : SrcFiles) (roots : List (List Char)) (msgs : List String)
    (h : assemble opts fs roots = .error msgs) : msgs ≠ [] := assemble_error_nonempty opts fs roots msgs h

/-! ## the final state is a fixed point -/

/-- **a stable pass that is not the first one changes nothing** (on well-formed states) -/
theorem stable_nonfirst_pass_is_identity (st : Static) (nodes : List AstNode) (last : Bool) (d0 d : Defs) (rep : List String)
    (h : resolveOnce st nodes false last d0 = .ok (d, true, rep)) (hok : NodesOK d0 nodes) : d = d0 :=
  resolveOnce_stable_id st nodes last d0 d rep h hok

/-- **every state returned by a pass is well-formed**, whatever the pass was given -/
theorem every_pass_output_is_well_formed (st : Static) (nodes : List AstNode) (first last : Bool) (d0 d : Defs) (s : Bool) (rep : List String)
    (h : resolveOnce st nodes first last d0 = .ok (d, s, rep)) (hwf : NoClash nodes) : NodesOK d nodes :=
  pass_establishes_ok st nodes first last d0 d s rep h hwf

/-- the state is a fixed point of the strict pass: stable, silent, unchanged -/
def FixedPoint (st : Static) (nodes : List AstNode) (d : Defs) : Prop :=
  resolveOnce st nodes false true d = .ok (d, true, [])

/-- **C02.** Whenever assembly succeeds — with any budget of at least one pass — the state from
    which the output is read is a fixed point of the strict pass.  (With a budget of one pass the only
    pass is first, strict and stable; that its result is a fixed point of the later strict pass is
    `Casm.Proofs.CornerLast`, which needs the front end's `Uniq` and `NodesOK`, both proved of it.) -/
theorem success_is_fixed_point_at_every_budget (opts : Opts) (fs : SrcFiles) (roots : List (List Char)) (res : AsmOk)
    (hb : 1 ≤ opts.maxIter) (h : assemble opts fs roots = .ok res) :
    ∃ st nodes defs0 d, frontEnd opts fs roots = .ok (st, nodes, defs0) ∧
      FixedPoint st nodes d ∧ ReadFrom st nodes d res := by
  unfold assemble at h
  cases hf : frontEnd opts fs roots with
  | error e => rw [hf] at h; cases h
  | ok x =>
    obtain ⟨st, nodes, defs0⟩ := x
    rw [hf] at h
    simp only at h
    have hst : st.opts = opts := (frontEnd_opts opts fs roots st nodes defs0 hf).1
    cases hr : resolveIteratively st nodes defs0 with
    | error e => rw [hr] at h; cases h
    | ok y =>
      obtain ⟨iters, d, rep⟩ := y
      rw [hr] at h
      simp only at h
      cases rep with
      | cons a t => simp at h
      | nil =>
        refine ⟨st, nodes, defs0, d, rfl, ?_, ?_⟩
        · have hwf : NoClash nodes := frontEnd_noClash opts fs roots st nodes defs0 hf
          unfold resolveIteratively at hr
          obtain ⟨r, pre, hfix, hrep⟩ := resolveIterativelyN_fixed_point_any st nodes st.opts.maxIter (by rw [hst]; exact hb) hwf
            (frontEnd_uniq opts fs roots st nodes defs0 hf) defs0 (frontEnd_nodesOK opts fs roots st nodes defs0 hf) iters d [] hr
          have : r = [] := by
            cases pre with
            | nil => simpa using hrep.symm
            | cons a t => simp at hrep
          rw [this] at hfix
          exact hfix
        · simp only [List.isEmpty_nil, Bool.not_true, Bool.false_eq_true, if_false] at h
          split at h
          · cases h
          · split at h
            · cases h
            · split at h
              · cases h
              · rename_i bst hbuild
                injection h with h
                subst h
                exact ⟨⟨bst, hbuild, rfl, rfl⟩, rfl⟩

/-- the same with the budget of at least two passes the earlier statements assumed -/
theorem success_is_fixed_point (opts : Opts) (fs : SrcFiles) (roots : List (List Char)) (res : AsmOk)
    (hb : 2 ≤ opts.maxIter) (h : assemble opts fs roots = .ok res) :
    ∃ st nodes defs0 d, frontEnd opts fs roots = .ok (st, nodes, defs0) ∧
      FixedPoint st nodes d ∧ ReadFrom st nodes d res :=
  success_is_fixed_point_at_every_budget opts fs roots res (by omega) h

/-- the state with every first-pass mark cleared is a fixed point of the strict pass: recomputing
    **every** item — also those the static optimisation froze in the first pass — from the final
    values reproduces the state from which the output is read -/
def FullFixedPoint (st : Static) (nodes : List AstNode) (d : Defs) : Prop :=
  resolveOnce st nodes false true d.unfreeze = .ok (d.unfreeze, true, [])

/-- **C02, the statement in full for the optimised assembler.**  Whenever assembly succeeds with
    the static optimisation on and any budget of at least one pass, recomputing every instruction,
    data element, label and constant from the final state — nothing skipped — is stable, silent and
    reproduces that state.  No hypothesis on the program is left: what the proof needs about the
    front end's output (`FrontOK`) is proved of the front end (`frontEnd_frontOK`); its decision
    procedure `frontOKb` is still evaluated by the certificate of every correspondence run. -/
theorem success_recomputes_everything_at_every_budget (opts : Opts) (fs : SrcFiles) (roots : List (List Char)) (res : AsmOk)
    (hb : 1 ≤ opts.maxIter) (ho : opts.optStatic = true) (h : assemble opts fs roots = .ok res) :
    ∃ st nodes defs0 d, frontEnd opts fs roots = .ok (st, nodes, defs0) ∧ ReadFrom st nodes d res ∧
      FullFixedPoint st nodes d := by
  obtain ⟨st, nodes, defs0, d, hf, _, hread⟩ := success_is_fixed_point_at_every_budget opts fs roots res hb h
  have hst : st.opts = opts := (frontEnd_opts opts fs roots st nodes defs0 hf).1
  -- the same final state `d`: re-derive it from the iteration
  unfold assemble at h
  rw [hf] at h
  simp only at h
  cases hr : resolveIteratively st nodes defs0 with
  | error e => rw [hr] at h; cases h
  | ok y =>
    obtain ⟨iters, d', rep⟩ := y
    rw [hr] at h
    simp only at h
    cases rep with
    | cons a t => simp at h
    | nil =>
      have hread' : ReadFrom st nodes d' res := by
        simp only [List.isEmpty_nil, Bool.not_true, Bool.false_eq_true, if_false] at h
        split at h
        · cases h
        · split at h
          · cases h
          · split at h
            · cases h
            · rename_i bst hbuild
              injection h with h
              subst h
              exact ⟨⟨bst, hbuild, rfl, rfl⟩, rfl⟩
      refine ⟨st, nodes, defs0, d', hf, hread', ?_⟩
      have hwf : NoClash nodes := frontEnd_noClash opts fs roots st nodes defs0 hf
      have ho' : st.opts.optStatic = true := by rw [hst]; exact ho
      have f := frontEnd_frontOK opts ho fs roots st nodes defs0 hf
      unfold resolveIteratively at hr
      obtain ⟨r, pre, hfix, hrep⟩ := resolveIterativelyN_full_fixed_point_any st nodes defs0 f st.opts.maxIter
        (by rw [hst]; exact hb) ho' hwf (frontEnd_uniq opts fs roots st nodes defs0 hf) (frontEnd_nodesOK opts fs roots st nodes defs0 hf) iters d' [] hr
      have : r = [] := by
        cases pre with
        | nil => simpa using hrep.symm
        | cons a t => simp at hrep
      rw [this] at hfix
      exact hfix

theorem success_recomputes_everything (opts : Opts) (fs : SrcFiles) (roots : List (List Char)) (res : AsmOk)
    (hb : 2 ≤ opts.maxIter) (ho : opts.optStatic = true) (h : assemble opts fs roots = .ok res) :
    ∃ st nodes defs0 d, frontEnd opts fs roots = .ok (st, nodes, defs0) ∧ ReadFrom st nodes d res ∧
      FullFixedPoint st nodes d :=
  success_recomputes_everything_at_every_budget opts fs roots res (by omega) ho h

/-- **In a fixed point every item recomputes to itself**: each node of the program, at its own
    position, is resolved on the final state `d` and returns `d`, stable. -/
theorem fixed_point_recomputes_every_item (st : Static) (nodes : List AstNode) (d : Defs)
    (hfix : FixedPoint st nodes d) (hok : NodesOK d nodes) (pre post : List AstNode) (n : AstNode) (hsplit : nodes = pre ++ n :: post) :
    ∃ ps ps1, passNodes st false true pre ⟨d, initIter d.banks, [], true, []⟩ = .ok ps ∧ ps.defs = d ∧
      passNodes.go st false true n 0 (nodeElems n) ps = .ok ps1 ∧ ps1.defs = d ∧ ps1.stable = true :=
  fixed_point_at_every_node st nodes true d [] hfix hok pre post n hsplit

theorem evalFuel_succ : evalFuel = (evalFuel - 1) + 1 := by unfold evalFuel; omega

/-- **The statement of C02 for instructions, end to end.**  In a fixed point, every instruction
    that is not short-cut by the static optimisation satisfies: evaluating all its candidate
    rules on the *final* state, at the instruction's own position, in strict mode, resolves some
    of them to sized encodings `rs`; exactly one of those has the smallest size; and that one is
    the encoding stored for (and emitted by) the instruction. -/
theorem emitted_instruction_is_unique_smallest (st : Static) (nodes : List AstNode) (d : Defs)
    (hfix : FixedPoint st nodes d) (hok : NodesOK d nodes)
    (pre post : List AstNode) (src : List Char) (ref : Nat) (hsplit : nodes = pre ++ AstNode.instr src (some ref) :: post)
    (hin : ref < d.instrs.length) (hunres : (d.instrs.getD ref default).resolved = false) :
    ∃ (ctx : RCtx) (rs : List Resolution) (c : ECtx) (i : Nat),
      ctx.first = false ∧ ctx.last = true ∧
      resolveMatches st d (evalFuel - 1) ctx ((d.instrs.getD ref default).cands.map (·.m)) {} [] = .ok (rs, c) ∧
      chooseEncoding false rs = (some [(i, (d.instrs.getD ref default).encoding)], []) ∧
      (∀ j b, j < rs.length → rs.getD j .unresolved = .resolved b →
        (d.instrs.getD ref default).encoding.size.getD 0 ≤ b.size.getD 0) := by
  obtain ⟨ps, ps1, _, hd0, hg, hd1, hs1⟩ := fixed_point_recomputes_every_item st nodes d hfix hok pre post _ hsplit
  -- one resolver step for an instruction node
  simp only [nodeElems, passNodes.go] at hg
  cases hp : passNode st false true ps (AstNode.instr src (some ref)) 0 with
  | error e => rw [hp] at hg; cases hg
  | ok psx =>
    rw [hp] at hg
    simp only at hg
    injection hg with hg
    subst hg
    rw [passNode_eq] at hp
    simp only at hp
    split at hp
    · cases hp
    · rename_i it hv
      split at hp
      · cases hp
      · rename_i defs' stable reported hdisp
        split at hp
        · cases hp
        · injection hp with hp
          subst hp
          simp only at hd1 hs1
          have hst : stable = true := by
            simp only [Bool.and_eq_true] at hs1; exact hs1.2
          subst hst
          subst hd1
          rw [hd0] at hdisp
          have hdisp' : resolveInstruction st defs' ⟨false, true, ps.symCtx, it.bank, it.pos⟩ ref = .ok (defs', true, reported) := hdisp
          obtain ⟨encs, rep, e, henc, hhead, hstored⟩ :=
            Casm.C01.instruction_emits_choice st defs' defs' _ ref true reported hunres hin hdisp' rfl
          rw [evalFuel_succ] at henc
          simp only [resolveEncoding] at henc
          cases hm : resolveMatches st defs' (evalFuel - 1) ⟨false, true, ps.symCtx, it.bank, it.pos⟩
              ((defs'.instrs.getD ref default).cands.map (·.m)) {} [] with
          | error m => rw [hm] at henc; cases henc
          | ok x =>
            obtain ⟨rs, c⟩ := x
            rw [hm] at henc
            simp only at henc
            injection henc with henc
            have hcg : (⟨false, true, ps.symCtx, it.bank, it.pos⟩ : RCtx).canGuess = false := rfl
            rw [hcg] at henc
            obtain ⟨e1, he1⟩ := Casm.C01.strict_unique_choice rs encs rep henc
            have hrep : rep = [] := (Casm.C01.choose_some henc).2.1
            subst he1
            simp only [List.head?_cons] at hhead
            injection hhead with hhead
            subst hhead
            refine ⟨_, rs, c, e1.1, rfl, rfl, hm, ?_, ?_⟩
            · rw [henc, hrep, hstored]
            · intro j b hj hb
              have := Casm.C01.chosen_are_smallest false rs [e1] rep henc e1.1 e1.2 (by simp) j b hj hb
              rw [hstored]; exact this

/-- **The statement of C02 for labels.**  In a fixed point every label's final value is the
    address of the position the pass has reached when it arrives at the label (the position at
    which the following item is laid out), computed in strict mode from the final state. -/
theorem label_value_is_its_position (st : Static) (nodes : List AstNode) (d : Defs)
    (hfix : FixedPoint st nodes d) (hok : NodesOK d nodes)
    (pre post : List AstNode) (level : Nat) (name : String) (ne : Bool) (ref : Nat)
    (hsplit : nodes = pre ++ AstNode.symbol level name .label ne (some ref) :: post) (hin : ref < d.symbols.length) :
    ∃ (ps : PassSt) (it : IterSt) (a : Int),
      passNodes st false true pre ⟨d, initIter d.banks, [], true, []⟩ = .ok ps ∧
      visit d.banks ps.it (.label (st.decls.symbols.decls.getD ref default).depth
          (match (d.sym ref).value with | .int b => b.v | _ => 0)) = .ok it ∧
      evalAddress d ⟨false, true, (st.decls.symbols.decls.getD ref default).ctx, it.bank, it.pos⟩ false = .ok a ∧
      (d.sym ref).value = .int ⟨a, none⟩ := by
  obtain ⟨ps, ps1, hpre, hd0, hg, hd1, hs1⟩ := fixed_point_recomputes_every_item st nodes d hfix hok pre post _ hsplit
  simp only [nodeElems, passNodes.go] at hg
  cases hp : passNode st false true ps (AstNode.symbol level name .label ne (some ref)) 0 with
  | error e => rw [hp] at hg; cases hg
  | ok psx =>
    rw [hp] at hg
    simp only at hg
    injection hg with hg
    subst hg
    rw [passNode_eq] at hp
    simp only at hp
    split at hp
    · cases hp
    · rename_i it hv
      split at hp
      · cases hp
      · rename_i defs' stable reported hdisp
        split at hp
        · cases hp
        · injection hp with hp
          subst hp
          simp only at hd1
          subst hd1
          rw [hd0] at hdisp hv
          have hdisp' : resolveLabel st defs' ⟨false, true, (st.decls.symbols.decls.getD ref default).ctx, it.bank, it.pos⟩ ref =
              .ok (defs', stable, reported) := hdisp
          obtain ⟨a, ha, hval⟩ := Casm.C01.label_is_address st defs' defs' _ ref stable reported hin hdisp'
          exact ⟨ps, it, a, hpre, hv, ha, hval⟩

/-- **the front end never lets a constant and a label share a symbol slot** -/
theorem front_end_never_clashes (opts : Opts) (fs : SrcFiles) (roots : List (List Char)) (st : Static) (nodes : List AstNode) (defs : Defs)
    (h : frontEnd opts fs roots = .ok (st, nodes, defs)) : NoClash nodes :=
  frontEnd_noClash opts fs roots st nodes defs h

/-- `NoClash` is also decidable; the certificate of every correspondence run evaluates it -/
theorem noClash_of_refsWF (nodes : List AstNode) (h : refsWF nodes = true) : NoClash nodes := refsWF_noClash nodes h


/-- unfreezing changes neither symbols nor encodings -/
theorem nodesOK_unfreeze (d : Defs) (nodes : List AstNode) (h : NodesOK d nodes) : NodesOK d.unfreeze nodes :=
  fun n hn => (NodeOK_congr (d := d) (d' := d.unfreeze) rfl n).mpr (h n hn)

/-- **The statement of C02 for instructions, end to end and without exception.**  Whenever the
    optimised assembler succeeds (any budget of at least one pass), *every* instruction of the program — whether or not
    the static optimisation froze it in the first pass — satisfies: evaluating all its candidate
    rules on the final state, at the instruction's own position, in strict mode, resolves some of
    them; exactly one of those has the smallest size; and that one is the emitted encoding. -/
theorem every_emitted_instruction_is_unique_smallest (opts : Opts) (fs : SrcFiles) (roots : List (List Char)) (res : AsmOk)
    (hb : 1 ≤ opts.maxIter) (ho : opts.optStatic = true) (h : assemble opts fs roots = .ok res) :
    ∃ st nodes defs0 d, frontEnd opts fs roots = .ok (st, nodes, defs0) ∧ ReadFrom st nodes d res ∧
      ∀ (pre post : List AstNode) (src : List Char) (ref : Nat), nodes = pre ++ AstNode.instr src (some ref) :: post →
        ref < d.instrs.length →
        ∃ (ctx : RCtx) (rs : List Resolution) (c : ECtx) (i : Nat),
          ctx.first = false ∧ ctx.last = true ∧
          resolveMatches st d.unfreeze (evalFuel - 1) ctx ((d.instrs.getD ref default).cands.map (·.m)) {} [] = .ok (rs, c) ∧
          chooseEncoding false rs = (some [(i, (d.instrs.getD ref default).encoding)], []) ∧
          (∀ j b, j < rs.length → rs.getD j .unresolved = .resolved b →
            (d.instrs.getD ref default).encoding.size.getD 0 ≤ b.size.getD 0) := by
  obtain ⟨st, nodes, defs0, d, hf, hread, hfull⟩ := success_recomputes_everything_at_every_budget opts fs roots res hb ho h
  refine ⟨st, nodes, defs0, d, hf, hread, fun pre post src ref hsplit hin => ?_⟩
  have hwf : NoClash nodes := frontEnd_noClash opts fs roots st nodes defs0 hf
  have hok : NodesOK d.unfreeze nodes := pass_establishes_ok st nodes false true d.unfreeze d.unfreeze true [] hfull hwf
  have hin' : ref < d.unfreeze.instrs.length := by simpa [Defs.unfreeze] using hin
  have hun : (d.unfreeze.instrs.getD ref default).resolved = false := by rw [unfreeze_instr]
  obtain ⟨ctx, rs, c, i, h1, h2, h3, h4, h5⟩ :=
    emitted_instruction_is_unique_smallest st nodes d.unfreeze hfull hok pre post src ref hsplit hin' hun
  rw [unfreeze_instr] at h3 h4 h5
  exact ⟨ctx, rs, c, i, h1, h2, h3, h4, h5⟩

end Casm.C02
