import Casm.Model.Assemble
namespace Casm.C02
theorem placeholder : True := trivial
end Casm.C02
