import Casm.Model.Driver
import Casm.Proofs.AssembleLemmas
/-!
# C03 — failure is loud, success is clean (driver outcome logic)

About `Casm.Model.Driver.drive`, for every command line, every assembler answer and every
set of unwritable output files.  The assembler is a parameter; its own contract
("an answer without output carries at least one error") is the hypothesis `AsmLoud`.
`model_assembler_is_loud` discharges that contract for the whole-assembler model
(`Casm.assemble`), so `model_drive_dichotomy` / `model_failure_writes_nothing` hold for the
driver running the modelled assembler with no hypothesis left.
The never-crashes part of C03 is established by the mutation search on the implementation
(and, for the tokenizer and the location printer, by C13's theorems).
-/
namespace Casm.C03

/-- the assembler's contract: a failed assembly reports at least one error -/
def AsmLoud (asm : Command → AsmResult) : Prop := ∀ cmd n, asm cmd = .failed n → 1 ≤ n

def Success (o : RunOutcome) : Prop := o.ok = true ∧ o.errors = [] ∧ o.asmErrors = 0
def Failure (o : RunOutcome) : Prop := o.ok = false ∧ (o.errors ≠ [] ∨ 1 ≤ o.asmErrors)

theorem runGroups_inv (bits : Bits) (spans : List Span) (unw : List String) (gs : List OutGroup) (o : RunOutcome)
    (h : Success o) :
    Success (runGroups bits spans unw gs o) ∨
    (Failure (runGroups bits spans unw gs o) ∧ (runGroups bits spans unw gs o).errors = ["write error"]) := by
  induction gs generalizing o with
  | nil => exact Or.inl h
  | cons g rest ih =>
    unfold runGroups
    cases hf : g.format with
    | none => exact ih o h
    | some f =>
      simp only
      by_cases hp : g.printout = true
      · rw [if_pos hp]; exact ih _ ⟨h.1, h.2.1, h.2.2⟩
      · rw [if_neg hp]
        cases ho : g.outFile with
        | none => exact ih o h
        | some name =>
          simp only
          by_cases hu : unw.contains name = true
          · rw [if_pos hu]
            right
            refine ⟨⟨rfl, Or.inl ?_⟩, ?_⟩
            · simp [h.2.1]
            · simp [h.2.1]
          · rw [if_neg hu]; exact ih _ ⟨h.1, h.2.1, h.2.2⟩

/-- **Dichotomy.** Every run ends as a success (exit 0, no error) or as a failure (non-zero
    exit and at least one error); never "error but exit 0", never "exit 1 without a
    diagnostic". -/
theorem drive_dichotomy (args : List String) (asm : Command → AsmResult) (unw : List String)
    (hasm : AsmLoud asm) : Success (drive args asm unw) ∨ Failure (drive args asm unw) := by
  unfold drive
  cases hc : parseCommand args with
  | error e => right; exact ⟨rfl, Or.inl (by simp)⟩
  | ok cmd =>
    simp only
    split
    · left; exact ⟨rfl, rfl, rfl⟩
    · split
      · right; exact ⟨rfl, Or.inl (by simp)⟩
      · cases ha : asm cmd with
        | failed n => right; exact ⟨rfl, Or.inr (hasm cmd n ha)⟩
        | output bits spans =>
          simp only
          rcases runGroups_inv bits spans unw cmd.groups ⟨true, [], 0, [], 0⟩ ⟨rfl, rfl, rfl⟩ with h | h
          · exact Or.inl h
          · exact Or.inr h.1

theorem runGroups_writes_prefix (bits : Bits) (spans : List Span) (unw : List String) (gs : List OutGroup) (o : RunOutcome) :
    ∃ extra, (runGroups bits spans unw gs o).writes = o.writes ++ extra ∧
      ∀ w ∈ extra, ¬ (unw.contains w.1 = true) := by
  induction gs generalizing o with
  | nil => exact ⟨[], by simp [runGroups], fun w hw => by cases hw⟩
  | cons g rest ih =>
    unfold runGroups
    cases hf : g.format with
    | none => exact ih o
    | some f =>
      simp only
      by_cases hp : g.printout = true
      · rw [if_pos hp]
        obtain ⟨e, h1, h2⟩ := ih { o with prints := o.prints + 1 }
        exact ⟨e, h1, h2⟩
      · rw [if_neg hp]
        cases ho : g.outFile with
        | none => exact ih o
        | some name =>
          simp only
          by_cases hu : unw.contains name = true
          · rw [if_pos hu]; exact ⟨[], by simp, fun w hw => by cases hw⟩
          · rw [if_neg hu]
            obtain ⟨e, h1, h2⟩ := ih { o with writes := o.writes ++ [(name, formatOutputBytes f bits spans)] }
            refine ⟨(name, formatOutputBytes f bits spans) :: e, by simp [h1], ?_⟩
            intro w hw
            rcases List.mem_cons.1 hw with rfl | hw
            · exact hu
            · exact h2 w hw

/-- **No output on failure**, unless the failure is an output file that could not be
    written: if nothing is unwritable, a failed run writes no file at all. -/
theorem runGroups_ok_no_faults (bits : Bits) (spans : List Span) (gs : List OutGroup) (o : RunOutcome)
    (ho : o.ok = true) : (runGroups bits spans [] gs o).ok = true := by
  induction gs generalizing o with
  | nil => exact ho
  | cons g rest ih =>
    unfold runGroups
    cases g.format with
    | none => exact ih o ho
    | some f =>
      simp only
      split
      · exact ih _ ho
      · cases g.outFile with
        | none => exact ih o ho
        | some name => simp only [List.contains_nil, Bool.false_eq_true, if_false]; exact ih _ ho

theorem failure_writes_nothing (args : List String) (asm : Command → AsmResult)
    (hf : (drive args asm []).ok = false) : (drive args asm []).writes = [] := by
  unfold drive at hf ⊢
  cases hc : parseCommand args with
  | error e => rfl
  | ok cmd =>
    simp only [hc] at hf ⊢
    by_cases h1 : (cmd.showHelp || cmd.showVersion) = true
    · rw [if_pos h1]
    · rw [if_neg h1] at hf ⊢
      by_cases h2 : cmd.inputs.length < 1
      · rw [if_pos h2]
      · rw [if_neg h2] at hf ⊢
        cases ha : asm cmd with
        | failed n => rfl
        | output bits spans =>
          simp only [ha] at hf ⊢
          have hk := runGroups_ok_no_faults bits spans cmd.groups ⟨true, [], 0, [], 0⟩ rfl
          rw [hk] at hf; cases hf

/-- when an output file cannot be written, nothing is written to that file and the run fails -/
theorem unwritable_not_written (args : List String) (asm : Command → AsmResult) (unw : List String) :
    ∀ w ∈ (drive args asm unw).writes, ¬ (unw.contains w.1 = true) := by
  unfold drive
  cases parseCommand args with
  | error e => intro w hw; cases hw
  | ok cmd =>
    simp only
    split
    · intro w hw; cases hw
    · split
      · intro w hw; cases hw
      · cases asm cmd with
        | failed n => intro w hw; cases hw
        | output bits spans =>
          simp only
          obtain ⟨e, h1, h2⟩ := runGroups_writes_prefix bits spans unw cmd.groups ⟨true, [], 0, [], 0⟩
          rw [h1]; simpa using h2

/-! ## the modelled assembler satisfies the contract -/

/-- the driver's view of the whole-assembler model over a fixed set of source files -/
def modelAsm (fs : SrcFiles) (cmd : Command) : AsmResult :=
  let opts : Opts :=
    { maxIter := cmd.maxIter, optStatic := cmd.optStatic, optMatcher := cmd.optMatcher
      defines := cmd.defines.map fun d => (d.1, match d.2 with | .bool b => Value.bool b | .int v sz => Value.int ⟨v, sz⟩) }
  match assemble opts fs (cmd.inputs.map String.toList) with
  | .ok r => .output r.bits (r.spans.map fun s => ⟨s.offset, s.size⟩)
  | .error msgs => .failed msgs.length

/-- **the modelled assembler never fails silently** -/
theorem model_assembler_is_loud (fs : SrcFiles) : AsmLoud (modelAsm fs) := by
  intro cmd n h
  unfold modelAsm at h
  simp only at h
  split at h
  · cases h
  · rename_i msgs he
    injection h with h
    subst h
    have := assemble_error_nonempty _ _ _ msgs he
    cases msgs with
    | nil => exact absurd rfl this
    | cons a t => simp

/-- the dichotomy for the driver running the modelled assembler: no hypothesis left -/
theorem model_drive_dichotomy (args : List String) (fs : SrcFiles) (unw : List String) :
    Success (drive args (modelAsm fs) unw) ∨ Failure (drive args (modelAsm fs) unw) :=
  drive_dichotomy args (modelAsm fs) unw (model_assembler_is_loud fs)

theorem model_failure_writes_nothing (args : List String) (fs : SrcFiles)
    (hf : (drive args (modelAsm fs) []).ok = false) : (drive args (modelAsm fs) []).writes = [] :=
  failure_writes_nothing args (modelAsm fs) hf

end Casm.C03
