import Casm.Model.Assemble
import Casm.Proofs.WalkerLemmas
/-!
# C07 — instruction matching ignores case, extra spacing, comments and rule order

About the matcher model (`Casm.Model.Matcher`, `Casm.Model.Walker`, `Casm.Model.Token`).

* case: `exact_part_ignores_case` — an exact pattern part accepts a character iff their ASCII
  lower-casings agree (either side may be recased), and `maybeExpectChar_pattern_case`.
* spacing: `skipIgnorable_blank_run` — any run of blanks and tabs in front of a token is skipped
  by exact parts and parameters exactly like no run at all (so widening a run, swapping blanks
  and tabs, or inserting a run changes nothing at that place); `blank_run_is_one_token`.
* comments: `comment_is_ignorable` — a `;…` comment is one ignorable token.
* rule order: `rule_order_irrelevant` — trying the candidate rules in another order gives a
  permutation of the same matches; `selected_have_max_literals`/`literal_beats_expression` —
  only matches with the largest count of literal pattern parts survive, whatever the order.

Not theorems (search + correspondence only): invariance of whole-program results under
re-partition into blocks and label renaming, and the interplay of the lookahead cut with
blanks (finding F22 shows where added blanks legitimately matter: whitespace pattern parts).
-/
namespace Casm.C07

/-! ## case -/

theorem exact_part_ignores_case (a a' c c' : Char) (ha : lowerAscii a = lowerAscii a') (hc : lowerAscii c = lowerAscii c') :
    eqIgnoreAsciiCase a c = eqIgnoreAsciiCase a' c' := by
  simp [eqIgnoreAsciiCase, ha, hc]

/-- the case in which a rule spells a literal never matters -/
theorem maybeExpectChar_pattern_case (w : MW) (c c' : Char) (hc : lowerAscii c = lowerAscii c') :
    w.maybeExpectChar c = w.maybeExpectChar c' := by
  unfold MW.maybeExpectChar
  simp only
  split
  · rfl
  · rename_i ch _ _
    rw [exact_part_ignores_case ch ch c c' rfl hc]

example : eqIgnoreAsciiCase 'L' 'l' = true := by decide
example : eqIgnoreAsciiCase 'l' 'D' = false := by decide

/-! ## spacing and comments -/

/-- **a run of blanks and tabs in front of a token is skipped like no run at all** — this is
    what every exact pattern part and every parameter does before it looks at the text -/
theorem blank_run_skipped (ws s : List Char) (hws : ∀ c ∈ ws, isWhitespace c = true)
    (hs : ∀ c, s.head? = some c → isWhitespace c = false) :
    skipIgnorable (ws ++ s) = skipIgnorable s := skipIgnorable_blank_run ws s hws hs

/-- widening a run, or swapping blanks for tabs, changes nothing -/
theorem blank_runs_interchangeable (ws ws' s : List Char) (h : ∀ c ∈ ws, isWhitespace c = true) (h' : ∀ c ∈ ws', isWhitespace c = true)
    (hs : ∀ c, s.head? = some c → isWhitespace c = false) :
    skipIgnorable (ws ++ s) = skipIgnorable (ws' ++ s) := by
  rw [skipIgnorable_blank_run ws s h hs, skipIgnorable_blank_run ws' s h' hs]

/-- an exact pattern part sees the same remaining text with and without the run -/
theorem exact_part_after_blank_run (ws s : List Char) (pos pos' : Nat) (c : Char) (hws : ∀ c ∈ ws, isWhitespace c = true)
    (hs : ∀ c, s.head? = some c → isWhitespace c = false) :
    ((⟨ws ++ s, (ws ++ s).length, pos⟩ : MW).maybeExpectChar c).map (·.rest) =
    ((⟨s, s.length, pos'⟩ : MW).maybeExpectChar c).map (·.rest) := by
  unfold MW.maybeExpectChar MW.vis
  simp only [List.take_length]
  rw [skipIgnorable_blank_run ws s hws hs]
  have hl := skipIgnorable_length s
  cases hv : skipIgnorable s with
  | nil => rfl
  | cons ch rest =>
    simp only
    rw [hv] at hl
    split
    · simp only [Option.map_some, MW.advance, List.length_append]
      congr 1
      have : ws.length + s.length - (ch :: rest).length + 1 = ws.length + (s.length - (ch :: rest).length + 1) := by
        simp only [List.length_cons] at hl ⊢; omega
      rw [this, List.drop_append]
      simp
    · rfl

/-- a `;` comment up to the end of the line is one ignorable token: whatever it contains
    (even text that looks like an instruction) is skipped -/
theorem comment_is_ignorable (rest : List Char) (h : ∀ c, rest.head? = some c → c ≠ '*') :
    (tokenAt (';' :: rest)).kind.isIgnorable = true ∧
    (tokenAt (';' :: rest)).text = ';' :: rest.take (spanLen (fun c => c != '\n') rest) := by
  rw [tokenAt_line_comment rest h]
  exact ⟨comment_ignorable, rfl⟩

example : skipIgnorable " \t  ld".toList = "ld".toList := by decide
example : skipIgnorable "; ld 1, 2\nadd".toList = "add".toList := by decide

/-- **the look-ahead cut skips a comment as a whole**: whatever the comment holds — the character
    looked for, parentheses, braces — has no effect, and a comment does not count as a token already seen
    (finding F43, repaired: the scan used to run over the raw characters of the comment) -/
theorem lookahead_skips_comments (wanted : Char) (fuel : Nat) (cs : List Char) (idx : Nat) (seen : Bool) (paren brace : Nat) :
    lookaheadScan wanted (fuel + 1) (';' :: cs) idx seen paren brace =
      (let n := (decideNextToken (';' :: cs)).2
       let n := if n == 0 then 1 else n
       lookaheadScan wanted fuel ((';' :: cs).drop n) (idx + n) seen paren brace) := by
  rw [lookaheadScan]
  simp

/-- **the look-ahead cut steps over a string literal as a whole**: no character inside the quotes is taken for the
    separator, a bracket or a comment sign, and the literal counts as a token seen (finding F63, repaired) -/
theorem lookahead_skips_strings (wanted : Char) (fuel : Nat) (cs : List Char) (idx : Nat) (seen : Bool) (paren brace : Nat)
    (h : (decideNextToken ('"' :: cs)).1 = .String) :
    lookaheadScan wanted (fuel + 1) ('"' :: cs) idx seen paren brace =
      (let n := (decideNextToken ('"' :: cs)).2
       let n := if n == 0 then 1 else n
       lookaheadScan wanted fuel (('"' :: cs).drop n) (idx + n) true paren brace) := by
  rw [lookaheadScan]
  simp [h]

/-- **the blank a pattern spells is satisfied by a comment too** (`ld;* c *;a` for the pattern `ld a`) -/
theorem pattern_blank_accepts_a_comment (defs : List Ruledef) (fuel : Nat) (rule : Rule) (rest : List RPart) (w : MW)
    (consumeAll : Bool) (m : IMatch) (h : (tokenAt w.vis).kind = .Comment) :
    matchWithRule defs (fuel + 1) rule (.whitespace :: rest) w consumeAll m = matchWithRule defs fuel rule rest w consumeAll m := by
  rw [matchWithRule]
  simp [h]

/-! ## rule order -/

/-- **trying the rules in another order yields the same matches** (as a multiset) -/
theorem rule_order_irrelevant (defs : List Ruledef) (src : List Char) (cands cands' : List (Nat × Nat))
    (h : cands.Perm cands') : (workingOf defs src cands).Perm (workingOf defs src cands') := by
  unfold workingOf
  exact List.Perm.flatMap_right _ h

theorem foldl_max_ge (l : List Nat) (a : Nat) : a ≤ l.foldl max a ∧ ∀ x ∈ l, x ≤ l.foldl max a := by
  induction l generalizing a with
  | nil => simp
  | cons y t ih =>
    simp only [List.foldl_cons, List.mem_cons]
    obtain ⟨h1, h2⟩ := ih (max a y)
    refine ⟨Nat.le_trans (Nat.le_max_left a y) h1, ?_⟩
    intro x hx
    rcases hx with rfl | hx
    · exact Nat.le_trans (Nat.le_max_right a x) h1
    · exact h2 x hx

/-- **only matches with the largest count of literal pattern parts are kept** -/
theorem selected_have_max_literals (defs : List Ruledef) (w : Working) (m : IMatch) (hm : m ∈ selectMatches defs w) :
    ∀ m' ∈ dedupMatches (w.map (·.1)) [], exactCountRec defs m' ≤ exactCountRec defs m := by
  intro m' hm'
  unfold selectMatches at hm
  simp only at hm
  split at hm
  · cases hm
  · rw [List.mem_filter] at hm
    have heq : exactCountRec defs m = ((dedupMatches (w.map (·.1)) []).map (exactCountRec defs)).foldl max 0 := by
      simpa using hm.2
    rw [heq]
    exact (foldl_max_ge _ 0).2 _ (List.mem_map.mpr ⟨m', hm', rfl⟩)

/-- **a rule that spells an operand literally beats one that reads it as an expression**: a
    match with fewer literal parts than another surviving candidate is never selected -/
theorem literal_beats_expression (defs : List Ruledef) (w : Working) (mLit mExpr : IMatch)
    (hl : mLit ∈ dedupMatches (w.map (·.1)) []) (hlt : exactCountRec defs mExpr < exactCountRec defs mLit) :
    mExpr ∉ selectMatches defs w := by
  intro h
  have := selected_have_max_literals defs w mExpr h mLit hl
  omega

end Casm.C07
