import Casm.Model.Assemble
import Casm.Proofs.IterModel
import Casm.Proofs.BitsLemmas
/-!
# C19 — resource limits are diagnosed, not crashed into

The limits the code enforces, as theorems about the model (the limits themselves are
re-extracted from the source on every run: `Casm/Gen/Consts.lean`):

* `parse_depth_limit` — an expression nested `PARSE_RECURSION_DEPTH_MAX` deep is answered with
  the depth error (parentheses, unary chains, blocks, call arguments, slices all re-enter
  `parseExpr`/`parseUnary` through this counter);
* `fn_depth_limit`, `asm_depth_limit` — function calls and asm blocks nested
  `EVAL_RECURSION_DEPTH_MAX` deep are answered with the recursion error;
* `add_capped`, `sub_capped`, `mul_capped`, `shl_capped` — a result of `+ - * <<` that is
  returned has fewer than `BIGINT_MAX_BITS` bits (so values cannot grow without bound);
  `shl_amount_limited` — a shift amount of `2^32` or more is an error;
* `toUsize_rejects` — conversions to a machine word reject negatives and values `≥ 2^64`;
  `res_beyond_range_is_error` — a reservation of `2^32` or more is an error;
* `passes_bounded` — the number of passes never exceeds the budget (+ one confirming pass).

**Not bounded by the code** (findings F14a–F14f, exhibited on the real binary by the check, no
theorem possible): the height of operator chains built by the parser's loops, `#if` nesting,
the number of lookahead combinations of the matcher, and the sizes asked for by slices, width
suffixes, alignments, addresses and output offsets.
-/
namespace Casm.C19

theorem parse_depth_limit (fuel d : Nat) (s : Src) (h : Gen.PARSE_RECURSION_DEPTH_MAX ≤ d) :
    parseExpr (fuel + 1) d s = .error depthErr := by
  have : d + 1 > Gen.PARSE_RECURSION_DEPTH_MAX := by omega
  simp only [parseExpr, this, if_true]

theorem fn_depth_limit (st : Static) (defs : Defs) (fuel : Nat) (ctx : RCtx) (idx : Nat) (args : List Value) (ectx : ECtx)
    (hd : Gen.EVAL_RECURSION_DEPTH_MAX ≤ ectx.depth) :
    (mkEnv st defs (fuel + 1) ctx).fn (.fn idx) args ectx = .error recursionErr := by
  have h1 : ectx.depth ≥ Gen.EVAL_RECURSION_DEPTH_MAX := hd
  simp only [mkEnv, h1, if_true]

theorem asm_depth_limit (st : Static) (defs : Defs) (fuel : Nat) (ctx : RCtx) (text : List Char) (ectx : ECtx)
    (hd : Gen.EVAL_RECURSION_DEPTH_MAX ≤ ectx.depth) :
    (mkEnv st defs (fuel + 2) ctx).asm text ectx = .error recursionErr := by
  have h1 : ectx.depth ≥ Gen.EVAL_RECURSION_DEPTH_MAX := hd
  simp only [mkEnv, evalAsm, h1, if_true]

/-! ## magnitudes of arithmetic results -/

theorem natAbs_lt_of_bitLen (x : Int) (k : Nat) (h : bitLen x ≤ k) : x.natAbs < 2 ^ k :=
  (nbits_le_iff _ _).mp h

theorem bitLen_le_of_natAbs_lt (x : Int) (k : Nat) (h : x.natAbs < 2 ^ k) : bitLen x ≤ k :=
  (nbits_le_iff _ _).mpr h

theorem add_capped (l r v : Int) (h : checkedAdd l r = .ok v) : bitLen v < Gen.BIGINT_MAX_BITS := by
  unfold checkedAdd at h
  split at h
  · cases h
  · rename_i hlt
    injection h with h; subst h
    have hk : max (bitLen l) (bitLen r) < Gen.BIGINT_MAX_BITS - 1 := by omega
    have hl := natAbs_lt_of_bitLen l (max (bitLen l) (bitLen r)) (Nat.le_max_left _ _)
    have hr := natAbs_lt_of_bitLen r (max (bitLen l) (bitLen r)) (Nat.le_max_right _ _)
    have : (l + r).natAbs < 2 ^ (max (bitLen l) (bitLen r) + 1) := by
      have := Int.natAbs_add_le l r
      rw [Nat.pow_succ]; omega
    have := bitLen_le_of_natAbs_lt _ _ this
    omega

theorem sub_capped (l r v : Int) (h : checkedSub l r = .ok v) : bitLen v < Gen.BIGINT_MAX_BITS := by
  unfold checkedSub at h
  split at h
  · cases h
  · rename_i hlt
    injection h with h; subst h
    have hk : max (bitLen l) (bitLen r) < Gen.BIGINT_MAX_BITS - 2 := by omega
    have hl := natAbs_lt_of_bitLen l (max (bitLen l) (bitLen r)) (Nat.le_max_left _ _)
    have hr := natAbs_lt_of_bitLen r (max (bitLen l) (bitLen r)) (Nat.le_max_right _ _)
    have : (l - r).natAbs < 2 ^ (max (bitLen l) (bitLen r) + 1) := by
      have := Int.natAbs_sub_le l r
      rw [Nat.pow_succ]; omega
    have := bitLen_le_of_natAbs_lt _ _ this
    omega

theorem mul_capped (l r v : Int) (h : checkedMul l r = .ok v) : bitLen v < Gen.BIGINT_MAX_BITS := by
  unfold checkedMul at h
  split at h
  · cases h
  · rename_i hlt
    injection h with h; subst h
    have hk : max (bitLen l) (bitLen r) < Gen.BIGINT_MAX_BITS / 2 := by omega
    have hl := natAbs_lt_of_bitLen l (max (bitLen l) (bitLen r)) (Nat.le_max_left _ _)
    have hr := natAbs_lt_of_bitLen r (max (bitLen l) (bitLen r)) (Nat.le_max_right _ _)
    have : (l * r).natAbs < 2 ^ (max (bitLen l) (bitLen r) + max (bitLen l) (bitLen r)) := by
      rw [Int.natAbs_mul, Nat.pow_add]
      exact Nat.mul_lt_mul'' hl hr
    have := bitLen_le_of_natAbs_lt _ _ this
    have h2 : Gen.BIGINT_MAX_BITS / 2 * 2 ≤ Gen.BIGINT_MAX_BITS := Nat.div_mul_le_self _ _
    omega

theorem shl_capped (l r v : Int) (h : checkedShl l r = .ok v) : bitLen v < Gen.BIGINT_MAX_BITS := by
  unfold checkedShl at h
  split at h
  · split at h
    · cases h
    · rename_i hlt
      injection h with h; subst h
      have hl := natAbs_lt_of_bitLen l (bitLen l) (Nat.le_refl _)
      have : (l * ((2 ^ r.toNat : Nat) : Int)).natAbs < 2 ^ (bitLen l + r.toNat) := by
        rw [Int.natAbs_mul, Int.natAbs_natCast, Nat.pow_add]
        exact Nat.mul_lt_mul_of_lt_of_le hl (Nat.le_refl _) (Nat.two_pow_pos _)
      have := bitLen_le_of_natAbs_lt _ _ this
      omega
  · cases h

/-- a shift amount of `2^32` or more (or a negative one) is an error -/
theorem shl_amount_limited (l r : Int) (h : r < 0 ∨ (4294967296 : Int) ≤ r) : checkedShl l r = .error outOfRange := by
  unfold checkedShl
  have : ¬ (0 ≤ r ∧ r < ((2 ^ 32 : Nat) : Int)) := by
    have h32 : ((2 ^ 32 : Nat) : Int) = 4294967296 := by decide
    rw [h32]; omega
  simp only [this, if_false]

/-- conversions to a machine word reject what does not fit -/
theorem toUsize_rejects (x : Int) (h : x < 0 ∨ (18446744073709551616 : Int) ≤ x) : toUsize x = none := by
  unfold toUsize USIZE_MAX1
  have : ¬ (0 ≤ x ∧ x < ((2 ^ 64 : Nat) : Int)) := by
    have h64 : ((2 ^ 64 : Nat) : Int) = 18446744073709551616 := by decide
    rw [h64]; omega
  simp only [this, if_false]

/-- the number of passes is bounded by the budget -/
theorem passes_bounded (st : Static) (nodes : List AstNode) (max : Nat) (d0 : Defs) (k : Nat) (d : Defs) (rep : List String)
    (h : resolveIterativelyN st nodes max d0 = .ok (k, d, rep)) : k ≤ max :=
  Iter.iters_le_budget (absPass st nodes) max d0 k d (resolveIterativelyN_sim st nodes max d0 k d rep h)

/-- **a bank whose size in bits does not fit a `usize` is rejected** (finding F47, repaired: the size in address
    units was multiplied by the unit without a check): whenever a bank is defined, its size is below 2^64 bits -/
theorem bank_size_fits_usize (d : Decls) (defs : Defs) (b : BankdefAst) (bank : Bank) (h : defineBank d defs b = .ok bank) :
    ∀ s, bank.size = some s → s < USIZE_MAX1 := by
  intro s hs
  unfold defineBank at h
  simp only [bind, Except.bind, pure, Except.pure] at h
  repeat' (split at h <;> try (cases h; done))
  all_goals (injection h with h; subst h; simp only at hs; first | (cases hs; done) | (injection hs with hs; subst hs; assumption))

/-- **a bank's window in the output is addressable** (finding F81, repaired): where a bank has a size and an output offset,
    their sum fits a machine word - so no position inside the bank can wrap around -/
theorem bank_window_fits_usize (d : Decls) (defs : Defs) (b : BankdefAst) (bank : Bank) (h : defineBank d defs b = .ok bank) :
    ∀ s o, bank.size = some s → bank.outp = some o → o + s < USIZE_MAX1 := by
  intro s o hs ho
  unfold defineBank at h
  simp only [bind, Except.bind, pure, Except.pure] at h
  repeat' (split at h <;> try (cases h; done))
  all_goals (injection h with h; subst h; simp only at hs ho)
  all_goals (first
    | (cases hs; done)
    | (cases ho; done)
    | (subst_vars
       rename_i hq
       simp only at hq
       split at hq
       · rename_i hlt
         first
           | exact hlt
           | (injection hs with hs; rw [← hs]; exact hlt)
       · cases hq))

/-- **the static size of a concatenation is the exact sum of the parts' sizes, or unknown** - never the sum modulo 2^64
    (finding F82, repaired) -/
theorem static_size_of_concat_is_exact (p : SKProvider) (l r : Expr) (n : Nat)
    (h : staticSize p (.bin .Concat l r) = some n) :
    ∃ a b, staticSize p l = some a ∧ staticSize p r = some b ∧ n = a + b ∧ n < USIZE_MAX1 := by
  rw [staticSize] at h
  cases hl : staticSize p l with
  | none => rw [hl] at h; cases h
  | some a =>
    cases hr : staticSize p r with
    | none => rw [hl, hr] at h; cases h
    | some b =>
      rw [hl, hr] at h
      simp only at h
      split at h
      · rename_i hlt
        injection h with h
        exact ⟨a, b, rfl, rfl, h.symm, by omega⟩
      · cases h

/-! ### positions are machine words that never wrap (finding F61, repaired) -/

/-- the position of the current bank, read back after it was set (the bank exists) -/
theorem pos_setPos (s : IterSt) (p : Nat) (h : s.bank < s.cur.length) : (s.setPos p).pos = p := by
  simp [IterSt.pos, IterSt.setPos, List.getD_eq_getElem?_getD, h]

/-- **adding to a position either fits a machine word or is an error** - it is never taken modulo 2^64 -/
theorem addPos_exact (s s' : IterSt) (n : Nat) (h : addPos s n = .ok s') :
    s' = s.setPos (s.pos + n) ∧ s.pos + n < 2 ^ 64 := by
  unfold addPos at h
  split at h
  · rename_i hlt; injection h with h; exact ⟨h.symm, hlt⟩
  · cases h

theorem addPos_rejects (s : IterSt) (n : Nat) (h : 2 ^ 64 ≤ s.pos + n) : addPos s n = .error .valueRange := by
  unfold addPos; rw [if_neg (by omega)]

/-- **an instruction, a data element or a reservation moves the position by exactly its size**, and the new
    position fits a machine word; where it would not, the step is the error "value is out of supported range" -/
theorem advance_emit_exact (banks : List Bank) (s s' : IterSt) (bits : List Bool) (h : advance banks s (.emit bits) = .ok s') :
    s' = s.setPos (s.pos + bits.length) ∧ s.pos + bits.length < 2 ^ 64 := addPos_exact s s' _ h

theorem advance_res_exact (banks : List Bank) (s s' : IterSt) (n : Nat) (h : advance banks s (.res n) = .ok s') :
    s' = s.setPos (s.pos + n) ∧ s.pos + n < 2 ^ 64 := addPos_exact s s' _ h

theorem advance_overflow_is_an_error (banks : List Bank) (s : IterSt) (n : Nat) (h : 2 ^ 64 ≤ s.pos + n) :
    advance banks s (.res n) = .error .valueRange ∧
    ∀ bits : List Bool, bits.length = n → advance banks s (.emit bits) = .error .valueRange :=
  ⟨addPos_rejects s n h, fun bits hb => by subst hb; exact addPos_rejects s _ h⟩

/-- an alignment moves the position by the padding `bits_until_alignment` computed, or is an error -/
theorem advance_align_exact (banks : List Bank) (s s' : IterSt) (a : Nat) (h : advance banks s (.align a) = .ok s') :
    ∃ b k, banks[s.bank]? = some b ∧ bitsUntilAlignment (b.addrStart * b.addrUnit + s.pos) a = .ok k ∧
      s' = s.setPos (s.pos + k) ∧ s.pos + k < 2 ^ 64 := by
  simp only [advance] at h
  cases hb : banks[s.bank]? with
  | none => rw [hb] at h; cases h
  | some b =>
    rw [hb] at h
    simp only at h
    cases hk : bitsUntilAlignment (b.addrStart * b.addrUnit + s.pos) a with
    | error e => rw [hk] at h; cases h
    | ok k =>
      rw [hk] at h
      exact ⟨b, k, rfl, hk, addPos_exact s s' k h⟩

/-- **a reservation whose size in bits does not fit a machine word is an error** (`#res n` in a bank whose
    address unit is huge): the product is never taken modulo 2^64 -/
theorem reserve_size_fits (st : Static) (defs defs' : Defs) (ctx : RCtx) (ref : Nat) (e : Expr) (b : Bool) (rep : List String)
    (h : resolveRes st defs ctx ref e = .ok (defs', b, rep)) : defs'.res.getD ref 0 < USIZE_MAX1 ∨ defs'.res.length ≤ ref := by
  unfold resolveRes at h
  cases hr : resolverEval st defs ctx {} e with
  | error m => rw [hr] at h; cases h
  | ok x =>
    obtain ⟨v, c⟩ := x
    rw [hr] at h
    simp only at h
    split at h
    · cases h
    · rename_i n hn
      split at h
      · cases h
      rename_i hlt
      by_cases hlen : ref < defs.res.length
      · left
        have hd : defs' = { defs with res := defs.res.set ref (n * (defs.banks.getD ctx.bank defaultBank).addrUnit) } := by
          split at h <;> (injection h with h; injection h with h1 _; exact h1.symm)
        subst hd
        simp only [List.getD_eq_getElem?_getD, List.getElem?_set, hlen, if_true]
        simpa using hlt
      · right
        have hd : defs' = { defs with res := defs.res.set ref (n * (defs.banks.getD ctx.bank defaultBank).addrUnit) } := by
          split at h <;> (injection h with h; injection h with h1 _; exact h1.symm)
        subst hd
        simp only [List.length_set]; omega

example : addPos ⟨0, [18446744073709551615]⟩ 8 = .error .valueRange := addPos_rejects _ _ (by decide)
example : (addPos ⟨0, [8]⟩ 8).toOption.map (·.pos) = some 16 := by decide

end Casm.C19
