import Casm.Model.Format
import Casm.Model.OutFormat
import Casm.Proofs.FormatLemmas
/-!
# C11 — every output format carries exactly the assembled bits

Theorems about `Casm.Model.Format`.  `padded n bits` is the output zero-extended to `n`
bits; every data format prints `chunks bits k` (k = 8, 1, 4, 16), so `chunks_decode` is the
statement "decodes to exactly the assembled bit sequence padded with zero bits to the
format's granule" for all of them; the remaining theorems are about what each format adds
(line counts, addresses, record lengths, checksums).
-/
namespace Casm.C11

def padded (n : Nat) (bits : Bits) : List Bool := (List.range n).map (readBit bits)

theorem flatMap_range_mul {α} (f : Nat → α) (n k : Nat) :
    (List.range n).flatMap (fun j => (List.range k).map (fun i => f (j * k + i))) =
      (List.range (n * k)).map f := by
  induction n with
  | zero => simp
  | succ n ih =>
    rw [List.range_succ, List.flatMap_append, ih, Nat.succ_mul, List.range_add, List.map_append]
    simp [List.map_map, Function.comp]

/-- zero-extension really is the bits followed by zeros -/
theorem padded_eq (bits : Bits) (n : Nat) (h : bits.length ≤ n) :
    padded n bits = bits ++ List.replicate (n - bits.length) false := by
  apply List.ext_getElem
  · simp [padded]; omega
  · intro i h1 h2
    simp only [padded, List.getElem_map, List.getElem_range, readBit]
    by_cases hi : i < bits.length
    · rw [List.getElem_append_left hi]; simp [List.getD, hi]
    · rw [List.getElem_append_right (by omega)]
      simp [List.getD, hi]

/-- **Round trip.** Re-expanding the `k`-bit chunks a format prints gives the assembled
    bits zero-padded to a whole number of chunks — for outputs of every length, including
    empty and non-multiple ones.  Nothing is dropped, reordered or invented. -/
theorem chunks_decode (bits : Bits) (k : Nat) :
    (chunks bits k).flatMap (toBitsMSB k) = padded (numChunks bits.length k * k) bits := by
  unfold chunks padded
  rw [List.flatMap_map]
  have : (fun j => toBitsMSB k (chunkVal bits (j * k) k)) =
      (fun j => (List.range k).map (fun i => readBit bits (j * k + i))) := by
    funext j; exact chunkVal_bits bits (j * k) k
  rw [this]
  exact flatMap_range_mul (readBit bits) _ k

/-- the padding is shorter than one chunk and covers the whole output -/
theorem numChunks_covers (len k : Nat) (hk : 0 < k) :
    len ≤ numChunks len k * k ∧ numChunks len k * k < len + k := by
  unfold numChunks
  have h1 := Nat.div_add_mod (len + k - 1) k
  have h2 := Nat.mod_lt (len + k - 1) hk
  have h3 : (len + k - 1) / k * k = k * ((len + k - 1) / k) := Nat.mul_comm _ _
  constructor <;> omega

theorem binary_rt (bits : Bits) :
    (fmtBinary bits).flatMap (toBitsMSB 8) = bits ++ List.replicate (numChunks bits.length 8 * 8 - bits.length) false := by
  unfold fmtBinary
  rw [chunks_decode, padded_eq _ _ (numChunks_covers _ 8 (by decide)).1]

theorem chunk_lt (bits : Bits) (start k : Nat) : chunkVal bits start k < 2 ^ k := by
  unfold chunkVal
  have := bitsVal_lt ((List.range k).map fun j => readBit bits (start + j))
  simpa using this

/-- every byte printed is a byte -/
theorem binary_bytes_lt (bits : Bits) : ∀ b ∈ fmtBinary bits, b < 256 := by
  intro b hb
  simp only [fmtBinary, chunks, List.mem_map] at hb
  obtain ⟨j, _, rfl⟩ := hb
  exact chunk_lt bits _ 8

/-- digit characters decode to their value (bit and hex strings, dumps, Logisim) -/
theorem digit_decode : ∀ d, d < 16 → hexVal (digitChar false d) = d := by decide

theorem str_digits (k : Nat) (bits : Bits) : fmtStr k bits = (chunks bits k).map (digitChar false) := rfl

/-- hex/bin dumps: the line count covers every output bit (no partial last line dropped)
    and there is always at least one line. -/
theorem dump_covers (len bpl : Nat) (hb : 0 < bpl) :
    len ≤ dumpLineCount len bpl * (bpl * 8) ∧ 1 ≤ dumpLineCount len bpl := by
  unfold dumpLineCount
  have hk : 0 < 8 * bpl := by omega
  have h1 := Nat.div_add_mod (len + bpl * 8 - 1) (8 * bpl)
  have h2 := Nat.mod_lt (len + bpl * 8 - 1) hk
  generalize (len + bpl * 8 - 1) / (8 * bpl) = q at *
  have : max 1 q * (bpl * 8) ≥ q * (bpl * 8) := Nat.mul_le_mul_right _ (Nat.le_max_right 1 q)
  have e : q * (bpl * 8) = 8 * bpl * q := by rw [Nat.mul_comm bpl 8, Nat.mul_comm]
  constructor
  · omega
  · exact Nat.le_max_left 1 q

/-- and not more lines than needed: the last line holds at least one output bit
    (or the output is empty) -/
theorem dump_tight (len bpl : Nat) (hb : 0 < bpl) (hl : 0 < len) :
    (dumpLineCount len bpl - 1) * (bpl * 8) < len := by
  unfold dumpLineCount
  have hk : 0 < 8 * bpl := by omega
  have h1 := Nat.div_add_mod (len + bpl * 8 - 1) (8 * bpl)
  have h2 := Nat.mod_lt (len + bpl * 8 - 1) hk
  generalize (len + bpl * 8 - 1) / (8 * bpl) = q at *
  rcases Nat.lt_or_ge q 1 with hq | hq
  · have : q = 0 := by omega
    subst this; simp; exact hl
  · rw [Nat.max_eq_right hq]
    have e : (q - 1) * (bpl * 8) = 8 * bpl * q - 8 * bpl := by
      rw [Nat.sub_mul, Nat.mul_comm bpl 8, Nat.mul_comm q]; simp
    omega

/-! ## Intel HEX -/

theorem splitEvery_join (n : Nat) (hn : 0 < n) (fuel : Nat) (l : List Nat) (hf : l.length < fuel) :
    (splitEvery n fuel l).flatten = l := by
  induction fuel generalizing l with
  | zero => omega
  | succ f ih =>
    cases l with
    | nil => simp [splitEvery]
    | cons a t =>
      simp only [splitEvery, List.flatten_cons]
      rw [ih]
      · exact List.take_append_drop n (a :: t)
      · simp only [List.length_drop, List.length_cons] at *; omega

theorem splitEvery_len (n : Nat) (fuel : Nat) (l : List Nat) :
    ∀ g ∈ splitEvery n fuel l, g.length ≤ n := by
  induction fuel generalizing l with
  | zero => simp [splitEvery]
  | succ f ih =>
    cases l with
    | nil => simp [splitEvery]
    | cons a t =>
      intro g hg
      simp only [splitEvery, List.mem_cons] at hg
      rcases hg with rfl | hg
      · exact List.length_take_le n _
      · exact ih _ g hg

/-- the records of a block carry exactly the block's bytes, in order -/
theorem ihex_block_bytes (bits : Bits) (unit : Nat) (b : Block) :
    (blockRecords bits unit b).flatMap (·.bytes) = blockBytes bits b := by
  unfold blockRecords
  simp only
  rw [List.flatMap_map]
  have hj := splitEvery_join 32 (by decide) ((blockBytes bits b).length + 1) (blockBytes bits b) (by omega)
  generalize splitEvery 32 ((blockBytes bits b).length + 1) (blockBytes bits b) = gs at *
  rw [← hj]
  have e : (List.range gs.length).map (fun j => gs.getD j []) = gs := by
    apply List.ext_getElem
    · simp
    · intro i h1 h2
      simp [List.getD, h2]
  rw [List.flatMap_def, e]

/-- no record is longer than 32 bytes -/
theorem ihex_record_len (bits : Bits) (unit : Nat) (b : Block) :
    ∀ r ∈ blockRecords bits unit b, r.bytes.length ≤ 32 := by
  intro r hr
  unfold blockRecords at hr
  simp only [List.mem_map, List.mem_range] at hr
  obtain ⟨j, hj, rfl⟩ := hr
  simp only
  have := splitEvery_len 32 ((blockBytes bits b).length + 1) (blockBytes bits b)
  by_cases h : j < (splitEvery 32 ((blockBytes bits b).length + 1) (blockBytes bits b)).length
  · have hm : (splitEvery 32 ((blockBytes bits b).length + 1) (blockBytes bits b)).getD j [] ∈
        splitEvery 32 ((blockBytes bits b).length + 1) (blockBytes bits b) := by
      simp [List.getD, h]
    exact this _ hm
  · exact absurd hj h

/-- every record's bytes, count, address bytes and checksum add up to 0 modulo 256 -/
theorem ihex_checksum_zero (r : IHexRecord) :
    (r.bytes.length + (r.addr / 256) % 256 + r.addr % 256 + r.bytes.foldl (· + ·) 0 + ihexChecksum r) % 256 = 0 := by
  unfold ihexChecksum
  simp only
  generalize r.bytes.length + (r.addr / 256) % 256 + r.addr % 256 + r.bytes.foldl (· + ·) 0 = s
  omega

/-- the bytes of a block that starts on a byte boundary are bytes of the padded output -/
theorem ihex_aligned_bytes (bits : Bits) (b : Block) (q : Nat) (ha : b.offset = 8 * q) :
    blockBytes bits b = (List.range ((b.size + 7) / 8)).map fun j => chunkVal bits ((q + j) * 8) 8 := by
  unfold blockBytes
  apply List.map_congr_left
  intro j _
  congr 1
  rw [ha]; omega

/-! ### addresses beyond 64 KiB (finding F72, repaired) -/

/-- a reader of the file: a type-04 record sets the upper 16 address bits of the data records that follow -/
def readLines : Nat → List IHexLine → List (Nat × List Nat)
  | _, [] => []
  | _, .ext v :: ls => readLines v ls
  | u, .data a bytes :: ls => (u * 65536 + a, bytes) :: readLines u ls

/-- **every data record is read back at its full address** (32 bits, the reach of the format), with its bytes, in order:
    the extended-address records written between them are exactly the ones a reader needs -/
theorem ihex_full_addresses (rs : List IHexRecord) (u : Nat) :
    readLines u (ihexLines u rs) = rs.map fun r => (r.addr % 4294967296, r.bytes) := by
  induction rs generalizing u with
  | nil => rfl
  | cons r rs ih =>
    simp only [ihexLines, List.map_cons]
    by_cases h : (r.addr / 65536) % 65536 = u
    · subst h
      simp only [ne_eq, not_true_eq_false, if_false, List.nil_append, readLines, ih]
      congr 2; omega
    · simp only [ne_eq, h, not_false_eq_true, if_true, List.singleton_append, readLines, ih]
      congr 2; omega

/-- no extended-address record is written while the addresses stay below 64 KiB: small outputs are unchanged -/
theorem ihex_small_has_no_ext (rs : List IHexRecord) (h : ∀ r ∈ rs, r.addr < 65536) :
    ihexLines 0 rs = rs.map fun r => .data r.addr r.bytes := by
  induction rs with
  | nil => rfl
  | cons r rs ih =>
    have hr := h r List.mem_cons_self
    have h0 : (r.addr / 65536) % 65536 = 0 := by omega
    simp only [ihexLines, h0, ne_eq, not_true_eq_false, if_false, List.nil_append, List.map_cons]
    rw [ih (fun x hx => h x (List.mem_cons_of_mem _ hx))]
    congr 2; omega

/-- the checksum of an extended-address record: its six bytes and the checksum add up to 0 modulo 256 -/
theorem ihex_ext_checksum (u : Nat) :
    (2 + 4 + (u / 256) % 256 + u % 256 + (256 - (2 + 4 + (u / 256) % 256 + u % 256) % 256) % 256) % 256 = 0 := by
  omega

example : ihexLines 0 [⟨0, [1]⟩, ⟨0x10000, [2]⟩, ⟨0x10020, [3]⟩, ⟨0x20, [4]⟩] =
    [.data 0 [1], .ext 1, .data 0 [2], .data 0x20 [3], .ext 0, .data 0x20 [4]] := by decide

example : fmtStr 4 [true, false, true, false, true, true] = ['a', 'c'] := by decide
example : (chunks [true, false, true, false, true, true] 4).flatMap (toBitsMSB 4) =
    [true, false, true, false, true, true, false, false] := by decide

end Casm.C11
