import Casm.Model.ExprEval
import Casm.Model.Parse
import Casm.Proofs.ExprLemmas
/-!
# C05 — expressions compute exact unbounded-integer mathematics with tracked sizes

Theorems only, about `Casm.Model.{Literal,ExprParse,ExprEval,Expr,Bits}`.
"Inverted slice bounds" is `hi < lo` — also `x[k-1:k]` (finding F50, repaired: the code compared after adding one to the upper
bound, and an earlier version of this file had adopted that reading); an upper bound of 2^64 − 1 is out of range (F49).
-/
namespace Casm.C05

/-! ## numeric literals -/

/-- value of a digit string by Horner's rule, skipping `_` -/
def horner (radix : Nat) (ds : List Nat) (v : Nat) : Nat := ds.foldl (fun a d => a * radix + d) v

/-- the digits (values) of a literal body: `_` skipped -/
def digitsOf (radix : Nat) (cs : List Char) : List Nat :=
  (cs.filter (· != '_')).filterMap (toDigit radix)

def ValidBody (radix : Nat) (cs : List Char) : Prop :=
  ∀ c ∈ cs, c = '_' ∨ (toDigit radix c).isSome = true

/-- The digit loop computes the Horner value of the digits and counts them, for every
    radix, digit string and underscore placement. -/
theorem digitLoop_value (radix : Nat) (cs : List Char) (h : ValidBody radix cs) (v n : Nat) :
    digitLoop radix cs v n = .ok (horner radix (digitsOf radix cs) v, n + (digitsOf radix cs).length) := by
  induction cs generalizing v n with
  | nil => simp [digitLoop, digitsOf, horner]
  | cons c cs ih =>
    have hc := h c (List.mem_cons_self)
    have hcs : ValidBody radix cs := fun d hd => h d (List.mem_cons_of_mem _ hd)
    unfold digitLoop
    by_cases hu : c = '_'
    · subst hu
      simp only [beq_self_eq_true, if_true]
      rw [ih hcs]
      simp [digitsOf]
    · have hne : (c == '_') = false := by simpa using hu
      simp only [hne, Bool.false_eq_true, if_false]
      rcases hc with hc | hc
      · exact absurd hc hu
      · obtain ⟨d, hd⟩ := Option.isSome_iff_exists.1 hc
        rw [hd]
        simp only
        rw [ih hcs]
        have : digitsOf radix (c :: cs) = d :: digitsOf radix cs := by
          simp [digitsOf, hu, hd]
        rw [this]
        simp [horner]; omega

/-- A literal with a radix prefix denotes the Horner value of its digits; for the
    power-of-two radices its size is digits × bits-per-digit, decimal literals are unsized. -/
theorem literal_value (pre : List Char) (radix : Nat) (cs : List Char)
    (hpre : parseRadix (pre ++ cs) = (radix, cs)) (hne : pre ++ cs ≠ [])
    (h : ValidBody radix cs) (hd : digitsOf radix cs ≠ []) :
    excerptAsBigint (pre ++ cs) =
      .ok ⟨(horner radix (digitsOf radix cs) 0 : Nat), (radixBits radix).map (· * (digitsOf radix cs).length)⟩ := by
  unfold excerptAsBigint
  cases hl : pre ++ cs with
  | nil => exact absurd hl hne
  | cons a as =>
    simp only
    rw [← hl, hpre]
    simp only
    rw [digitLoop_value radix cs h 0 0]
    simp only [Nat.zero_add]
    have : ((digitsOf radix cs).length == 0) = false := by
      cases hdd : digitsOf radix cs with
      | nil => exact absurd hdd hd
      | cons _ _ => simp
    simp [this]

/-- the prefixes recognised -/
theorem prefix_hex (cs : List Char) : parseRadix ('0' :: 'x' :: cs) = (16, cs) := rfl
theorem prefix_bin (cs : List Char) : parseRadix ('0' :: 'b' :: cs) = (2, cs) := rfl
theorem prefix_oct (cs : List Char) : parseRadix ('0' :: 'o' :: cs) = (8, cs) := rfl
theorem prefix_dollar (cs : List Char) : parseRadix ('$' :: cs) = (16, cs) := rfl
theorem prefix_percent (cs : List Char) : parseRadix ('%' :: cs) = (2, cs) := rfl
theorem radix_bits : radixBits 2 = some 1 ∧ radixBits 8 = some 3 ∧ radixBits 16 = some 4 ∧ radixBits 10 = none := by decide

example : excerptAsBigint "0x1_f".toList = .ok ⟨31, some 8⟩ := by decide
example : excerptAsBigint "1_000".toList = .ok ⟨1000, none⟩ := by decide
example : excerptAsBigint "%0101".toList = .ok ⟨5, some 4⟩ := by decide

/-! ## arithmetic is exact, results are unsized -/

def InCap (l r : Int) (slack : Nat) : Prop := max (bitLen l) (bitLen r) < slack

theorem eval_add (a b : BI) (h : InCap a.v b.v (Gen.BIGINT_MAX_BITS - 1)) :
    evalBinInt .Add a b = .ok (.int ⟨a.v + b.v, none⟩) := by
  unfold InCap at h
  simp only [evalBinInt, checkedAdd]
  rw [if_neg (by omega)]; rfl

theorem eval_sub (a b : BI) (h : InCap a.v b.v (Gen.BIGINT_MAX_BITS - 2)) :
    evalBinInt .Sub a b = .ok (.int ⟨a.v - b.v, none⟩) := by
  unfold InCap at h
  simp only [evalBinInt, checkedSub]
  rw [if_neg (by omega)]; rfl

theorem eval_mul (a b : BI) (h : InCap a.v b.v (Gen.BIGINT_MAX_BITS / 2)) :
    evalBinInt .Mul a b = .ok (.int ⟨a.v * b.v, none⟩) := by
  unfold InCap at h
  simp only [evalBinInt, checkedMul]
  rw [if_neg (by omega)]; rfl

/-- Division truncates toward zero and `%` is the matching remainder:
    `a = b·(a/b) + a%b`, `|a%b| < |b|`, and the remainder has the sign of the dividend. -/
theorem eval_div_mod (a b : BI) (hb : b.v ≠ 0) :
    ∃ q r, evalBinInt .Div a b = .ok (.int ⟨q, none⟩) ∧ evalBinInt .Mod a b = .ok (.int ⟨r, none⟩) ∧
      b.v * q + r = a.v ∧ r.natAbs < b.v.natAbs ∧ (0 ≤ a.v → 0 ≤ r) ∧ (a.v ≤ 0 → r ≤ 0) ∧
      q = Int.tdiv a.v b.v := by
  refine ⟨Int.tdiv a.v b.v, Int.tmod a.v b.v, ?_, ?_, Int.mul_tdiv_add_tmod _ _, ?_, ?_, ?_, rfl⟩
  · simp [evalBinInt, checkedDiv, hb, unsized, Except.map]
  · simp [evalBinInt, checkedMod, hb, unsized, Except.map]
  · rw [Int.natAbs_tmod]
    exact Nat.mod_lt _ (by omega)
  · intro h; exact Int.tmod_nonneg _ h
  · intro h
    have h2 : 0 ≤ -a.v := by omega
    have := Int.tmod_nonneg (b.v) h2
    rw [Int.neg_tmod] at this
    omega

theorem div_zero_err (a b : BI) (hb : b.v = 0) : evalBinInt .Div a b = .error "division by zero" := by
  simp [evalBinInt, checkedDiv, hb, Except.map]

theorem mod_zero_err (a b : BI) (hb : b.v = 0) : evalBinInt .Mod a b = .error "modulo by zero" := by
  simp [evalBinInt, checkedMod, hb, Except.map]

/-- `<<` multiplies by a power of two (within the size cap) -/
theorem eval_shl (a b : BI) (n : Nat) (hb : b.v = n) (hn : n < 2 ^ 32)
    (hcap : bitLen a.v + n < Gen.BIGINT_MAX_BITS) :
    evalBinInt .Shl a b = .ok (.int ⟨a.v * 2 ^ n, none⟩) := by
  simp only [evalBinInt, checkedShl, hb]
  have h1 : (0 : Int) ≤ (n : Int) ∧ (n : Int) < ((2 ^ 32 : Nat) : Int) := ⟨by omega, by exact_mod_cast hn⟩
  rw [if_pos h1]
  have : (n : Int).toNat = n := by omega
  rw [this, if_neg (by omega)]
  simp [unsized, Except.map]

/-- `>>` is the arithmetic shift: floor division by a power of two -/
theorem eval_shr (a b : BI) (n : Nat) (hb : b.v = n) (hn : n < 2 ^ 64) :
    evalBinInt .Shr a b = .ok (.int ⟨a.v / 2 ^ n, none⟩) := by
  simp only [evalBinInt, checkedShr, hb, toUsize, USIZE_MAX1]
  have h1 : (0 : Int) ≤ (n : Int) ∧ (n : Int) < ((2 ^ 64 : Nat) : Int) := ⟨by omega, by exact_mod_cast hn⟩
  rw [if_pos h1]
  have : (n : Int).toNat = n := by omega
  simp [this, unsized, Except.map, shrInt_eq, Int.shiftRight_eq_div_pow]

theorem shift_negative_err (a b : BI) (hb : b.v < 0) :
    evalBinInt .Shl a b = .error outOfRange ∧ evalBinInt .Shr a b = .error outOfRange := by
  constructor
  · simp only [evalBinInt, checkedShl]
    rw [if_neg (by omega)]; rfl
  · simp only [evalBinInt, checkedShr, toUsize]
    rw [if_neg (by omega)]; rfl

/-- unary minus and bitwise not -/
theorem eval_neg_not (env : EvalEnv) (l : ECtx) (x : BI) :
    eval env l (.un .Neg (.lit (.int x))) = .ok (.int ⟨-x.v, none⟩, l) ∧
    eval env l (.un .Not (.lit (.int x))) = .ok (.int ⟨-x.v - 1, none⟩, l) := by
  constructor <;> simp [eval, Value.shouldPropagate, unsized, intNot]

theorem not_bits (x : Int) (i : Nat) : tbit (intNot x) i = !tbit x i := tbit_intNot x i

/-- `&`, `|`, `^` act bit by bit on the infinite two's-complement expansions -/
theorem eval_and_bits (a b : BI) : ∃ r, evalBinInt .And a b = .ok (.int ⟨r, none⟩) ∧
    ∀ i, tbit r i = (tbit a.v i && tbit b.v i) :=
  ⟨intAnd a.v b.v, rfl, fun i => tbit_intBitwise _ _ _ i⟩

theorem eval_or_bits (a b : BI) : ∃ r, evalBinInt .Or a b = .ok (.int ⟨r, none⟩) ∧
    ∀ i, tbit r i = (tbit a.v i || tbit b.v i) :=
  ⟨intOr a.v b.v, rfl, fun i => tbit_intBitwise _ _ _ i⟩

theorem eval_xor_bits (a b : BI) : ∃ r, evalBinInt .Xor a b = .ok (.int ⟨r, none⟩) ∧
    ∀ i, tbit r i = (tbit a.v i != tbit b.v i) :=
  ⟨intXor a.v b.v, rfl, fun i => tbit_intBitwise _ _ _ i⟩

/-- comparisons are those of the integers (sizes are irrelevant) -/
theorem eval_compare (a b : BI) :
    evalBinInt .Eq a b = .ok (.bool (decide (a.v = b.v))) ∧
    evalBinInt .Ne a b = .ok (.bool (decide (a.v ≠ b.v))) ∧
    evalBinInt .Lt a b = .ok (.bool (decide (a.v < b.v))) ∧
    evalBinInt .Le a b = .ok (.bool (decide (a.v ≤ b.v))) ∧
    evalBinInt .Gt a b = .ok (.bool (decide (a.v > b.v))) ∧
    evalBinInt .Ge a b = .ok (.bool (decide (a.v ≥ b.v))) := by
  refine ⟨?_, ?_, ?_, ?_, ?_, ?_⟩ <;> simp [evalBinInt, bne, Bool.beq_eq_decide_eq]

/-! ## slices and concatenation select and join exactly the named bits -/

/-- a sized value is well formed when it fits its size as an unsigned number or is negative
    (negative sized values are re-sliced; the identity short-cut of `slice` is only taken
    for non-negative values) -/
def Fits (x : BI) : Prop := ∀ s, x.size = some s → 0 ≤ x.v → x.v < 2 ^ s

/-- `x[hi:lo]`: size `hi+1-lo`, bit `i` of the result is bit `lo+i` of `x` -/
theorem slice_bits (x : BI) (left right : Nat) (hx : Fits x) (hlr : right ≤ left) :
    ∃ b, checkedSlice x left right = .ok b ∧ b.size = some (left - right) ∧
      ∀ i, tbit b.v i = (decide (i < left - right) && tbit x.v (right + i)) := by
  refine ⟨x.slice left right, ?_, ?_, ?_⟩
  · simp only [checkedSlice]; rw [if_neg (by omega)]
  · unfold BI.slice; split
    · rename_i h; rw [h.1, h.2.1]; rfl
    · rfl
  · intro i
    unfold BI.slice; split
    · rename_i h
      obtain ⟨hs, hr, hv⟩ := h
      subst hr
      have hv0 : 0 ≤ x.v := by omega
      have hlt := hx left hs hv0
      by_cases hi : i < left
      · simp [hi]
      · simp only [Nat.sub_zero, hi, decide_false, Bool.false_and]
        -- bits at or above `left` of a number below 2^left are zero
        have := tbit_emod_pow x.v left i
        rw [Int.emod_eq_of_lt hv0 hlt] at this
        simpa [hi] using this
    · exact tbit_bitsRange x.v left right i

theorem slice_inverted_err (x : BI) (left right : Nat) (h : left < right) :
    checkedSlice x left right = .error "invalid slice range" := by
  simp [checkedSlice, h]

/-- `a @ b`: sizes add, the low `|b|` bits are `b`'s, the next `|a|` bits are `a`'s -/
theorem concat_bits (a b : BI) (lw rw : Nat) (ha : a.size = some lw) (hb : b.size = some rw) :
    ∃ r, evalBinInt .Concat a b = .ok (.int r) ∧ r.size = some (lw + rw) ∧
      ∀ i, tbit r.v i = if i < rw then tbit b.v i else (decide (i - rw < lw) && tbit a.v (i - rw)) := by
  refine ⟨a.concat lw 0 b rw 0, ?_, rfl, ?_⟩
  · simp [evalBinInt, ha, hb]
  · intro i
    simp only [BI.concat, Nat.sub_zero]
    rw [pow2_cast]
    have h0 := bitsRange_nonneg b.v rw 0
    have h1 := bitsRange_lt b.v rw 0
    simp only [Nat.sub_zero] at h1
    rw [tbit_mul_pow_add _ _ _ _ h0 h1]
    split
    · rename_i h
      rw [tbit_bitsRange]; simp [h]
    · rw [tbit_bitsRange]; simp

theorem concat_unsized_err (a b : BI) (h : a.size = none ∨ b.size = none) :
    evalBinInt .Concat a b = .error "argument to concatenation with indefinite size" := by
  rcases h with h | h
  · simp [evalBinInt, h]
  · cases ha : a.size <;> simp [evalBinInt, ha, h]

/-! ## ill-typed operations are errors, never a made-up value -/

theorem cond_nonbool_err (env : EvalEnv) (l : ECtx) (b : BI) (t f : Expr) :
    eval env l (.tern (.lit (.int b)) t f) = .error "invalid condition type" := by
  simp [eval, Value.shouldPropagate]

theorem bool_plus_int_err (env : EvalEnv) (l : ECtx) (p : Bool) (b : BI) :
    eval env l (.bin .Add (.lit (.bool p)) (.lit (.int b))) = .error "invalid argument types to operator" := by
  simp [eval, Value.shouldPropagate, Value.getBigint]

theorem arithmetic_on_bools_err (p q : Bool) :
    evalBinBool .Add p q = .error "invalid argument types to operator" ∧
    evalBinBool .Lt p q = .error "invalid argument types to operator" := by
  constructor <;> rfl

/-! ## built-in functions -/

theorem sizeof_is_size (b : BI) (s : Nat) (h : b.size = some s) :
    evalBuiltin "sizeof" [.int b] = .ok (.int ⟨s, none⟩) := by
  simp [evalBuiltin, Value.getBigint, h, unsized]

theorem sizeof_unsized_err (b : BI) (h : b.size = none) :
    evalBuiltin "sizeof" [.int b] = .error "value has no definite size" := by
  simp [evalBuiltin, Value.getBigint, h]

theorem strlen_is_utf8_length (s : List Char) (e : Enc) :
    evalBuiltin "strlen" [.str s e] = .ok (.int ⟨(utf8Len s : Nat), none⟩) := by
  simp [evalBuiltin, unsized]

/-- a string as an integer: size is 8 × the number of encoded bytes -/
theorem string_size (s : List Char) (e : Enc) :
    (strToBigint s e).size = some (8 * (encodeBytes e s).length) := rfl

theorem le_requires_byte_multiple (b : BI) (s : Nat) (h : b.size = some s) (hs : s % 8 ≠ 0) :
    evalBuiltin "le" [.int b] = .error "argument to `le` must have a size multiple of 8" := by
  simp [evalBuiltin, h, hs]

example : evalBuiltin "le" [.int ⟨0x1234, some 16⟩] = .ok (.int ⟨0x3412, some 16⟩) := by decide
example : evalBuiltin "le" [.int ⟨0xabcdef, some 24⟩] = .ok (.int ⟨0xefcdab, some 24⟩) := by decide

/-- **the bounds of `x[hi:lo]` are checked as written**: once the three operands have definite values, the slice is an
    error when `hi < lo` (inverted, also by one) or when `hi + 1` is no `usize`; otherwise it is the bits `hi … lo` of `x` -/
theorem slice_bounds_are_checked (env : EvalEnv) (c c1 c2 c3 : ECtx) (hi lo inner : Expr) (iv hv lv : Value) (x : BI) (h l : Nat)
    (h1 : eval env c inner = .ok (iv, c1)) (hp1 : iv.shouldPropagate = false) (hx : iv.getBigint = some x)
    (h2 : eval env c1 hi = .ok (hv, c2)) (hp2 : hv.shouldPropagate = false)
    (h3 : eval env c2 lo = .ok (lv, c3)) (hp3 : lv.shouldPropagate = false)
    (hh : expectUsize hv = .ok h) (hl : expectUsize lv = .ok l) :
    eval env c (.slice hi lo inner) =
      if h < l then .error "invalid slice range"
      else if h + 1 ≥ USIZE_MAX1 then .error outOfRange
      else (checkedSlice x (h + 1) l).map (fun b => (.int b, c3)) := by
  rw [eval]
  simp only [h1, hp1, hx, h2, hp2, h3, hp3, hh, hl, Bool.false_eq_true, if_false]

/-- hence an inverted range is an error, by one or by many -/
theorem slice_inverted_by_one_is_an_error (env : EvalEnv) (c c1 c2 c3 : ECtx) (hi lo inner : Expr) (iv hv lv : Value) (x : BI) (l : Nat)
    (h1 : eval env c inner = .ok (iv, c1)) (hp1 : iv.shouldPropagate = false) (hx : iv.getBigint = some x)
    (h2 : eval env c1 hi = .ok (hv, c2)) (hp2 : hv.shouldPropagate = false)
    (h3 : eval env c2 lo = .ok (lv, c3)) (hp3 : lv.shouldPropagate = false)
    (hh : expectUsize hv = .ok l) (hl : expectUsize lv = .ok (l + 1)) :
    eval env c (.slice hi lo inner) = .error "invalid slice range" := by
  rw [slice_bounds_are_checked env c c1 c2 c3 hi lo inner iv hv lv x l (l + 1) h1 hp1 hx h2 hp2 h3 hp3 hh hl]
  simp

/-! ## precedence: the table the parser is generated over is the documented one -/

theorem precedence_as_documented : Gen.precedence =
    [ [(.At, .Concat)],
      [(.DoubleVerticalBar, .LazyOr)],
      [(.DoubleAmpersand, .LazyAnd)],
      [(.DoubleEqual, .Eq), (.ExclamationEqual, .Ne), (.LessThan, .Lt), (.LessThanEqual, .Le),
       (.GreaterThan, .Gt), (.GreaterThanEqual, .Ge)],
      [(.VerticalBar, .Or)],
      [(.Circumflex, .Xor)],
      [(.Ampersand, .And)],
      [(.DoubleLessThan, .Shl), (.DoubleGreaterThan, .Shr)],
      [(.Plus, .Add), (.Minus, .Sub)],
      [(.Asterisk, .Mul), (.Slash, .Div), (.Percent, .Mod)] ] := by decide

theorem unary_and_assign_as_documented :
    Gen.unaryOps = [(.Exclamation, .Not), (.Minus, .Neg)] ∧ Gen.assignOps = [(.Equal, .Assign)] ∧
    Gen.precedenceEnd = "parse_slice" := by decide

/-! ### string literals: an escaped character never closes the string (finding F70, repaired) -/

theorem strBody_cons (c : Char) (r : List Char) :
    strBodyLen (c :: r) = if c == '"' then 0 else if c == '\\' then (match r with | [] => 1 | _ :: r' => strBodyLen r' + 2) else strBodyLen r + 1 := by
  rw [strBodyLen.eq_def]; rfl

theorem strBody_quote (rest : List Char) : strBodyLen ('"' :: rest) = 0 := by
  rw [strBody_cons]; simp

theorem strBody_escape (c : Char) (rest : List Char) : strBodyLen ('\\' :: c :: rest) = strBodyLen rest + 2 := by
  rw [strBody_cons]; simp

theorem strBody_open : strBodyLen ['\\'] = 1 := by
  rw [strBody_cons]; simp

theorem strBody_plain (c : Char) (rest : List Char) (h1 : c ≠ '"') (h2 : c ≠ '\\') :
    strBodyLen (c :: rest) = strBodyLen rest + 1 := by
  rw [strBody_cons]; simp [h1, h2]

/-- **where the scan stops inside the text, it stops at a quote that no backslash escapes**; it never runs past the text -/
theorem strBody_stops_at_quote : ∀ (n : Nat) (s : List Char), s.length ≤ n →
    strBodyLen s ≤ s.length ∧ (strBodyLen s < s.length → s[strBodyLen s]? = some '"') := by
  intro n
  induction n with
  | zero =>
    intro s h
    cases s with
    | nil => simp [strBodyLen]
    | cons c r => simp at h
  | succ n ih =>
    intro s h
    cases s with
    | nil => simp [strBodyLen]
    | cons c r =>
      by_cases hq : c = '"'
      · subst hq; rw [strBody_quote]; simp
      · by_cases hb : c = '\\'
        · subst hb
          cases r with
          | nil => rw [strBody_open]; simp
          | cons d r' =>
            rw [strBody_escape]
            have := ih r' (by simp at h ⊢; omega)
            refine ⟨by simp only [List.length_cons]; omega, fun hl => ?_⟩
            have h2 := this.2 (by simp only [List.length_cons] at hl; omega)
            simpa using h2
        · rw [strBody_plain c r hq hb]
          have := ih r (by simp at h ⊢; omega)
          refine ⟨by simp only [List.length_cons]; omega, fun hl => ?_⟩
          have h2 := this.2 (by simp only [List.length_cons] at hl; omega)
          simpa using h2

/-- **a string token ends at a quote that no backslash escapes**: if the tokenizer reads a string literal of `n` characters
    at `"` followed by `rest`, then the literal's body is the scanned prefix of `rest` and the character closing it is a quote -/
theorem string_token_ends_at_its_closing_quote (rest : List Char) (n : Nat)
    (h : checkString ('"' :: rest) = some (.String, n)) :
    n = strBodyLen rest + 2 ∧ rest[strBodyLen rest]? = some '"' := by
  simp only [checkString] at h
  split at h
  · rename_i hlt
    simp only [Option.some.injEq, Prod.mk.injEq, true_and] at h
    exact ⟨h.symm, (strBody_stops_at_quote rest.length rest (Nat.le_refl _)).2 hlt⟩
  · cases h

/-- `"a\"b"` is one string token of six characters, `"\""` one of four, and a lone trailing backslash leaves the string open -/
example : checkString ['"', 'a', '\\', '"', 'b', '"'] = some (.String, 6) := by decide
example : checkString ['"', '\\', '"', '"'] = some (.String, 4) := by decide
example : checkString ['"', 'a', '\\', '"'] = none := by decide
example : stringContents ['"', 'a', '\\', '"', 'b', '"'] = some ['a', '"', 'b'] := by decide

end Casm.C05
