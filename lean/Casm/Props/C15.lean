import Casm.Model.Assemble
/-!
# C15 — symbols resolve lexically and independently of declaration order

About `Casm.SymMgr` (model of `util::SymbolManager`) and its use by `evalVariable`.

* `lookup_determined_by_level_prefix` — what a reference denotes depends on the context at the
  point of use only through its first `level` components (the enclosing declarations down to
  the dot-level), and on the path.
* `lookup_skipping_level_is_unknown`, `declare_skipping_level_is_error`,
  `declare_duplicate_is_error` — the three error clauses.
* `declare_appends` — a declaration is appended (fresh index) and never renumbers others.
* `reference_sees_whole_table` — evaluation of a reference consults the table of *all*
  declarations (built before any evaluation), so use-before-declaration and use-after
  resolve alike.

The refinement "the table maps full dotted paths to declarations" (`lookup_refines_scope` in
DESIGN.md) is established by the search (Python scope walker vs implementation vs model) and
is not yet a theorem.  Finding F16: the context follows every symbol, not only labels.
-/
namespace Casm.C15

/-- **determined by dot-level and the enclosing declarations**: two contexts that agree on their
    first `level` components resolve every reference of that level alike -/
theorem lookup_determined_by_level_prefix (m : SymMgr) (ctx ctx' : List String) (level : Nat) (path : List String)
    (h : ctx.take level = ctx'.take level) (hl : level ≤ ctx.length) (hl' : level ≤ ctx'.length) :
    m.tryGetByName ctx level path = m.tryGetByName ctx' level path := by
  unfold SymMgr.tryGetByName
  have h1 : ¬ level > ctx.length := by omega
  have h2 : ¬ level > ctx'.length := by omega
  simp only [h1, h2, if_false, h]

/-- a reference with more dots than there are enclosing declarations denotes nothing -/
theorem lookup_skipping_level_is_unknown (m : SymMgr) (ctx : List String) (level : Nat) (path : List String)
    (h : ctx.length < level) :
    m.tryGetByName ctx level path = none ∧
    m.getByName ctx level path = .error s!"unknown {m.reportAs} `{displayName level path}`" := by
  have h1 : m.tryGetByName ctx level path = none := by
    unfold SymMgr.tryGetByName
    simp [h]
  exact ⟨h1, by simp [SymMgr.getByName, h1]⟩

theorem declare_skipping_level_is_error (m : SymMgr) (ctx : List String) (name : String) (level : Nat) (kind : DeclKind)
    (h : ctx.length < level) :
    m.declare ctx name level kind = .error "symbol declaration skips a nesting level" := by
  unfold SymMgr.declare
  simp [h]

/-- declaring a name twice under the same parent is an error -/
theorem declare_duplicate_is_error (m : SymMgr) (ctx : List String) (name : String) (level : Nat) (kind : DeclKind)
    (hl : level ≤ ctx.length)
    (h : (assocGet (m.childrenOf ((m.getParent none (ctx.take level)).getD none)) name).isSome = true) :
    m.declare ctx name level kind = .error s!"duplicate {m.reportAs} `{name}`" := by
  unfold SymMgr.declare
  have h1 : ¬ level > ctx.length := by omega
  simp only [h1, if_false, h, if_true]

/-- a successful declaration gets the next free index and leaves all indices valid -/
theorem declare_appends (m m' : SymMgr) (ctx : List String) (name : String) (level : Nat) (kind : DeclKind) (idx : Nat)
    (h : m.declare ctx name level kind = .ok (idx, m')) :
    idx = m.decls.length ∧ m'.decls.length = m.decls.length + 1 := by
  unfold SymMgr.declare at h
  split at h
  · cases h
  · simp only at h
    split at h
    · cases h
    · injection h with h
      injection h with h1 h2
      subst h1 h2
      refine ⟨rfl, ?_⟩
      split <;> simp

/-- **use before declaration = use after**: evaluating a reference consults the complete
    declaration table of the assembly (`st.decls.symbols`), never a per-position prefix of it;
    the position enters only through the context `ctx.symCtx` -/
theorem reference_sees_whole_table (st : Static) (defs : Defs) (ctx ctx' : RCtx) (level : Nat) (path : List String)
    (hsym : ctx.symCtx = ctx'.symCtx) (hguess : ctx.canGuess = ctx'.canGuess)
    (hnotpc : ¬ (level = 0 ∧ (path.head? = some "$" ∨ path.head? = some "pc"))) :
    evalVariable st defs ctx level path = evalVariable st defs ctx' level path := by
  unfold evalVariable
  by_cases h0 : level = 0
  · subst h0
    cases hp : path.head? with
    | none => simp [hsym, hguess]
    | some n =>
      have hn : ¬ (n = "$" ∨ n = "pc") := by
        intro hc; apply hnotpc; refine ⟨rfl, ?_⟩; rw [hp]; rcases hc with rfl | rfl <;> simp
      have hn' : (n == "$" || n == "pc") = false := by
        cases h1 : (n == "$" || n == "pc") with
        | false => rfl
        | true => exfalso; apply hn; simpa using h1
      simp only [beq_self_eq_true, if_true, hn', Bool.false_eq_true, if_false, hsym, hguess]
  · have : (level == 0) = false := by simpa using h0
    simp only [this, Bool.false_eq_true, if_false, hsym, hguess]

/-! non-vacuity: a small table -/
def demo : SymMgr :=
  match (SymMgr.new "symbol").declare [] "g" 0 .label with
  | .ok (_, m) =>
    match m.declare ["g"] "x" 1 .label with
    | .ok (_, m) => m
    | .error _ => m
  | .error _ => SymMgr.new "symbol"

example : demo.tryGetByName ["g"] 1 ["x"] = some 1 := by decide
example : demo.tryGetByName ["g", "x"] 1 ["x"] = some 1 := by decide
example : demo.tryGetByName [] 0 ["g", "x"] = some 1 := by decide
example : demo.tryGetByName [] 1 ["x"] = none := by decide

end Casm.C15
