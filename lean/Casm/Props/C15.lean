import Casm.Model.Assemble
import Casm.Proofs.SymbolLemmas
import Casm.Proofs.FrontEndLemmas
/-!
# C15 — symbols resolve lexically and independently of declaration order

About `Casm.SymMgr` (model of `util::SymbolManager`) and its use by `evalVariable`.

* `lookup_determined_by_level_prefix` — what a reference denotes depends on the context at the
  point of use only through its first `level` components (the enclosing declarations down to
  the dot-level), and on the path.
* `lookup_skipping_level_is_unknown`, `declare_skipping_level_is_error`,
  `declare_duplicate_is_error` — the three error clauses.
* `declare_appends` — a declaration is appended (fresh index) and never renumbers others.
* `reference_sees_whole_table` — evaluation of a reference consults the table of *all*
  declarations (built before any evaluation), so use-before-declaration and use-after
  resolve alike.

* `reference_denotes_path` — **the scope rule**: in every table the assembler can build
  (`Built`: from the empty table by successful declarations, each made in the root context or in
  the context left by an earlier declaration), a reference with `level` dots and path `path`,
  used where the context is `ctx` (the root or the path of the last declaration), denotes
  exactly the declaration whose full dotted path is the first `level` components of `ctx`
  followed by `path` — and nothing if no declaration has that path (`reference_unknown`).
  `declaration_gets_path` — a declaration with `level` dots and name `n` made in context `ctx`
  gets the path `ctx.take level ++ [n]`; `paths_are_unique`.
  Together: a bare name is global, one dot = child of the enclosing depth-0 declaration, `k`
  dots = child of the enclosing declaration `k-1` levels deep, dotted paths descend from there.
  `assembler_table_is_built` / `reference_denotes_path_in_assembler` — the table the front end
  hands to the resolver *is* such a table (proved through the parser-to-resolver pipeline:
  `collect` declares in the root context or in the context of the last symbol met, functions in
  the root), so the scope rule holds of every reference the resolver evaluates.

Finding F16: the context follows every symbol declaration, not only labels (so "enclosing
label" reads "enclosing symbol"); the theorems are about the context as the code maintains it.
-/
namespace Casm.C15

/-- **determined by dot-level and the enclosing declarations**: two contexts that agree on their
    first `level` components resolve every reference of that level alike -/
theorem lookup_determined_by_level_prefix (m : SymMgr) (ctx ctx' : List String) (level : Nat) (path : List String)
    (h : ctx.take level = ctx'.take level) (hl : level ≤ ctx.length) (hl' : level ≤ ctx'.length) :
    m.tryGetByName ctx level path = m.tryGetByName ctx' level path := by
  unfold SymMgr.tryGetByName
  have h1 : ¬ level > ctx.length := by omega
  have h2 : ¬ level > ctx'.length := by omega
  simp only [h1, h2, if_false, h]

/-- a reference with more dots than there are enclosing declarations denotes nothing -/
theorem lookup_skipping_level_is_unknown (m : SymMgr) (ctx : List String) (level : Nat) (path : List String)
    (h : ctx.length < level) :
    m.tryGetByName ctx level path = none ∧
    m.getByName ctx level path = .error s!"unknown {m.reportAs} `{displayName level path}`" := by
  have h1 : m.tryGetByName ctx level path = none := by
    unfold SymMgr.tryGetByName
    simp [h]
  exact ⟨h1, by simp [SymMgr.getByName, h1]⟩

theorem declare_skipping_level_is_error (m : SymMgr) (ctx : List String) (name : String) (level : Nat) (kind : DeclKind)
    (h : ctx.length < level) :
    m.declare ctx name level kind = .error "symbol declaration skips a nesting level" := by
  unfold SymMgr.declare
  simp [h]

/-- declaring a name twice under the same parent is an error -/
theorem declare_duplicate_is_error (m : SymMgr) (ctx : List String) (name : String) (level : Nat) (kind : DeclKind)
    (hl : level ≤ ctx.length)
    (h : (assocGet (m.childrenOf ((m.getParent none (ctx.take level)).getD none)) name).isSome = true) :
    m.declare ctx name level kind = .error s!"duplicate {m.reportAs} `{name}`" := by
  unfold SymMgr.declare
  have h1 : ¬ level > ctx.length := by omega
  simp only [h1, if_false, h, if_true]

/-- a successful declaration gets the next free index and leaves all indices valid -/
theorem declare_appends (m m' : SymMgr) (ctx : List String) (name : String) (level : Nat) (kind : DeclKind) (idx : Nat)
    (h : m.declare ctx name level kind = .ok (idx, m')) :
    idx = m.decls.length ∧ m'.decls.length = m.decls.length + 1 := by
  unfold SymMgr.declare at h
  split at h
  · cases h
  · simp only at h
    split at h
    · cases h
    · injection h with h
      injection h with h1 h2
      subst h1 h2
      refine ⟨rfl, ?_⟩
      split <;> simp

/-- **use before declaration = use after**: evaluating a reference consults the complete
    declaration table of the assembly (`st.decls.symbols`), never a per-position prefix of it;
    the position enters only through the context `ctx.symCtx` -/
theorem reference_sees_whole_table (st : Static) (defs : Defs) (ctx ctx' : RCtx) (level : Nat) (path : List String)
    (hsym : ctx.symCtx = ctx'.symCtx) (hguess : ctx.canGuess = ctx'.canGuess)
    (hnotpc : ¬ (level = 0 ∧ (path.head? = some "$" ∨ path.head? = some "pc"))) :
    evalVariable st defs ctx level path = evalVariable st defs ctx' level path := by
  unfold evalVariable
  by_cases h0 : level = 0
  · subst h0
    cases path with
    | nil => simp [hsym, hguess]
    | cons n rest =>
      cases rest with
      | cons m rest' => simp [hsym, hguess]
      | nil =>
        have hn : ¬ (n = "$" ∨ n = "pc") := by
          intro hc; apply hnotpc; refine ⟨rfl, ?_⟩; rcases hc with rfl | rfl <;> simp
        have hn' : (n == "$" || n == "pc") = false := by
          cases h1 : (n == "$" || n == "pc") with
          | false => rfl
          | true => exfalso; apply hn; simpa using h1
        simp only [beq_self_eq_true, if_true, hn', Bool.false_eq_true, if_false, hsym, hguess]
  · have : (level == 0) = false := by simpa using h0
    simp only [this, Bool.false_eq_true, if_false, hsym, hguess]

/-! ## the scope rule -/

/-- **a reference denotes the declaration whose dotted path is the enclosing path (down to the
    dot-level) followed by the reference's path** -/
theorem reference_denotes_path (m : SymMgr) (hb : Built m) (ctx : List String) (level : Nat) (path : List String) (r : Nat)
    (hctx : ctx = [] ∨ ∃ i, i < m.decls.length ∧ (m.decls.getD i default).ctx = ctx)
    (hl : level ≤ ctx.length) (hp : path ≠ []) :
    m.tryGetByName ctx level path = some r ↔
      r < m.decls.length ∧ (m.decls.getD r default).ctx = ctx.take level ++ path :=
  lookup_refines_scope m (built_wf hb) ctx level path r hl (resolves_take m (built_wf hb) ctx hctx level) hp

/-- …and nothing when no declaration has that path -/
theorem reference_unknown (m : SymMgr) (hb : Built m) (ctx : List String) (level : Nat) (path : List String)
    (hctx : ctx = [] ∨ ∃ i, i < m.decls.length ∧ (m.decls.getD i default).ctx = ctx)
    (hl : level ≤ ctx.length) (hp : path ≠ [])
    (hno : ∀ r, r < m.decls.length → (m.decls.getD r default).ctx ≠ ctx.take level ++ path) :
    m.tryGetByName ctx level path = none :=
  lookup_unknown m (built_wf hb) ctx level path hl (resolves_take m (built_wf hb) ctx hctx level) hp hno

/-- a declaration gets the enclosing path (down to its dot-level) followed by its name, and no
    earlier declaration changes its path -/
theorem declaration_gets_path (m m' : SymMgr) (hb : Built m) (ctx : List String) (name : String) (level : Nat) (kind : DeclKind) (idx : Nat)
    (hctx : ctx = [] ∨ ∃ i, i < m.decls.length ∧ (m.decls.getD i default).ctx = ctx)
    (h : m.declare ctx name level kind = .ok (idx, m')) :
    Built m' ∧ (m'.decls.getD idx default).ctx = ctx.take level ++ [name] ∧
      ∀ i, i < m.decls.length → (m'.decls.getD i default).ctx = (m.decls.getD i default).ctx := by
  obtain ⟨_, _, _, h4, h5⟩ := declare_preserves m m' (built_wf hb) ctx name level kind idx (resolves_take m (built_wf hb) ctx hctx level) h
  exact ⟨Built.declare hb hctx h, h4, h5⟩

/-- one path, one declaration -/
theorem paths_are_unique (m : SymMgr) (hb : Built m) (i j : Nat) (hi : i < m.decls.length) (hj : j < m.decls.length)
    (h : (m.decls.getD i default).ctx = (m.decls.getD j default).ctx) : i = j :=
  path_unique m (built_wf hb) i j hi hj h

/-- the order of two declarations in different scopes does not matter for what a path denotes:
    a reference found before a later declaration is still found, and denotes the same declaration -/
theorem later_declarations_do_not_rebind (m m' : SymMgr) (hb : Built m) (ctx name : _) (level : Nat) (kind : DeclKind) (idx : Nat)
    (hctx : ctx = [] ∨ ∃ i, i < m.decls.length ∧ (m.decls.getD i default).ctx = ctx)
    (h : m.declare ctx name level kind = .ok (idx, m'))
    (uctx : List String) (ulevel : Nat) (upath : List String) (r : Nat)
    (huctx : uctx = [] ∨ ∃ i, i < m.decls.length ∧ (m.decls.getD i default).ctx = uctx)
    (hul : ulevel ≤ uctx.length) (hup : upath ≠ [])
    (hfound : m.tryGetByName uctx ulevel upath = some r) : m'.tryGetByName uctx ulevel upath = some r := by
  obtain ⟨hb', _, hold⟩ := declaration_gets_path m m' hb ctx name level kind idx hctx h
  have hlen : m'.decls.length = m.decls.length + 1 :=
    (declare_preserves m m' (built_wf hb) ctx name level kind idx (resolves_take m (built_wf hb) ctx hctx level) h).2.2.1
  have ⟨hr, hrc⟩ := (reference_denotes_path m hb uctx ulevel upath r huctx hul hup).mp hfound
  have huctx' : uctx = [] ∨ ∃ i, i < m'.decls.length ∧ (m'.decls.getD i default).ctx = uctx := by
    rcases huctx with h0 | ⟨i, hi, hc⟩
    · exact Or.inl h0
    · exact Or.inr ⟨i, by omega, by rw [hold i hi]; exact hc⟩
  exact (reference_denotes_path m' hb' uctx ulevel upath r huctx' hul hup).mpr ⟨by omega, by rw [hold r hr]; exact hrc⟩

/-- **the table every successful front end hands to the resolver is a `Built` table** -/
theorem assembler_table_is_built (opts : Opts) (fs : SrcFiles) (roots : List (List Char)) (st : Static) (nodes : List AstNode) (defs : Defs)
    (h : frontEnd opts fs roots = .ok (st, nodes, defs)) : Built st.decls.symbols :=
  frontEnd_built opts fs roots st nodes defs h

/-- **the scope rule, for the assembler's own table** -/
theorem reference_denotes_path_in_assembler (opts : Opts) (fs : SrcFiles) (roots : List (List Char)) (st : Static) (nodes : List AstNode)
    (defs : Defs) (h : frontEnd opts fs roots = .ok (st, nodes, defs))
    (ctx : List String) (level : Nat) (path : List String) (r : Nat)
    (hctx : ctx = [] ∨ ∃ i, i < st.decls.symbols.decls.length ∧ (st.decls.symbols.decls.getD i default).ctx = ctx)
    (hl : level ≤ ctx.length) (hp : path ≠ []) :
    st.decls.symbols.tryGetByName ctx level path = some r ↔
      r < st.decls.symbols.decls.length ∧ (st.decls.symbols.decls.getD r default).ctx = ctx.take level ++ path :=
  reference_denotes_path _ (assembler_table_is_built opts fs roots st nodes defs h) ctx level path r hctx hl hp

/-! non-vacuity: a small table -/
def demo : SymMgr :=
  match (SymMgr.new "symbol").declare [] "g" 0 .label with
  | .ok (_, m) =>
    match m.declare ["g"] "x" 1 .label with
    | .ok (_, m) => m
    | .error _ => m
  | .error _ => SymMgr.new "symbol"

example : demo.tryGetByName ["g"] 1 ["x"] = some 1 := by decide
example : demo.tryGetByName ["g", "x"] 1 ["x"] = some 1 := by decide
example : demo.tryGetByName [] 0 ["g", "x"] = some 1 := by decide
example : demo.tryGetByName [] 1 ["x"] = none := by decide

/-- **a dotted path descends from the declaration its first component denotes, also when that component is
    named like a built-in** (`pc.x`, `incbin.x`; finding F45, repaired: the built-in test looked at the first
    component whatever the length of the path) -/
theorem dotted_path_is_never_a_builtin (st : Static) (defs : Defs) (ctx : RCtx) (n m : String) (rest : List String) :
    evalVariable st defs ctx 0 (n :: m :: rest) =
      match st.decls.symbols.getByName ctx.symCtx 0 (n :: m :: rest) with
      | .error e => .error e
      | .ok r =>
        match (defs.sym r).value with
        | .unknown => if !ctx.canGuess then .error s!"unresolved symbol `{displayName 0 (n :: m :: rest)}`" else .ok (defs.sym r).value
        | _ => .ok (defs.sym r).value := by
  unfold evalVariable
  rfl

end Casm.C15
