import Casm.Proofs.IterModel
import Casm.Proofs.AssembleLemmas
import Casm.Proofs.BudgetMono
import Casm.Proofs.KindInv
import Casm.Proofs.BudgetPinned
import Casm.Proofs.BudgetOne
import Casm.Proofs.FrontUniq
import Casm.Proofs.FrontInv
/-!
# C09 — the iteration budget decides whether a program assembles, never to what

* `iters_le_budget` — the pass count reported by a successful assembly never exceeds the
  budget (unconditional, about `Casm.assemble`).
* `budget_one_is_single_strict_pass` — with budget 1 the only pass is first *and* last.
* `budget_monotone` — **for the model's `resolve_iteratively` itself**: if the iteration succeeds
  with budget `n ≥ 2` it succeeds with every budget `m ≥ n` with the identical final state (hence
  identical bits, spans and symbols, which are read from that state); `lower_budget_same_or_error`
  — lowering the budget (down to 2) yields an error or the same state.  The proof: both budgets
  run the same passes with the same flags up to pass `n − 1`; the strict pass `n` of the small
  budget, being stable, is the identity (`Casm.C02.stable_nonfirst_pass_is_identity`), so the
  state is a fixed point; the larger budget runs the *guessing* pass there, which computes the
  same state (`guessing_agrees_with_strict`, resting on `evaluation_is_monotone`: guessing only
  replaces errors by `Unknown`, strict-only checks only add errors); from a fixed point every
  further pass stays there until the loop ends or the confirming pass accepts.
  `budget_monotone_after_front_end` is the same for every node list the front end produces, with
  no well-formedness hypothesis (`Casm.frontEnd_noClash`).  What is held fixed: the *inner* budget of `asm` blocks — the same `--iters` option, read from the static part `st` — is
  held fixed while the outer budget varies; the joint variation is covered by the budget sweep.
  Budget 1 (the only pass is the first one) is also left to the sweep.
* `budget_monotone_of_laws` — the same statement for the generic loop skeleton over any pass
  obeying four budget-independent laws (kept: it documents what the skeleton needs).
-/
namespace Casm.C09

/-- the pass count of the loop never exceeds the budget -/
theorem iterations_le_budget (st : Static) (nodes : List AstNode) (max : Nat) (d0 : Defs) (k : Nat) (d : Defs) (rep : List String)
    (h : resolveIterativelyN st nodes max d0 = .ok (k, d, rep)) : k ≤ max :=
  Iter.iters_le_budget (absPass st nodes) max d0 k d (resolveIterativelyN_sim st nodes max d0 k d rep h)

/-- **C09 (pass count).** A successful assembly reports at most `--iters` passes. -/
theorem iters_le_budget (opts : Opts) (fs : SrcFiles) (roots : List (List Char)) (res : AsmOk)
    (h : assemble opts fs roots = .ok res) : res.iters ≤ opts.maxIter := by
  unfold assemble at h
  cases hf : frontEnd opts fs roots with
  | error e => rw [hf] at h; cases h
  | ok x =>
    obtain ⟨st, nodes, defs0⟩ := x
    rw [hf] at h
    simp only at h
    have hst : st.opts = opts := (frontEnd_opts opts fs roots st nodes defs0 hf).1
    cases hr : resolveIteratively st nodes defs0 with
    | error e => rw [hr] at h; cases h
    | ok y =>
      obtain ⟨iters, d, rep⟩ := y
      rw [hr] at h
      have hk := iterations_le_budget st nodes _ defs0 iters d rep hr
      simp only at h
      split at h
      · cases h
      · split at h
        · cases h
        · split at h
          · cases h
          · split at h
            · cases h
            · injection h with h; subst h; simpa [hst] using hk

/-- **C09 (monotonicity), for the model's loop.**  Success with budget `n ≥ 2` implies success
    with every larger budget with the identical final state. -/
theorem budget_monotone (st : Static) (nodes : List AstNode) (hwf : NoClash nodes) (n m : Nat) (hn : 2 ≤ n) (hnm : n ≤ m)
    (d0 : Defs) (k : Nat) (d : Defs) (rep : List String) (h : resolveIterativelyN st nodes n d0 = .ok (k, d, rep)) :
    ∃ k' rep', resolveIterativelyN st nodes m d0 = .ok (k', d, rep') :=
  budget_monotone_model st nodes hwf n m hn hnm d0 k d rep h

/-- **C09 (monotonicity) for every program the front end accepts**: no hypothesis on the nodes -/
theorem budget_monotone_after_front_end (opts : Opts) (fs : SrcFiles) (roots : List (List Char)) (st : Static) (nodes : List AstNode)
    (defs0 : Defs) (hf : frontEnd opts fs roots = .ok (st, nodes, defs0)) (n m : Nat) (hn : 2 ≤ n) (hnm : n ≤ m)
    (k : Nat) (d : Defs) (rep : List String) (h : resolveIterativelyN st nodes n defs0 = .ok (k, d, rep)) :
    ∃ k' rep', resolveIterativelyN st nodes m defs0 = .ok (k', d, rep') :=
  budget_monotone st nodes (frontEnd_noClash opts fs roots st nodes defs0 hf) n m hn hnm defs0 k d rep h

/-- **C09 (monotonicity) from every budget of at least one pass**, for every program the front end accepts.
    With a budget of one pass the single pass is first, strict and stable; its result is a fixed point of
    the later strict pass (`CornerLast`), the guessing first pass of a larger budget computes the same state
    (`ModeMonoFirst`), and the iteration stays there. -/
theorem budget_monotone_from_every_budget (opts : Opts) (fs : SrcFiles) (roots : List (List Char)) (st : Static) (nodes : List AstNode)
    (defs0 : Defs) (hf : frontEnd opts fs roots = .ok (st, nodes, defs0)) (n m : Nat) (hn : 1 ≤ n) (hnm : n ≤ m)
    (k : Nat) (d : Defs) (rep : List String) (h : resolveIterativelyN st nodes n defs0 = .ok (k, d, rep)) :
    ∃ k' rep', resolveIterativelyN st nodes m defs0 = .ok (k', d, rep') :=
  budget_monotone_any st nodes (frontEnd_noClash opts fs roots st nodes defs0 hf) (frontEnd_uniq opts fs roots st nodes defs0 hf)
    defs0 (frontEnd_nodesOK opts fs roots st nodes defs0 hf) n m hn hnm k d rep h

/-- **the messages of a successful iteration are those of its confirming pass** (budget at least two):
    passes that are not the last report nothing -/
theorem messages_are_the_confirming_pass's (st : Static) (nodes : List AstNode) (max : Nat) (hmax : 2 ≤ max) (hwf : NoClash nodes)
    (d0 : Defs) (k : Nat) (d : Defs) (rep : List String) (h : resolveIterativelyN st nodes max d0 = .ok (k, d, rep)) :
    resolveOnce st nodes false true d = .ok (d, true, rep) :=
  resolveIterativelyN_rep st nodes max hmax hwf d0 k d rep h

/-- **C09, end to end, with the budget of `asm`-block loops pinned**: a program that assembles under a
    budget of at least one pass assembles under every larger budget to the same bits, spans and symbols.
    The hypothesis `innerIter = some k` is exactly what the code lacks (finding F38: `eval_asm` runs its
    own loop under `max_iterations`); the model with `innerIter = none` reproduces the code. -/
theorem budget_monotone_end_to_end_with_pinned_inner_budget (opts : Opts) (k : Nat) (hk : opts.innerIter = some k)
    (fs : SrcFiles) (roots : List (List Char)) (n m : Nat) (hn : 1 ≤ n) (hnm : n ≤ m) (out : AsmOk)
    (h : assemble (opts.withMax n) fs roots = .ok out) :
    ∃ out', assemble (opts.withMax m) fs roots = .ok out' ∧ out'.core = out.core :=
  assemble_budget_monotone_pinned opts k hk fs roots n m hn hnm out h

/-- lowering the budget can only turn success into an error, never into a different state -/
theorem lower_budget_same_or_error_model (st : Static) (nodes : List AstNode) (hwf : NoClash nodes) (n m : Nat) (hn : 2 ≤ n) (hnm : n ≤ m)
    (d0 : Defs) (k k' : Nat) (d d' : Defs) (rep rep' : List String)
    (h : resolveIterativelyN st nodes n d0 = .ok (k, d, rep))
    (h' : resolveIterativelyN st nodes m d0 = .ok (k', d', rep')) : d' = d := by
  obtain ⟨k2, rep2, h2⟩ := budget_monotone st nodes hwf n m hn hnm d0 k d rep h
  rw [h'] at h2
  injection h2 with h2; injection h2 with _ h2; injection h2 with h2 _

/-- **where the strict pass is stable, the guessing pass computes the same state** -/
theorem guessing_agrees_with_strict (st : Static) (nodes : List AstNode) (d d' : Defs) (rep : List String)
    (h : resolveOnce st nodes false true d = .ok (d', true, rep)) :
    ∃ b rep', resolveOnce st nodes false false d = .ok (d', b, rep') :=
  resolveOnce_guess st nodes d d' rep h

/-- **evaluation is monotone in its environment**: if every answer of one environment is also
    the answer of another, every value computed in the first is computed in the second -/
theorem evaluation_is_monotone (env1 env2 : EvalEnv) (le : EnvLe env1 env2) (c : ECtx) (e : Expr) (r : Value × ECtx)
    (h : eval env1 c e = .ok r) : eval env2 c e = .ok r :=
  eval_mono env1 env2 le c e r h

/-- the resolver's environment with guessing forbidden is below the one with guessing allowed -/
theorem strict_env_below_guessing_env (st : Static) (defs : Defs) (fuel : Nat) (c : RCtx) :
    EnvLe (mkEnv st defs fuel c) (mkEnv st defs fuel (guessOf c)) :=
  mkEnv_le st defs fuel c

/-- **C09 (monotonicity of the loop skeleton under pass laws)** -/
theorem budget_monotone_of_laws (st : Static) (nodes : List AstNode) (L : Iter.Laws (absPass st nodes))
    (n m : Nat) (hn : 1 ≤ n) (hnm : n ≤ m) (d0 : Defs) (k : Nat) (d : Defs) (rep : List String)
    (h : resolveIterativelyN st nodes n d0 = .ok (k, d, rep)) :
    ∃ k' rep', resolveIterativelyN st nodes m d0 = .ok (k', d, rep') := by
  have h1 := resolveIterativelyN_sim st nodes n d0 k d rep h
  obtain ⟨k', hk'⟩ := Iter.budget_monotone (absPass st nodes) L n m hn hnm d0 k d h1
  rw [← resolveIterativelyN_eq] at hk'
  obtain ⟨rep', hr⟩ := projIter_ok.mp hk'
  exact ⟨k', rep', hr⟩

/-- lowering the budget can only turn success into an error: whenever both budgets succeed
    (under the laws) the final states are identical -/
theorem lower_budget_same_or_error (st : Static) (nodes : List AstNode) (L : Iter.Laws (absPass st nodes))
    (n m : Nat) (hn : 1 ≤ n) (hnm : n ≤ m) (d0 : Defs) (k k' : Nat) (d d' : Defs) (rep rep' : List String)
    (h : resolveIterativelyN st nodes n d0 = .ok (k, d, rep))
    (h' : resolveIterativelyN st nodes m d0 = .ok (k', d', rep')) : d' = d := by
  obtain ⟨k2, rep2, h2⟩ := budget_monotone_of_laws st nodes L n m hn hnm d0 k d rep h
  rw [h'] at h2
  injection h2 with h2; injection h2 with _ h2; injection h2 with h2 _

/-! ### the generic theorems are not vacuous: a toy pass that needs three passes -/

/-- counts up to 3, stable from then on -/
def toyPass : Iter.Pass Nat := fun _ s => if s < 3 then .ok (s + 1, false) else .ok (s, true)

example : Iter.iterate toyPass 2 0 = .err := by decide
example : Iter.iterate toyPass 4 0 = .ok (4, 3) := by decide
example : Iter.iterate toyPass 10 0 = .ok (4, 3) := by decide

theorem toyPass_laws : Iter.Laws toyPass where
  stableId := by
    intro l s s' h
    simp only [toyPass] at h
    split at h
    · cases h
    · injection h with h; injection h with h _; exact h.symm
  firstStable := by
    intro l s s' h
    simp only [toyPass] at h
    split at h
    · cases h
    · rename_i hs
      injection h with h; injection h with h _; subst h
      exact ⟨false, by simp [toyPass, hs]⟩
  modeMono := by
    intro f s s' h
    exact ⟨true, h⟩
  firstIrrel := by
    intro r hr f
    obtain ⟨f', hf'⟩ := hr
    exact hf'

end Casm.C09
