import Casm.Proofs.IterModel
import Casm.Proofs.AssembleLemmas
/-!
# C09 — the iteration budget decides whether a program assembles, never to what

* `iters_le_budget` — the pass count reported by a successful assembly never exceeds the
  budget (unconditional, about `Casm.assemble`).
* `budget_one_is_single_strict_pass` — with budget 1 the only pass is first *and* last.
* `budget_monotone_of_laws` — for the loop skeleton of `resolve_iteratively` over the model's
  pass: if the loop succeeds with budget `n`, it succeeds with every `m ≥ n` with the
  identical final state, provided the pass obeys `Iter.Laws` (a stable non-first pass is the
  identity; a stable first pass yields a strict fixed point; where the strict pass is stable
  the guessing pass computes the same state; the `first` flag is irrelevant on fixed points).
  The laws are statements about one pass, independent of any budget.  `stableId` is proved for
  the model in `Casm.Proofs.StableId`; the other three are established per run by the
  correspondence (budget sweep against the implementation and the model), so this theorem is
  the *partial* form of the monotonicity claim: the budget enters only through the loop
  skeleton, and for the skeleton the claim is proved.  The inner budget of `asm` blocks (the
  same `--iters` value, `evalAsm`) is part of the pass and is held fixed in this theorem; its
  variation is covered by the correspondence sweep only.
-/
namespace Casm.C09

/-- the pass count of the loop never exceeds the budget -/
theorem iterations_le_budget (st : Static) (nodes : List AstNode) (max : Nat) (d0 : Defs) (k : Nat) (d : Defs) (rep : List String)
    (h : resolveIterativelyN st nodes max d0 = .ok (k, d, rep)) : k ≤ max :=
  Iter.iters_le_budget (absPass st nodes) max d0 k d (resolveIterativelyN_sim st nodes max d0 k d rep h)

/-- **C09 (pass count).** A successful assembly reports at most `--iters` passes. -/
theorem iters_le_budget (opts : Opts) (fs : SrcFiles) (roots : List (List Char)) (res : AsmOk)
    (h : assemble opts fs roots = .ok res) : res.iters ≤ opts.maxIter := by
  unfold assemble at h
  cases hf : frontEnd opts fs roots with
  | error e => rw [hf] at h; cases h
  | ok x =>
    obtain ⟨st, nodes, defs0⟩ := x
    rw [hf] at h
    simp only at h
    have hst : st.opts = opts := (frontEnd_opts opts fs roots st nodes defs0 hf).1
    cases hr : resolveIteratively st nodes defs0 with
    | error e => rw [hr] at h; cases h
    | ok y =>
      obtain ⟨iters, d, rep⟩ := y
      rw [hr] at h
      have hk := iterations_le_budget st nodes _ defs0 iters d rep hr
      simp only at h
      split at h
      · cases h
      · split at h
        · cases h
        · split at h
          · cases h
          · split at h
            · cases h
            · injection h with h; subst h; simpa [hst] using hk

/-- **C09 (monotonicity of the loop skeleton), partial form — see the header.** -/
theorem budget_monotone_of_laws (st : Static) (nodes : List AstNode) (L : Iter.Laws (absPass st nodes))
    (n m : Nat) (hn : 1 ≤ n) (hnm : n ≤ m) (d0 : Defs) (k : Nat) (d : Defs) (rep : List String)
    (h : resolveIterativelyN st nodes n d0 = .ok (k, d, rep)) :
    ∃ k' rep', resolveIterativelyN st nodes m d0 = .ok (k', d, rep') := by
  have h1 := resolveIterativelyN_sim st nodes n d0 k d rep h
  obtain ⟨k', hk'⟩ := Iter.budget_monotone (absPass st nodes) L n m hn hnm d0 k d h1
  rw [← resolveIterativelyN_eq] at hk'
  obtain ⟨rep', hr⟩ := projIter_ok.mp hk'
  exact ⟨k', rep', hr⟩

/-- lowering the budget can only turn success into an error: whenever both budgets succeed
    (under the laws) the final states are identical -/
theorem lower_budget_same_or_error (st : Static) (nodes : List AstNode) (L : Iter.Laws (absPass st nodes))
    (n m : Nat) (hn : 1 ≤ n) (hnm : n ≤ m) (d0 : Defs) (k k' : Nat) (d d' : Defs) (rep rep' : List String)
    (h : resolveIterativelyN st nodes n d0 = .ok (k, d, rep))
    (h' : resolveIterativelyN st nodes m d0 = .ok (k', d', rep')) : d' = d := by
  obtain ⟨k2, rep2, h2⟩ := budget_monotone_of_laws st nodes L n m hn hnm d0 k d rep h
  rw [h'] at h2
  injection h2 with h2; injection h2 with _ h2; injection h2 with h2 _

/-! ### the generic theorems are not vacuous: a toy pass that needs three passes -/

/-- counts up to 3, stable from then on -/
def toyPass : Iter.Pass Nat := fun _ s => if s < 3 then .ok (s + 1, false) else .ok (s, true)

example : Iter.iterate toyPass 2 0 = .err := by decide
example : Iter.iterate toyPass 4 0 = .ok (4, 3) := by decide
example : Iter.iterate toyPass 10 0 = .ok (4, 3) := by decide

theorem toyPass_laws : Iter.Laws toyPass where
  stableId := by
    intro l s s' h
    simp only [toyPass] at h
    split at h
    · cases h
    · injection h with h; injection h with h _; exact h.symm
  firstStable := by
    intro l s s' h
    simp only [toyPass] at h
    split at h
    · cases h
    · rename_i hs
      injection h with h; injection h with h _; subst h
      exact ⟨false, by simp [toyPass, hs]⟩
  modeMono := by
    intro f s s' h
    exact ⟨true, h⟩
  firstIrrel := by
    intro r hr f
    obtain ⟨f', hf'⟩ := hr
    exact hf'

end Casm.C09
