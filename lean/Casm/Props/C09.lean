import Casm.Model.Assemble
namespace Casm.C09
theorem placeholder : True := trivial
end Casm.C09
