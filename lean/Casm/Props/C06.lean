import Casm.Model.Overlap
import Casm.Model.Layout
import Casm.Proofs.OverlapLemmas
import Casm.Proofs.LayoutLemmas
/-!
# C06 — output layout is safe (part 1: the overlap checker)

`OInv` (sorted by position, consecutive entries disjoint, sizes positive) is an invariant
of every accepted insertion history, an insertion is accepted exactly when the new range
is disjoint from every stored one, and zero-size requests are accepted without being
stored.  Hence no two emitted items ever share an output bit.
-/
namespace Casm.C06

private theorem split_eq (es : List OEntry) (p : Nat) :
    es = es.takeWhile (fun e => e.pos < p) ++ es.dropWhile (fun e => e.pos < p) :=
  (takeWhile_append_dropWhile' es p).symm

/-- An accepted insertion keeps the invariant, stores exactly the new range, and the new
    range is disjoint from every range stored before. -/
theorem insert_accept (es es' : List OEntry) (p s : Nat) (hs : 0 < s) (hinv : OInv es)
    (h : checkAndInsert es p s = some es') :
    OInv es' ∧ es'.Perm (⟨p, s⟩ :: es) ∧ ∀ e ∈ es, Disj ⟨p, s⟩ e := by
  have spec := checkOverlap_spec es p s hs hinv
  simp only at spec
  obtain ⟨hov, hidx⟩ := spec
  unfold checkAndInsert at h
  rw [if_neg (by omega)] at h
  generalize hco : checkOverlap es p s = co at h hov hidx
  obtain ⟨i, ov⟩ := co
  simp only at h hov hidx
  cases ov with
  | true => simp at h
  | false =>
    simp only [Bool.false_eq_true, if_false, Option.some.injEq] at h
    have hi := hidx rfl
    have hno : ¬ ((∃ b, (es.dropWhile (fun e => e.pos < p)).head? = some b ∧ p + s > b.pos) ∨
        (∃ a, (es.takeWhile (fun e => e.pos < p)).getLast? = some a ∧ a.pos + a.size > p)) := by
      intro hc; have := hov.2 hc; simp at this
    subst hi
    have e1 : es.take (es.takeWhile (fun e => e.pos < p)).length = es.takeWhile (fun e => e.pos < p) :=
      take_lowerBound es p
    have e2 : es.drop (es.takeWhile (fun e => e.pos < p)).length = es.dropWhile (fun e => e.pos < p) :=
      drop_lowerBound es p
    unfold insertAt at h
    rw [e1, e2] at h
    subst h
    generalize hl : es.takeWhile (fun e => e.pos < p) = l at *
    generalize hr : es.dropWhile (fun e => e.pos < p) = r at *
    have hes : es = l ++ r := by rw [← hl, ← hr]; exact split_eq es p
    have hinvl : OInv l := oinv_of_append_left (hes ▸ hinv)
    have hinvr : OInv r := oinv_of_append_right (hes ▸ hinv)
    have hhead : ∀ b, r.head? = some b → p + s ≤ b.pos := by
      intro b hb
      have : ¬ (p + s > b.pos) := fun hc => hno (Or.inl ⟨b, hb, hc⟩)
      omega
    have hlast : ∀ a, l.getLast? = some a → a.pos + a.size ≤ p := by
      intro a ha
      have : ¬ (a.pos + a.size > p) := fun hc => hno (Or.inr ⟨a, ha, hc⟩)
      omega
    refine ⟨?_, ?_, ?_⟩
    · apply oinv_append hinvl
      · exact oinv_cons hs hinvr (fun b hb => hhead b hb)
      · intro a b ha hb
        simp at hb; subst hb
        exact hlast a ha
    · rw [hes]
      exact List.perm_middle
    · intro e he
      rw [hes] at he
      rcases List.mem_append.1 he with he | he
      · -- e in the left part: ends before the last of l, which ends before p
        right
        cases hla : l.getLast? with
        | none =>
          have : l = [] := by simpa using hla
          subst this; cases he
        | some z =>
          have h1 := OInv.le_last hinvl z hla e he
          have h2 := hlast z hla
          simp only; omega
      · left
        cases r with
        | nil => cases he
        | cons b t =>
          have hb := hhead b rfl
          rcases List.mem_cons.1 he with rfl | he
          · simpa using hb
          · have := OInv.head_le hinvr e he
            simp only; omega

/-- zero-size requests are accepted and not stored -/
theorem insert_zero (es : List OEntry) (p : Nat) : checkAndInsert es p 0 = some es := by
  simp [checkAndInsert]

/-- A rejected insertion really overlaps a stored range. -/
theorem insert_reject (es : List OEntry) (p s : Nat) (hinv : OInv es)
    (h : checkAndInsert es p s = none) : 0 < s ∧ ∃ e ∈ es, ¬ Disj ⟨p, s⟩ e := by
  have hs : 0 < s := by
    rcases Nat.eq_zero_or_pos s with h0 | h0
    · subst h0; rw [insert_zero] at h; cases h
    · exact h0
  refine ⟨hs, ?_⟩
  have spec := checkOverlap_spec es p s hs hinv
  simp only at spec
  obtain ⟨hov, _⟩ := spec
  unfold checkAndInsert at h
  rw [if_neg (by omega)] at h
  generalize hco : checkOverlap es p s = co at h hov
  obtain ⟨i, ov⟩ := co
  simp only at h hov
  cases ov with
  | false => simp at h
  | true =>
    have hsz := OInv.sizes hinv
    rcases hov.1 rfl with ⟨b, hb, hgt⟩ | ⟨a, ha, hgt⟩
    · have hbr : b ∈ es.dropWhile (fun e => e.pos < p) := List.mem_of_mem_head? hb
      have hbm : b ∈ es := by rw [split_eq es p]; exact List.mem_append_right _ hbr
      have hbp := dropWhile_head es p b hb
      have := hsz b hbm
      refine ⟨b, hbm, ?_⟩
      unfold Disj; simp only; omega
    · have har : a ∈ es.takeWhile (fun e => e.pos < p) := List.mem_of_mem_getLast? ha
      have ham : a ∈ es := by rw [split_eq es p]; exact List.mem_append_left _ har
      have hap := takeWhile_all es p a har
      refine ⟨a, ham, ?_⟩
      unfold Disj; simp only; omega

/-- accepted exactly when disjoint from everything stored (for positive sizes) -/
theorem insert_iff_disjoint (es : List OEntry) (p s : Nat) (hs : 0 < s) (hinv : OInv es) :
    (checkAndInsert es p s).isSome ↔ ∀ e ∈ es, Disj ⟨p, s⟩ e := by
  constructor
  · intro h
    obtain ⟨es', he⟩ := Option.isSome_iff_exists.1 h
    exact (insert_accept es es' p s hs hinv he).2.2
  · intro h
    cases hc : checkAndInsert es p s with
    | some _ => rfl
    | none =>
      obtain ⟨_, e, he, hnd⟩ := insert_reject es p s hinv hc
      exact absurd (h e he) hnd

/-- the invariant holds after every accepted history, from any invariant start -/
theorem history_inv (es es' : List OEntry) (hist : List (Nat × Nat)) (hinv : OInv es)
    (h : insertAll es hist = some es') : OInv es' := by
  induction hist generalizing es with
  | nil => simp [insertAll] at h; subst h; exact hinv
  | cons ps rest ih =>
    obtain ⟨p, s⟩ := ps
    simp only [insertAll] at h
    cases hc : checkAndInsert es p s with
    | none => rw [hc] at h; cases h
    | some es1 =>
      rw [hc] at h
      rcases Nat.eq_zero_or_pos s with h0 | h0
      · subst h0; rw [insert_zero] at hc; cases hc; exact ih es hinv h
      · exact ih es1 (insert_accept es es1 p s h0 hinv hc).1 h

/-- **No two emitted items share an output bit**: after any accepted history the stored
    ranges are pairwise disjoint. -/
theorem no_two_items_share_a_bit (es' : List OEntry) (hist : List (Nat × Nat))
    (h : insertAll [] hist = some es') : es'.Pairwise Disj :=
  OInv.pairwise (history_inv [] es' hist trivial h)

/-- the F07 history (a zero-size reservation between two writes at the same place) is
    rejected -/
example : insertAll [] [(0, 8), (0, 0), (0, 8)] = none := by decide
example : insertAll [] [(8, 8), (0, 8), (16, 4), (4, 0)] = some [⟨0, 8⟩, ⟨8, 8⟩, ⟨16, 4⟩] := by decide

end Casm.C06

/-! # Part 2: banks and `build_output` -/
namespace Casm.C06
open Casm

/-- one emitted item, with the bank and in-bank position it was written at (ghost record) -/
structure Emitted where
  pos : Nat
  bits : List Bool
  addr : Int
  bank : Bank
  cur : Nat

def EDisj (a b : Emitted) : Prop :=
  a.bits.length = 0 ∨ b.bits.length = 0 ∨ Disj ⟨a.pos, a.bits.length⟩ ⟨b.pos, b.bits.length⟩

def endsMax (L0 : Nat) (ds : List Emitted) : Nat := ds.foldl (fun m d => max m (d.pos + d.bits.length)) L0

/-- the invariant of the `build_output` loop -/
structure BInv (banks : List Bank) (L0 : Nat) (st : BuildSt) (ds : List Emitted) : Prop where
  oinv : OInv st.ov
  inov : ∀ d ∈ ds, 0 < d.bits.length → (⟨d.pos, d.bits.length⟩ : OEntry) ∈ st.ov
  pair : ds.Pairwise EDisj
  bits : ∀ d ∈ ds, ∀ j, j < d.bits.length → readBit st.out (d.pos + j) = d.bits.getD j false
  zero : ∀ i, readBit st.out i = true → ∃ d ∈ ds, d.pos ≤ i ∧ i < d.pos + d.bits.length
  len : st.out.length = endsMax L0 ds
  win : ∀ d ∈ ds, d.bank ∈ banks ∧ ∃ o, d.bank.outp = some o ∧ d.pos = o + d.cur ∧
          (∀ sz, d.bank.size = some sz → d.cur + d.bits.length ≤ sz) ∧ d.addr = getAddress d.bank d.cur
  span : ∀ d ∈ ds, (⟨some d.pos, d.bits.length, d.addr⟩ : OSpan) ∈ st.spans
  spans_emit : ∀ sp ∈ st.spans, 0 < sp.size → ∃ d ∈ ds, sp = ⟨some d.pos, d.bits.length, d.addr⟩

def emitBits : RItem → List (List Bool)
  | .emit bits => [bits]
  | _ => []

theorem disj_symm {a b : OEntry} (h : Disj a b) : Disj b a := Or.symm h

theorem mem_of_getElem? {α} {l : List α} {i : Nat} {a : α} (h : l[i]? = some a) : a ∈ l :=
  List.mem_of_getElem? h

/-- a reservation or zero-size insertion keeps what the invariant says about the checker -/
theorem ov_step (ov ov' : List OEntry) (p s : Nat) (hinv : OInv ov) (h : checkAndInsert ov p s = some ov') :
    OInv ov' ∧ ∀ e ∈ ov, e ∈ ov' := by
  rcases Nat.eq_zero_or_pos s with h0 | h0
  · subst h0; rw [insert_zero] at h; cases h; exact ⟨hinv, fun e he => he⟩
  · have := insert_accept ov ov' p s h0 hinv h
    exact ⟨this.1, fun e he => this.2.1.symm.subset (List.mem_cons_of_mem _ he)⟩

/-- **The step theorem**: one accepted step of `build_output` keeps the invariant and
    records exactly the bits of the item, if it emits any. -/
theorem step_inv (banks : List Bank) (L0 : Nat) (st st' : BuildSt) (ds : List Emitted) (item : RItem)
    (hinv : BInv banks L0 st ds) (h : buildStep banks st item = .ok st') :
    ∃ ds', BInv banks L0 st' ds' ∧ ds'.map (·.bits) = ds.map (·.bits) ++ emitBits item := by
  unfold buildStep at h
  cases hv : visit banks st.it item with
  | error e => rw [hv] at h; cases h
  | ok it =>
    rw [hv] at h
    simp only at h
    cases hb : banks[it.bank]? with
    | none => rw [hb] at h; cases h
    | some b =>
      rw [hb] at h
      simp only at h
      cases hn : nodeOf banks b it st item with
      | error e => rw [hn] at h; cases h
      | ok st1 =>
        rw [hn] at h
        simp only at h
        cases ha : advance banks st1.it item with
        | error e => rw [ha] at h; cases h
        | ok it' =>
          rw [ha] at h
          simp only [Except.ok.injEq] at h
          subst h
          -- the invariant does not mention `it`: reduce to st1
          suffices hs : ∃ ds', BInv banks L0 st1 ds' ∧ ds'.map (·.bits) = ds.map (·.bits) ++ emitBits item by
            obtain ⟨ds', hI, hm⟩ := hs
            exact ⟨ds', ⟨hI.oinv, hI.inov, hI.pair, hI.bits, hI.zero, hI.len, hI.win, hI.span, hI.spans_emit⟩, hm⟩
          have hbm : b ∈ banks := mem_of_getElem? hb
          cases item with
          | emit bits =>
            simp only [nodeOf] at hn
            obtain ⟨o, ho, _, hwin, hci, hout, hsp, _⟩ := nodeEmit_ok banks b it st st1 bits hn
            let nd : Emitted := ⟨o + it.pos, bits, getAddress b it.pos, b, it.pos⟩
            refine ⟨ds ++ [nd], ?_, by simp [emitBits, nd]⟩
            have hstep := ov_step st.ov st1.ov (o + it.pos) bits.length hinv.oinv hci
            -- the new range is disjoint from every stored positive range
            have hdisj : 0 < bits.length → ∀ e ∈ st.ov, Disj ⟨o + it.pos, bits.length⟩ e :=
              fun hp => (insert_accept st.ov st1.ov _ _ hp hinv.oinv hci).2.2
            have hnew_in : 0 < bits.length → (⟨o + it.pos, bits.length⟩ : OEntry) ∈ st1.ov := by
              intro hp
              have := (insert_accept st.ov st1.ov _ _ hp hinv.oinv hci).2.1
              exact this.symm.subset (List.mem_cons_self)
            have hold : ∀ d ∈ ds, EDisj d nd := by
              intro d hd
              rcases Nat.eq_zero_or_pos d.bits.length with h0 | h0
              · exact Or.inl h0
              · rcases Nat.eq_zero_or_pos bits.length with h1 | h1
                · exact Or.inr (Or.inl h1)
                · exact Or.inr (Or.inr (disj_symm (hdisj h1 _ (hinv.inov d hd h0))))
            refine ⟨hstep.1, ?_, ?_, ?_, ?_, ?_, ?_, ?_, ?_⟩
            · intro d hd hp
              rcases List.mem_append.1 hd with hd | hd
              · exact hstep.2 _ (hinv.inov d hd hp)
              · simp only [List.mem_singleton] at hd; subst hd; exact hnew_in hp
            · rw [List.pairwise_append]
              refine ⟨hinv.pair, List.pairwise_singleton _ _, ?_⟩
              intro a ha b' hb'
              simp only [List.mem_singleton] at hb'; subst hb'
              exact hold a ha
            · intro d hd j hj
              rw [hout, readBit_writeAt]
              rcases List.mem_append.1 hd with hd | hd
              · have hE := hold d hd
                have hnot : ¬ (o + it.pos ≤ d.pos + j ∧ d.pos + j < o + it.pos + bits.length) := by
                  rcases hE with h0 | h0 | h0
                  · omega
                  · simp only [nd] at h0; omega
                  · unfold Disj at h0; simp only [nd] at h0; omega
                rw [if_neg hnot]
                exact hinv.bits d hd j hj
              · simp only [List.mem_singleton] at hd; subst hd
                simp only [nd] at hj ⊢
                rw [if_pos ⟨by omega, by omega⟩]
                congr 1; omega
            · intro i hi
              rw [hout, readBit_writeAt] at hi
              split at hi
              · rename_i hc
                exact ⟨nd, List.mem_append_right _ (List.mem_singleton_self _), hc.1, hc.2⟩
              · obtain ⟨d, hd, h1, h2⟩ := hinv.zero i hi
                exact ⟨d, List.mem_append_left _ hd, h1, h2⟩
            · rw [hout, length_writeAt, hinv.len]
              simp [endsMax, List.foldl_append, nd]
            · intro d hd
              rcases List.mem_append.1 hd with hd | hd
              · exact hinv.win d hd
              · simp only [List.mem_singleton] at hd; subst hd
                exact ⟨hbm, o, ho, rfl, hwin, rfl⟩
            · intro d hd
              rw [hsp]
              rcases List.mem_append.1 hd with hd | hd
              · exact List.mem_append_left _ (hinv.span d hd)
              · simp only [List.mem_singleton] at hd; subst hd
                exact List.mem_append_right _ (List.mem_singleton_self _)
            · intro sp hsp' hpos
              rw [hsp] at hsp'
              rcases List.mem_append.1 hsp' with hs | hs
              · obtain ⟨d, hd, he⟩ := hinv.spans_emit sp hs hpos
                exact ⟨d, List.mem_append_left _ hd, he⟩
              · simp only [List.mem_singleton] at hs
                exact ⟨nd, List.mem_append_right _ (List.mem_singleton_self _), hs⟩
          | res n =>
            simp only [nodeOf] at hn
            obtain ⟨hout, hsp, _, hov⟩ := nodeRes_ok banks b it st st1 n hn
            refine ⟨ds, ?_, by simp [emitBits]⟩
            have hstep : OInv st1.ov ∧ ∀ e ∈ st.ov, e ∈ st1.ov := by
              rcases hov with he | ⟨o, _, hci⟩
              · rw [he]; exact ⟨hinv.oinv, fun e h => h⟩
              · exact ov_step st.ov st1.ov _ n hinv.oinv hci
            refine ⟨hstep.1, fun d hd hp => hstep.2 _ (hinv.inov d hd hp), hinv.pair, ?_, ?_, ?_, hinv.win, ?_, ?_⟩
            · rw [hout]; exact hinv.bits
            · rw [hout]; exact hinv.zero
            · rw [hout]; exact hinv.len
            · rw [hsp]; exact hinv.span
            · rw [hsp]; exact hinv.spans_emit
          | label d v =>
            simp only [nodeOf] at hn
            obtain ⟨hout, hov, _, hsp⟩ := nodeLabel_ok banks b it st st1 v hn
            refine ⟨ds, ?_, by simp [emitBits]⟩
            refine ⟨hov ▸ hinv.oinv, hov ▸ hinv.inov, hinv.pair, hout ▸ hinv.bits, hout ▸ hinv.zero,
              hout ▸ hinv.len, hinv.win, ?_, ?_⟩
            · intro e he; rw [hsp]; exact List.mem_append_left _ (hinv.span e he)
            · intro sp hs hpos
              rw [hsp] at hs
              rcases List.mem_append.1 hs with hs | hs
              · exact hinv.spans_emit sp hs hpos
              · simp only [List.mem_singleton] at hs; subst hs; simp at hpos
          | bank k =>
            simp only [nodeOf, Except.ok.injEq] at hn; subst hn
            exact ⟨ds, ⟨hinv.oinv, hinv.inov, hinv.pair, hinv.bits, hinv.zero, hinv.len, hinv.win, hinv.span, hinv.spans_emit⟩, by simp [emitBits]⟩
          | align k =>
            simp only [nodeOf, Except.ok.injEq] at hn; subst hn
            exact ⟨ds, ⟨hinv.oinv, hinv.inov, hinv.pair, hinv.bits, hinv.zero, hinv.len, hinv.win, hinv.span, hinv.spans_emit⟩, by simp [emitBits]⟩
          | addr k =>
            simp only [nodeOf, Except.ok.injEq] at hn; subst hn
            exact ⟨ds, ⟨hinv.oinv, hinv.inov, hinv.pair, hinv.bits, hinv.zero, hinv.len, hinv.win, hinv.span, hinv.spans_emit⟩, by simp [emitBits]⟩
          | const k =>
            simp only [nodeOf, Except.ok.injEq] at hn; subst hn
            exact ⟨ds, ⟨hinv.oinv, hinv.inov, hinv.pair, hinv.bits, hinv.zero, hinv.len, hinv.win, hinv.span, hinv.spans_emit⟩, by simp [emitBits]⟩
          | other =>
            simp only [nodeOf, Except.ok.injEq] at hn; subst hn
            exact ⟨ds, ⟨hinv.oinv, hinv.inov, hinv.pair, hinv.bits, hinv.zero, hinv.len, hinv.win, hinv.span, hinv.spans_emit⟩, by simp [emitBits]⟩

theorem loop_inv (banks : List Bank) (L0 : Nat) (items : List RItem) (st st' : BuildSt) (ds : List Emitted)
    (hinv : BInv banks L0 st ds) (h : buildLoop banks st items = .ok st') :
    ∃ ds', BInv banks L0 st' ds' ∧ ds'.map (·.bits) = ds.map (·.bits) ++ items.flatMap emitBits := by
  induction items generalizing st ds with
  | nil =>
    simp only [buildLoop, Except.ok.injEq] at h; subst h
    exact ⟨ds, hinv, by simp⟩
  | cons i rest ih =>
    simp only [buildLoop] at h
    cases hs : buildStep banks st i with
    | error e => rw [hs] at h; cases h
    | ok st1 =>
      rw [hs] at h
      obtain ⟨ds1, hI1, hm1⟩ := step_inv banks L0 st st1 ds i hinv hs
      obtain ⟨ds2, hI2, hm2⟩ := ih st1 ds1 hI1 h
      exact ⟨ds2, hI2, by rw [hm2, hm1]; simp [List.append_assoc]⟩

/-- **C06 for the layout model.**  If `build_output` succeeds there is a list of emitted
    items — exactly the bit strings of the emitting items, in order — such that: no two of
    them share an output bit; each lies in the output window of its bank at
    `outp + position`, the address being `position / unit + addr`; the output holds
    exactly their bits at their positions; every other bit is zero; and the output
    extends exactly to the last written bit or the end of the last filled bank. -/
theorem build_output_safe (banks : List Bank) (items : List RItem) (out : Output)
    (h : buildOutput banks items = .ok out) :
    ∃ ds : List Emitted,
      ds.map (·.bits) = items.flatMap emitBits ∧
      ds.Pairwise EDisj ∧
      (∀ d ∈ ds, d.bank ∈ banks ∧ ∃ o, d.bank.outp = some o ∧ d.pos = o + d.cur ∧
          (∀ sz, d.bank.size = some sz → d.cur + d.bits.length ≤ sz) ∧ d.addr = getAddress d.bank d.cur) ∧
      (∀ d ∈ ds, ∀ j, j < d.bits.length → readBit out.bits (d.pos + j) = d.bits.getD j false) ∧
      (∀ i, readBit out.bits i = true → ∃ d ∈ ds, d.pos ≤ i ∧ i < d.pos + d.bits.length) ∧
      out.bits.length = endsMax (fillBanks banks []).length ds ∧
      (∀ sp ∈ out.spans, 0 < sp.size → ∃ d ∈ ds, sp = ⟨some d.pos, d.bits.length, d.addr⟩) := by
  unfold buildOutput at h
  split at h
  · cases h
  · cases hl : buildLoop banks ⟨initIter banks, fillBanks banks [], [], []⟩ items with
    | error e => rw [hl] at h; cases h
    | ok st =>
      rw [hl] at h
      simp only [Except.ok.injEq] at h
      subst h
      have h0 : BInv banks (fillBanks banks []).length ⟨initIter banks, fillBanks banks [], [], []⟩ [] := by
        refine ⟨trivial, ?_, List.Pairwise.nil, ?_, ?_, rfl, ?_, ?_, ?_⟩
        · intro d hd; cases hd
        · intro d hd; cases hd
        · intro i hi
          have := fillBanks_zero banks [] (by intro i; simp [readBit]) i
          simp only at hi
          rw [this] at hi; cases hi
        · intro d hd; cases hd
        · intro d hd; cases hd
        · intro sp hs; cases hs
      obtain ⟨ds, hI, hm⟩ := loop_inv banks _ items _ st [] h0 hl
      exact ⟨ds, by simpa using hm, hI.pair, hI.win, hI.bits, hI.zero, hI.len, hI.spans_emit⟩

/-- position formula: `pos = outp + (addr - addr₀)·unit + cur mod unit` -/
theorem position_formula (b : Bank) (cur o : Nat) (hu : 0 < b.addrUnit) :
    ((o + cur : Nat) : Int) = o + (getAddress b cur - b.addrStart) * b.addrUnit + (cur % b.addrUnit : Nat) := by
  unfold getAddress
  have := Nat.div_add_mod cur b.addrUnit
  have e : ((cur / b.addrUnit : Nat) : Int) + b.addrStart - b.addrStart = (cur / b.addrUnit : Nat) := by omega
  rw [e]
  have h2 : ((cur / b.addrUnit : Nat) : Int) * (b.addrUnit : Int) = ((b.addrUnit * (cur / b.addrUnit) : Nat) : Int) := by
    push_cast; rw [Int.mul_comm]
  rw [h2]
  omega

/-- bank windows: if `check_bank_overlap` passes, any two user banks that both have an
    output offset and a size have disjoint output windows -/
theorem bank_windows_disjoint (banks : List Bank) (h : checkBankOverlap banks = true)
    (i j : Nat) (hi : 1 ≤ i) (hij : i < j) (hj : j < banks.length)
    (o1 o2 s1 s2 : Nat)
    (h1 : (banks.getD i defaultBank).outp = some o1) (h2 : (banks.getD j defaultBank).outp = some o2)
    (hs1 : (banks.getD i defaultBank).size = some s1) (hs2 : (banks.getD j defaultBank).size = some s2) :
    o1 + s1 ≤ o2 ∨ o2 + s2 ≤ o1 := by
  unfold checkBankOverlap at h
  simp only [List.all_eq_true, List.mem_filter, List.mem_range, decide_eq_true_eq, and_imp] at h
  have := h i (by omega) hi j hj (by omega)
  rw [if_pos hij] at this
  simp only [banksOverlap, h1, h2, hs1, hs2, Bool.not_eq_true', Bool.and_eq_false_iff, decide_eq_false_iff_not] at this
  omega


/-- **an accepted item's position in the output fits a machine word** (finding F81, repaired): the check that admits an
    item into its bank also makes sure that `outp + position + size` is not taken modulo 2^64, so the item cannot land
    outside its bank's window by wrapping around -/
theorem accepted_item_is_addressable (b : Bank) (cur size : Nat) (write : Bool)
    (h : checkBankOutput b cur size write = .ok ()) : ∀ o, b.outp = some o → o + cur + size < 2 ^ 64 :=
  checkBankOutput_fits b cur size write h

/-! ### bank fields (findings F65 and F57, repaired) -/

/-- **`fill = false` does not fill**, `fill = true` and a bare `fill` do, and an absent field does not -/
theorem fill_field_means_its_value (nm : String) (b : Bool) :
    fillValue (some ⟨nm, some (.lit (.bool b))⟩) = .ok b ∧ fillValue (some ⟨nm, none⟩) = .ok true ∧ fillValue none = .ok false :=
  ⟨rfl, rfl, rfl⟩

/-- a value that is not a boolean literal is rejected, not taken for true -/
theorem fill_field_rejects_other_values (nm : String) (v : BI) :
    fillValue (some ⟨nm, some (.lit (.int v))⟩) = .error "expected boolean literal" := rfl

/-- **only labels are padded to `labelalign`**: visiting a constant declaration leaves every bank position as it was -/
theorem constant_is_not_padded (banks : List Bank) (s : IterSt) (k : Nat) : visit banks s (.const k) = .ok s := rfl

end Casm.C06
