import Casm.Model.Driver
/-!
# C18 — the command line does what the usage text says

The format table (`Gen.formatTable`), the usage text (`Gen.usageFormats`,
`Gen.usageSameAs`) and the option table are re-extracted from `driver.rs` and
`usage_help.md` on every run; the theorems below are therefore re-checked against what
the source says now.
-/
namespace Casm.C18

def isOkE {ε α} : Except ε α → Bool
  | .ok _ => true
  | .error _ => false

/-- the format a documented row should select: its variant with the documented defaults -/
def rowOk (row : String × List (String × Nat)) : Bool :=
  match parseOutputFormat row.1.toList, Gen.formatTable.find? (·.1 == row.1) with
  | .ok f, some (_, variant, fields) =>
    f.variant == variant &&
    -- every documented parameter exists in the code with the documented default
    row.2.all (fun (p, d) => fields.any (fun fs => fs.param == some p && fs.default == d))
  | _, _ => false

/-- **Every format name listed in the usage text is accepted** and selects that format;
    every documented parameter exists with the documented default. -/
theorem documented_accepted : Gen.usageFormats.all rowOk = true := by decide

/-- giving a documented parameter its documented default value is the same as omitting it -/
def rowDefaultsOk (row : String × List (String × Nat)) : Bool :=
  row.2.all fun (p, d) =>
    match parseOutputFormat (row.1 ++ "," ++ p ++ ":" ++ toString d).toList, parseOutputFormat row.1.toList with
    | .ok a, .ok b => a == b
    | _, _ => false

theorem documented_defaults : Gen.usageFormats.all rowDefaultsOk = true := by decide

/-- "Same as" lines of the usage text hold -/
theorem same_as_holds : Gen.usageSameAs.all (fun (a, b) =>
    match parseOutputFormat a.toList, parseOutputFormat b.toList with
    | .ok x, .ok y => x == y
    | _, _ => false) = true := by decide

/-- the documented names, and the two undocumented aliases the code also accepts (F27) -/
theorem code_names_vs_usage :
    (Gen.formatTable.map (·.1)).filter (fun n => !(Gen.usageFormats.map (·.1)).contains n) = ["annotatedhex", "c"] := by
  decide

/-- **An unknown format name is rejected** (whatever well-formed parameters follow). -/
theorem unknown_format_rejected (idc : List Char) (params : List (List Char)) (ps : Params)
    (hid : Gen.formatTable.find? (·.1 == String.ofList idc) = none)
    (hsplit : splitOnChar ',' (joinWith [','] (idc :: params)) = idc :: params)
    (hp : collectParams (String.ofList idc) params [] = .ok ps) :
    parseOutputFormat (joinWith [','] (idc :: params)) = .error s!"unknown format `{String.ofList idc}`" := by
  unfold parseOutputFormat
  rw [hsplit]
  simp only [hp, hid]

/-- **An unknown parameter is rejected**: if, after the fields of the format took theirs, a
    parameter key is left over, the result is an error. -/
theorem leftover_param_rejected (id : String) (fields : List Gen.FieldSpec) (ps left : Params)
    (fs : List (String × Nat)) (paramStrs : List (List Char)) (p : List Char)
    (_hres : resolveFields id fields ps [] = .ok (fs, left))
    (hfind : paramStrs.find? (fun p => (left.get (String.ofList ((splitOnChar ':' p).headD []))).isSome) = some p) :
    (match paramStrs.find? (fun p => (left.get (String.ofList ((splitOnChar ':' p).headD []))).isSome) with
     | some p => (Except.error s!"unknown format argument `{id},{String.ofList ((splitOnChar ':' p).headD [])}`" : Except String OutFmt)
     | none => .ok ⟨"", fs⟩) =
    .error s!"unknown format argument `{id},{String.ofList ((splitOnChar ':' p).headD [])}`" := by
  rw [hfind]

/-- **a parameter given twice is rejected** (finding F74, repaired): once a key is in the map, another part with that key
    is an invalid format argument - so no value is ever dropped unchecked -/
theorem duplicate_param_rejected (id : String) (p k v : List Char) (rest : List (List Char)) (acc : Params)
    (hs : splitOnChar ':' p = [k, v]) (hd : (acc.get (String.ofList k)).isSome = true) :
    collectParams id (p :: rest) acc = .error s!"invalid format argument `{id},{String.ofList p}`" := by
  rw [collectParams, hs]
  simp only [hd, if_true]

theorem duplicate_bare_param_rejected (id : String) (p k : List Char) (rest : List (List Char)) (acc : Params)
    (hs : splitOnChar ':' p = [k]) (hd : (acc.get (String.ofList k)).isSome = true) :
    collectParams id (p :: rest) acc = .error s!"invalid format argument `{id},{String.ofList p}`" := by
  rw [collectParams, hs]
  simp only [hd, if_true]

/-- a key that is new to the map is inserted and stays retrievable -/
theorem params_get_insert (ps : Params) (k v : String) : (ps.insert k v).get k = some v := by
  simp [Params.insert, Params.get]

/-- a value that fails its validator is rejected -/
theorem invalid_value_rejected (id : String) (f : Gen.FieldSpec) (rest : List Gen.FieldSpec) (ps : Params)
    (acc : List (String × Nat)) (pname value : String) (v : Nat)
    (hp : f.param = some pname) (hget : ps.get pname = some value)
    (hparse : parseUsize value.toList = some v) (hbad : f.validator.check v = false) :
    resolveFields id (f :: rest) ps acc = .error s!"invalid format argument `{id},{pname}:{value}`" := by
  simp [resolveFields, hp, hget, hparse, hbad]

theorem malformed_value_rejected (id : String) (f : Gen.FieldSpec) (rest : List Gen.FieldSpec) (ps : Params)
    (acc : List (String × Nat)) (pname value : String)
    (hp : f.param = some pname) (hget : ps.get pname = some value)
    (hparse : parseUsize value.toList = none) :
    resolveFields id (f :: rest) ps acc = .error s!"invalid format argument `{id},{pname}:{value}`" := by
  simp [resolveFields, hp, hget, hparse]

/-- the documented value set of `tcgame,base` is what the code validates -/
theorem tcgame_base_set :
    ((Gen.formatTable.find? (·.1 == "tcgame")).map fun r => (r.2.2.find? (·.field == "base")).map (·.validator)) =
      some (some (.oneOf [2, 16])) := by decide

/-! ## output files -/

/-- **A derived output name never equals the name of an input file** - the first, from which it is derived, or any other
    (finding F71, repaired). -/
theorem derived_not_an_input (f : OutFmt) (inputs : List String) (out : String) (h : deriveOutputFilename f inputs = .ok out) :
    out ∉ inputs := by
  unfold deriveOutputFilename at h
  simp only at h
  split at h
  · cases h
  · rename_i hne
    simp only [Except.ok.injEq] at h
    subst h
    simpa using hne

theorem derived_ne_input (f : OutFmt) (inputs : List String) (out : String) (h : deriveOutputFilename f inputs = .ok out)
    (hi : inputs ≠ []) : out ≠ inputs.getD 0 "" := by
  intro he
  apply derived_not_an_input f inputs out h
  rw [he]
  cases inputs with
  | nil => exact absurd rfl hi
  | cons a t => simp

/-- **when only the help or version text is asked for, no output name is derived, so none can fail to be** (finding F78,
    repaired): the groups are finished without an error -/
theorem info_only_derives_nothing (inputs : List String) (gs acc : List OutGroup) :
    ∃ r, finishGroups inputs true gs acc = .ok r := by
  induction gs generalizing acc with
  | nil => exact ⟨acc, rfl⟩
  | cons g rest ih =>
    simp only [finishGroups, Bool.not_true, Bool.and_false, Bool.false_eq_true, if_false]
    exact ih _

/-- extensions: `bin` for raw binary, `mlb` for the Mesen format, `txt` for everything else -/
theorem extension_table :
    Gen.extensions = [("Binary", "bin"), ("SymbolsMesenMlb", "mlb")] ∧ Gen.defaultExtension = "txt" := by decide

/-- default format of a group without `-f`: annotated (base 16, group 2) when printing, binary otherwise -/
theorem default_formats :
    defaultFormat true = ⟨"Annotated", [("base", 16), ("group", 2)]⟩ ∧ defaultFormat false = ⟨"Binary", []⟩ := by decide

/-- what one group contributes, independent of all other groups -/
def writeOf (bits : Bits) (spans : List Span) (g : OutGroup) : List (String × Option (List Nat)) :=
  match g.format with
  | none => []
  | some f => if g.printout then [] else match g.outFile with
    | some name => [(name, formatOutputBytes f bits spans)]
    | none => []

def printOf (g : OutGroup) : Nat :=
  match g.format with
  | none => 0
  | some _ => if g.printout then 1 else 0

/-- **Groups do not affect each other; each writes exactly one file or prints.**  Without
    write faults, the files written are the concatenation of what each group contributes on
    its own, in order. -/
theorem groups_independent (bits : Bits) (spans : List Span) (gs : List OutGroup) (o : RunOutcome) :
    runGroups bits spans [] gs o =
      { o with writes := o.writes ++ gs.flatMap (writeOf bits spans),
               prints := o.prints + (gs.map printOf).sum } := by
  induction gs generalizing o with
  | nil => simp [runGroups]
  | cons g rest ih =>
    unfold runGroups
    cases hf : g.format with
    | none =>
      simp only
      rw [ih]
      simp [writeOf, printOf, hf]
    | some f =>
      simp only
      by_cases hp : g.printout = true
      · rw [if_pos hp, ih]
        simp [writeOf, printOf, hf, hp, Nat.add_assoc]
      · rw [if_neg hp]
        cases ho : g.outFile with
        | none =>
          simp only
          rw [ih]
          simp [writeOf, printOf, hf, hp, ho]
        | some name =>
          simp only [List.contains_nil, Bool.false_eq_true, if_false]
          rw [ih]
          simp [writeOf, printOf, hf, hp, ho, List.append_assoc]

/-- a non-printing group with a file name writes exactly one file -/
theorem one_file_per_group (bits : Bits) (spans : List Span) (g : OutGroup) (f : OutFmt) (name : String)
    (hf : g.format = some f) (hp : g.printout = false) (ho : g.outFile = some name) :
    (writeOf bits spans g).length = 1 ∧ (writeOf bits spans g).map (·.1) = [name] := by
  simp [writeOf, hf, hp, ho]

/-- after `finishGroups` every non-printing group has a file name whenever there is an input (and an assembly was asked for) -/
theorem finish_names (inputs : List String) (gs acc out : List OutGroup) (hi : 1 ≤ inputs.length)
    (hacc : ∀ g ∈ acc, g.printout = false → g.outFile.isSome = true)
    (h : finishGroups inputs false gs acc = .ok out) : ∀ g ∈ out, g.printout = false → g.outFile.isSome = true := by
  induction gs generalizing acc with
  | nil => simp only [finishGroups, Except.ok.injEq] at h; subst h; exact hacc
  | cons g rest ih =>
    unfold finishGroups at h
    simp only at h
    split at h
    · split at h
      · cases h
      · rename_i name _
        apply ih _ _ h
        intro x hx hp
        rcases List.mem_append.1 hx with hx | hx
        · exact hacc x hx hp
        · simp only [List.mem_singleton] at hx; subst hx; rfl
    · rename_i hc
      apply ih _ _ h
      intro x hx hp
      rcases List.mem_append.1 hx with hx | hx
      · exact hacc x hx hp
      · simp only [List.mem_singleton] at hx; subst hx
        simp only at hp ⊢
        simp only [Bool.not_false, Bool.and_true, Bool.and_eq_true, Bool.not_eq_true', decide_eq_true_eq, not_and] at hc
        cases ho : g.outFile with
        | some _ => rfl
        | none =>
          have := hc (by simp [hp, ho])
          omega

/-- an invalid command line fails before the assembler is ever called -/
theorem parse_error_before_assembling (args : List String) (asm : Command → AsmResult) (unw : List String) (e : String)
    (h : parseCommand args = .error e) : drive args asm unw = ⟨false, [e], 0, [], 0⟩ := by
  simp [drive, h]

example : isOkE (parseOutputFormat "annotated,base:8,group:3".toList) = true := by decide
example : isOkE (parseOutputFormat "annotated,base:3".toList) = false := by decide
example : isOkE (parseOutputFormat "tcgame,base:8".toList) = false := by decide

end Casm.C18
