import Casm.Model.Assemble
import Casm.Proofs.StaticMatch
import Casm.Proofs.SwitchPass
import Casm.Props.C02
import Casm.Proofs.SwitchAsm
import Casm.Proofs.SwitchOutcome
import Casm.Proofs.SwitchFinal
/-!
# C08 — the two optimisation switches never change any result

Matcher optimisation (`Casm.matchInstr true/false`, model of `match_instr` with and without the
prefix index of `ruledef_map.rs`):

* `index_candidates_are_rules` — whatever the prefix, the index only ever proposes rules of
  top-level rule blocks; so
* `optimised_matches_are_matches` — every way an instruction matches through the index is also
  found by the full scan, and `optimised_rejects_what_full_scan_rejects`;
* `same_matches_of_index_complete` — if the index proposes every rule that matches the
  instruction (`IndexComplete`), both settings find exactly the same matches.  `IndexComplete`
  is the one fact that is *false* in general (finding F10: the index reads the leading literal
  characters without skipping blanks); `index_complete_false` is the kernel-checked witness,
  and the search attributes an observed difference to F10 only if the model says so.

Static-value optimisation (the switch guards the three "accept in the first pass, mark resolved
and never recompute" branches).  What makes those branches harmless is that the analysis
`is_value_statically_known` / `get_match_statically_known` is *sound*: what it calls statically
known really does not depend on anything that changes between passes.  That is proved here for
the model of the analysis and of the evaluator, for all expressions, rules and arguments:

* `known_expression_is_state_independent` — a statically known data element or constant
  evaluates identically (value, error text, context) in every resolver state, at every address,
  in every pass, guessing allowed or not;
* `known_match_keeps_its_result` — a match the analysis calls statically known, once it has
  resolved to a definite value, resolves to the same value in every later state (later = every
  statically known symbol that had a value keeps it; anything else — addresses, labels, other
  symbols, pass flags — may differ);
* `frozen_instruction_is_what_recomputation_chooses` — under the conditions of the short-cut
  (every candidate statically known, none unresolved, a single smallest encoding) resolving the
  instruction again in any later state chooses that same encoding.

* `evaluation_ignores_the_static_switch`, `later_passes_ignore_the_static_switch` — expression
  evaluation, candidate resolution and asm blocks never read the switch; every pass but the first
  is the same function under both settings;
* `optimised_result_is_a_solution_of_the_unoptimised_assembler` — whenever the optimised
  assembler succeeds (budget ≥ 2), the state it reads its output from, with every mark cleared, is
  a fixed point of the *unoptimised* assembler's strict pass: the unoptimised assembler, handed
  that result, recomputes every item to the same value, stable and silent;
* **`C08_static_switch`** — the statement itself, with no hypothesis on the program: for every option set
  with the optimisation on and a budget of at least two passes, every file set and every root list,
  `assemble` with and without the optimisation returns the same error or the same bits, spans and
  symbols.  It is the end of a chain: the two front ends agree up to marks
  (`the_two_front_ends_agree_up_to_marks`), the decidable facts about constants the simulation needs hold
  of every front-end result (`front_end_facts`), the two iterations run in lockstep pass by pass
  (`static_switch_pass_by_pass`, `static_switch_lockstep`), a stable pass leaves a fixed point
  (`stable_pass_leaves_a_fixed_point`), and what is emitted reads values, never marks.  The budget of one
  pass is excluded because the statement is false there (finding F29, open: without the optimisation a
  program with a forward reference cannot converge in one pass).

Stating these theorems is what exposed findings F30–F34 (each a stale frozen encoding in the
pinned tree, demonstrated on the real binary and repaired): a parameter named like a constant,
an argument read in the rule's scope, a block argument assigning a local, symbols named `pc` or
like a built-in function, a candidate still unresolved when the instruction was frozen, and F35:
the side condition the first version of these theorems carried ("no rule parameter is *named*
`incbin`, `incbinstr` or `inchexstr`") was run on the real binary, failed there too, and was
repaired; no side condition is left.  The lockstep simulation exposed two more, F36 (a constant frozen
in the first pass reported "unchanged") and F37 (`eval_simple` resolved a callee named like a built-in
through a user symbol), both repaired.
-/
namespace Casm.C08

theorem mem_allRules {defs : List Ruledef} {r i : Nat} :
    (r, i) ∈ allRules defs ↔ r < defs.length ∧ (defs.getD r default).isSub = false ∧ i < (defs.getD r default).rules.length := by
  unfold allRules
  simp only [List.mem_flatMap, List.mem_range]
  constructor
  · rintro ⟨r', hr', h⟩
    split at h
    · cases h
    · rename_i hs
      simp only [List.mem_map, List.mem_range] at h
      obtain ⟨i', hi', he⟩ := h
      injection he with h1 h2
      subst h1 h2
      exact ⟨hr', by simpa using hs, hi'⟩
  · rintro ⟨hr, hs, hi⟩
    refine ⟨r, hr, ?_⟩
    simp only [hs, Bool.false_eq_true, if_false, List.mem_map, List.mem_range]
    exact ⟨i, hi, rfl⟩

theorem entries_are_rules {defs : List Ruledef} {p : List Char} {x : Nat × Nat}
    (h : x ∈ entriesWithPrefix defs p) : x ∈ allRules defs := by
  obtain ⟨r, i⟩ := x
  unfold entriesWithPrefix at h
  simp only [List.mem_flatMap, List.mem_range] at h
  obtain ⟨r', hr', h⟩ := h
  split at h
  · cases h
  · rename_i hs
    simp only [List.mem_filterMap, List.mem_range] at h
    obtain ⟨i', hi', he⟩ := h
    split at he
    · injection he with he; injection he with h1 h2
      subst h1 h2
      exact mem_allRules.mpr ⟨hr', by simpa using hs, hi'⟩
    · cases he

/-- **the index proposes only rules of top-level blocks**, for every prefix -/
theorem index_candidates_are_rules (defs : List Ruledef) (p : List Char) (x : Nat × Nat)
    (h : x ∈ queryPrefixed defs p) : x ∈ allRules defs := by
  unfold queryPrefixed at h
  simp only [List.mem_flatMap, List.mem_range] at h
  obtain ⟨k, _, hk⟩ := h
  exact entries_are_rules hk

theorem mem_workingOf {defs : List Ruledef} {src : List Char} {cands : List (Nat × Nat)} {y : IMatch × MW} :
    y ∈ workingOf defs src cands ↔ ∃ x ∈ cands, y ∈ workingOf defs src [x] := by
  unfold workingOf
  simp only [List.mem_flatMap, List.flatMap_cons, List.flatMap_nil, List.append_nil]

/-- **every match found through the index is found by the full scan** -/
theorem optimised_matches_are_matches (defs : List Ruledef) (src : List Char) (y : IMatch × MW)
    (h : y ∈ workingOf defs src (queryPrefixed defs (parsePrefix src))) :
    y ∈ workingOf defs src (allRules defs) := by
  obtain ⟨x, hx, hy⟩ := mem_workingOf.mp h
  exact mem_workingOf.mpr ⟨x, index_candidates_are_rules defs _ x hx, hy⟩

theorem dedup_acc_prefix (l acc : List IMatch) : ∃ t, dedupMatches l acc = acc ++ t := by
  induction l generalizing acc with
  | nil => exact ⟨[], by simp [dedupMatches]⟩
  | cons m rest ih =>
    simp only [dedupMatches]
    split
    · exact ih acc
    · obtain ⟨t, ht⟩ := ih (acc ++ [m])
      exact ⟨m :: t, by rw [ht]; simp⟩

theorem selectMatches_nil (defs : List Ruledef) : selectMatches defs [] = [] := by
  simp [selectMatches, dedupMatches]

/-- **the optimisation never accepts an instruction the full scan rejects**: if no rule
    matches at all, the index finds no match either -/
theorem optimised_rejects_what_full_scan_rejects (defs : List Ruledef) (src : List Char)
    (h : workingOf defs src (allRules defs) = []) : matchInstr true defs src = [] := by
  have : workingOf defs src (queryPrefixed defs (parsePrefix src)) = [] := by
    apply List.eq_nil_iff_forall_not_mem.mpr
    intro y hy
    have := optimised_matches_are_matches defs src y hy
    rw [h] at this
    cases this
  simp [matchInstr, this, selectMatches_nil]

/-- the index proposes every rule that matches the instruction text -/
def IndexComplete (defs : List Ruledef) (src : List Char) : Prop :=
  ∀ x ∈ allRules defs, workingOf defs src [x] ≠ [] → x ∈ queryPrefixed defs (parsePrefix src)

/-- **both settings find exactly the same matches wherever the index is complete** -/
theorem same_matches_of_index_complete (defs : List Ruledef) (src : List Char) (hc : IndexComplete defs src)
    (y : IMatch × MW) :
    y ∈ workingOf defs src (queryPrefixed defs (parsePrefix src)) ↔ y ∈ workingOf defs src (allRules defs) := by
  constructor
  · exact optimised_matches_are_matches defs src y
  · intro h
    obtain ⟨x, hx, hy⟩ := mem_workingOf.mp h
    refine mem_workingOf.mpr ⟨x, hc x hx ?_, hy⟩
    intro he; rw [he] at hy; cases hy

/-! ### `IndexComplete` is false in general: finding F10 -/

/-- one block with the single rule `halt => 0x55` -/
def haltRules : List Ruledef :=
  [⟨false, [⟨[.exact 'h', .exact 'a', .exact 'l', .exact 't'], 4, [], .lit (.int ⟨0x55, some 8⟩)⟩]⟩]

/-- `h a l t` matches the rule `halt` (exact parts skip blanks) but the index, which stops at
    the first blank, does not propose it -/
theorem index_complete_false : ¬ IndexComplete haltRules "h a l t".toList := by
  intro h
  have h1 : (0, 0) ∈ allRules haltRules := by decide
  have h2 : workingOf haltRules "h a l t".toList [(0, 0)] ≠ [] := by
    intro he
    have : (workingOf haltRules "h a l t".toList [(0, 0)]).isEmpty = false := by decide
    rw [he] at this; cases this
  have h3 := h (0, 0) h1 h2
  have : (queryPrefixed haltRules (parsePrefix "h a l t".toList)).contains (0, 0) = false := by decide
  have h4 : (queryPrefixed haltRules (parsePrefix "h a l t".toList)).contains (0, 0) = true :=
    List.contains_iff_mem.mpr h3
  rw [this] at h4; cases h4

/-- …and the guard the search uses for the attribution rejects exactly this spelling, while it
    accepts `halt` -/
example : noBlankInLeadingLiteral "h a l t".toList = false := by decide
example : noBlankInLeadingLiteral "halt".toList = true := by decide
/-- without blanks the index is complete on the witness rules -/
example : (queryPrefixed haltRules (parsePrefix "halt".toList)).contains (0, 0) = true := by decide

/-! ## the static-value optimisation: soundness of the analysis -/

/-- **C08 (static switch), data elements and constants** -/
theorem known_expression_is_state_independent (st : Static) (defs1 defs2 : Defs) (ctx1 ctx2 : RCtx) (e : Expr)
    (hk : staticallyKnown pureP e = true) :
    resolverEval st defs2 ctx2 {} e = resolverEval st defs1 ctx1 {} e :=
  pure_static_eval st defs1 defs2 ctx1 ctx2 e hk

/-- **C08 (static switch), one candidate of an instruction** -/
theorem known_match_keeps_its_result (st : Static) (defsM defs1 defs2 : Defs) (ctx1 ctx2 : RCtx)
    (rel : SRel defsM defs1 defs2 ctx1 ctx2) (f fk : Nat) (m : IMatch) (v : Value) (c' : ECtx)
    (hk : matchKnown st.decls defsM ctx1.symCtx fk m = true)
    (h : resolveMatch st defs1 f ctx1 m {} = .ok (v, c')) (hv : v ≠ .unknown) :
    resolveMatch st defs2 f ctx2 m {} = .ok (v, c') :=
  ((resolve_static st defsM defs1 defs2 ctx1 ctx2 rel f).1 fk m {} v c' hk
    ⟨fun _ _ _ => rfl, fun _ _ hl _ => by cases hl⟩ h (by cases v <;> first | rfl | exact absurd rfl hv)).1

/-- **C08 (static switch), the frozen instruction** -/
theorem frozen_instruction_is_what_recomputation_chooses (st : Static) (defsM defs1 defs2 : Defs) (ctx1 ctx2 : RCtx)
    (rel : SRel defsM defs1 defs2 ctx1 ctx2) (fk : Nat) (cands : List IMatch)
    (hk : ∀ c ∈ cands, matchKnown st.decls defsM ctx1.symCtx fk c = true)
    (hd : allDefinite st defs1 ctx1 cands = true)
    (encs : List (Nat × BI)) (rep : List String)
    (h1 : resolveEncoding st defs1 evalFuel ctx1 cands {} = .ok (some encs, rep)) (hs : encs.length = 1) :
    resolveEncoding st defs2 evalFuel ctx2 cands {} = .ok (some encs, []) :=
  frozen_instruction_sound st defsM defs1 defs2 ctx1 ctx2 rel fk cands hk hd encs rep h1 hs

/-- the names the model treats as built-in inclusion functions / as the address are the ones the
    code answers before any declared symbol (`resolve_builtin_fn`, `get_statically_known_builtin_fn`
    in `resolver/eval_fn.rs`, `eval_builtin_symbol` in `resolver/eval.rs`; tables regenerated from
    the source on every run) -/
theorem builtin_names_are_the_code's :
    (∀ n, isAsmBuiltinName n = Gen.asmBuiltinFns.contains n) ∧
    Gen.asmBuiltinKnown = Gen.asmBuiltinFns.map (fun n => (n, true)) ∧ Gen.addressNames = ["$", "pc"] := by
  refine ⟨fun n => ?_, by decide, by decide⟩
  have : Gen.asmBuiltinFns = ["incbin", "incbinstr", "inchexstr"] := by decide
  rw [this]
  simp only [isAsmBuiltinName, List.contains, List.elem]
  cases (n == "incbin") <;> cases (n == "incbinstr") <;> cases (n == "inchexstr") <;> rfl

/-- **evaluation never reads the static switch** -/
theorem evaluation_ignores_the_static_switch (st : Static) (b : Bool) (d : Defs) :
    resolverEval (st.withStatic b) d = resolverEval st d :=
  resolverEval_switch st b (SameView.refl d)

/-- **every pass but the first is the same under both settings** -/
theorem later_passes_ignore_the_static_switch (st : Static) (b last : Bool) (nodes : List AstNode) (d : Defs) :
    resolveOnce (st.withStatic b) nodes false last d = resolveOnce st nodes false last d :=
  resolveOnce_switch st b last nodes d

/-- **C08 (static switch): the optimised result is a solution of the unoptimised assembler** -/
theorem optimised_result_is_a_solution_of_the_unoptimised_assembler (opts : Opts) (fs : SrcFiles) (roots : List (List Char))
    (res : AsmOk) (hb : 2 ≤ opts.maxIter) (ho : opts.optStatic = true) (h : assemble opts fs roots = .ok res) :
    ∃ st nodes defs0 d, frontEnd opts fs roots = .ok (st, nodes, defs0) ∧ Casm.C02.ReadFrom st nodes d res ∧
      resolveOnce (st.withStatic false) nodes false true d.unfreeze = .ok (d.unfreeze, true, []) := by
  obtain ⟨st, nodes, defs0, d, hf, hr, hfix⟩ := Casm.C02.success_recomputes_everything opts fs roots res hb ho h
  refine ⟨st, nodes, defs0, d, hf, hr, ?_⟩
  rw [resolveOnce_switch]
  exact hfix

/-! ### the two settings, run side by side

`st` optimises, `st.withStatic false` is the assembler started with `--debug-no-optimize-static`;
its state is `d.unfS H`: the state of the first with the first-pass marks cleared (all but the
marks `H` both set: `-d` definitions and function symbols). -/

/-- **one pass under the two settings**: the same fatal error, or the same values and messages, and
    — in every pass but the first — the same stability flag; in the first pass the unoptimised
    assembler may report a change that the optimised one does not (a frozen instruction or data
    element), never the other way round (finding F36 was the case where it did). -/
theorem static_switch_pass_by_pass (H : Nat → Bool) (st : Static) (nodes : List AstNode) (d0 : Defs) (f : FrontOK st nodes d0)
    (fs : FrontOKS st nodes d0 H) (first last : Bool) (hfl : first = true → last = false)
    (d : Defs) (g : Good st nodes d0 d) (gc : GoodC st nodes d0 d H)
    (ph : if first = true then st.opts.optStatic = true else K3 nodes d0 d) :
    match resolveOnce st nodes first last d with
    | .error e => resolveOnce (st.withStatic false) nodes first last (d.unfS H) = .error e
    | .ok (d', s, r) => GoodC st nodes d0 d' H ∧
        ∃ s2, resolveOnce (st.withStatic false) nodes first last (d.unfS H) = .ok (d'.unfS H, s2, r) ∧
          (s2 = true → s = true) ∧ (first = false → s2 = s) :=
  resolveOnce_sim H st nodes d0 f fs first last hfl d g gc ph

/-- **the two iterations in lockstep**: whenever their first passes agree on stability, the two
    assemblers return the same iteration count, the same values and messages, or the same errors
    (budget at least two) -/
theorem static_switch_lockstep (H : Nat → Bool) (st : Static) (nodes : List AstNode) (d0 : Defs)
    (f : FrontOK st nodes d0) (fs : FrontOKS st nodes d0 H) (ho : st.opts.optStatic = true) (m : Nat)
    (hagree : ∀ d1 r1, resolveOnce st nodes true false d0 = .ok (d1, true, r1) →
      resolveOnce (st.withStatic false) nodes true false (d0.unfS H) = .ok (d1.unfS H, true, r1)) :
    resolveIterativelyN (st.withStatic false) nodes (m + 2) (d0.unfS H) =
      (resolveIterativelyN st nodes (m + 2) d0).map (usFin H) :=
  resolveIterativelyN_switch_lockstep H st nodes d0 f fs ho m hagree

/-- **a successful optimised iteration is a successful unoptimised one**, with the same values and
    messages, lockstep or not (budget at least two) -/
theorem optimised_success_is_unoptimised_success (H : Nat → Bool) (st : Static) (nodes : List AstNode) (d0 : Defs)
    (f : FrontOK st nodes d0) (fs : FrontOKS st nodes d0 H) (ho : st.opts.optStatic = true) (hwf : NoClash nodes) (m : Nat)
    (k : Nat) (d : Defs) (rep : List String) (h : resolveIterativelyN st nodes (m + 2) d0 = .ok (k, d, rep)) :
    ∃ k', resolveIterativelyN (st.withStatic false) nodes (m + 2) (d0.unfS H) = .ok (k', d.unfS H, rep) :=
  resolveIterativelyN_switch_success H st nodes d0 f fs ho hwf m k d rep h

/-- **a definite value of the constant pre-pass is the resolver's value** for a statically known
    expression, in every state, at every address, in every pass (finding F37 was the case where it
    was not) -/
theorem pre_pass_value_is_the_resolver's (st : Static) (d : Decls) (defs : Defs) (e : Expr) (hk : staticallyKnown pureP e = true)
    (v : Value) (h : evalSimple d defs e = .ok v) (hv : v ≠ .unknown) :
    ∃ c, ∀ s ctx, resolverEval st s ctx {} e = .ok (v, c) :=
  evalSimple_pure st d defs e hk v h hv

/-- the decidable facts about constants imply the ones the simulation uses -/
theorem constant_facts_decided (st : Static) (nodes : List AstNode) (d0 : Defs) (h : frontOKSb st nodes d0 = true) :
    FrontOKS st nodes d0 (markedByBoth st d0) :=
  frontOKSb_sound st nodes d0 h

/-- **C08 (static switch), end to end for acceptance**: a program the optimising assembler accepts
    is accepted with `--debug-no-optimize-static`, with the same bits, spans and symbols (budget at
    least two).  `FrontRel` (the two front ends return the same declarations, nodes and values, the
    unoptimised one with the marks `markedByBoth` only) and `frontOKSb` are decidable statements
    about this input; every correspondence run evaluates them on every program (`frel` requests). -/
theorem accepted_with_the_optimisation_is_accepted_without (opts : Opts) (fs : SrcFiles) (roots : List (List Char))
    (ho : opts.optStatic = true) (hmax : 2 ≤ opts.maxIter) (hrel : FrontRel opts fs roots)
    (hS : ∀ st nodes d0, frontEnd opts fs roots = .ok (st, nodes, d0) → frontOKSb st nodes d0 = true)
    (out : AsmOk) (h : assemble opts fs roots = .ok out) :
    ∃ out', assemble opts.staticOff fs roots = .ok out' ∧
      out'.bits = out.bits ∧ out'.spans = out.spans ∧ out'.symbols = out.symbols :=
  assemble_switch_success opts fs roots ho hmax hrel hS out h

/-- **a stable pass leaves a fixed point of the guessing pass** (the one case in which the two
    iterations are not in lockstep: the optimised first pass stable, every emitting item frozen) -/
theorem stable_pass_leaves_a_fixed_point (st : Static) (first : Bool) (nodes : List AstNode) (hwf : NoClash nodes) (u : Uniq nodes)
    (d0 d1 : Defs) (r1 : List String) (hok0 : NodesOK d0 nodes)
    (h : resolveOnce st nodes first false d0 = .ok (d1, true, r1)) :
    resolveOnce st nodes false false d1 = .ok (d1, true, []) :=
  corner_resolveOnce st first nodes hwf u d0 d1 r1 hok0 h

/-- **C08 for the static switch, at the level of the iteration**: for every budget of at least two
    the two assemblers fail with the same messages or succeed with the same values and messages; only
    the iteration count may differ -/
theorem static_switch_same_outcome (H : Nat → Bool) (st : Static) (nodes : List AstNode) (d0 : Defs)
    (f : FrontOK st nodes d0) (fs : FrontOKS st nodes d0 H) (ho : st.opts.optStatic = true) (hwf : NoClash nodes)
    (u : Uniq nodes) (hok0 : NodesOK d0 nodes) (m : Nat) :
    (resolveIterativelyN (st.withStatic false) nodes (m + 2) (d0.unfS H)).map dropK =
      ((resolveIterativelyN st nodes (m + 2) d0).map (usFin H)).map dropK :=
  resolveIterativelyN_switch_outcome H st nodes d0 f fs ho hwf u hok0 m

/-- **C08 (static switch), end to end**: with `--debug-no-optimize-static` the assembler fails with
    the same messages or succeeds with the same bits, spans and symbols, for every budget of at least
    two (budget 1 is finding F29).  The three hypotheses are decidable statements about the input
    (`FrontRel`: the two front ends agree up to marks; `frontOKSb`, `frontUniqb`: facts about the front
    end's result); every correspondence run evaluates them on every program (`frel` requests). -/
theorem the_static_switch_never_changes_the_outcome (opts : Opts) (fs : SrcFiles) (roots : List (List Char))
    (ho : opts.optStatic = true) (hmax : 2 ≤ opts.maxIter) (hrel : FrontRel opts fs roots)
    (hS : ∀ st nodes d0, frontEnd opts fs roots = .ok (st, nodes, d0) → frontOKSb st nodes d0 = true ∧ frontUniqb nodes d0 = true) :
    (assemble opts.staticOff fs roots).map AsmOk.core = (assemble opts fs roots).map AsmOk.core :=
  assemble_switch_outcome opts fs roots ho hmax hrel hS

/-- the two front ends agree up to marks (the hypothesis `FrontRel` of the theorem above, proved) -/
theorem the_two_front_ends_agree_up_to_marks (opts : Opts) (ho : opts.optStatic = true) (fs : SrcFiles) (roots : List (List Char)) :
    FrontRel opts fs roots :=
  frontRel_proved opts ho fs roots

/-- the facts about the front end's result that the simulation uses (the other two hypotheses, proved) -/
theorem front_end_facts (opts : Opts) (fs : SrcFiles) (roots : List (List Char)) (st : Static) (nodes : List AstNode) (defs0 : Defs)
    (h : frontEnd opts fs roots = .ok (st, nodes, defs0)) :
    FrontOKS st nodes defs0 (markedByBoth st defs0) ∧ Uniq nodes ∧ NodesOK defs0 nodes :=
  ⟨frontEnd_frontOKS opts fs roots st nodes defs0 h, frontEnd_uniq opts fs roots st nodes defs0 h,
   frontEnd_nodesOK opts fs roots st nodes defs0 h⟩

/-- **C08, static switch — the statement of the property for the model, no hypothesis left**: for every
    program, every set of files and every budget of at least two, assembling with
    `--debug-no-optimize-static` fails with the same messages or succeeds with the same bits, spans and
    symbols as assembling without it.  (Budget 1 is finding F29; the matcher switch is
    `same_matches_of_index_complete` and finding F10.) -/
theorem C08_static_switch (opts : Opts) (fs : SrcFiles) (roots : List (List Char))
    (ho : opts.optStatic = true) (hmax : 2 ≤ opts.maxIter) :
    (assemble opts.staticOff fs roots).map AsmOk.core = (assemble opts fs roots).map AsmOk.core :=
  assemble_static_switch opts fs roots ho hmax

/-! non-vacuity: `ld {x} => 0x10 @ x`8`; `ld 5` is statically known, `ld lbl` is not (even if a
    statically known constant is called `x`: finding F30) -/
def ldRule : Rule :=
  { pattern := [], exactCount := 0, params := [("x", .unspecified)]
    expr := .bin .Concat (.lit (.int ⟨0x10, some 8⟩)) (.sliceShort (.lit (.int ⟨8, none⟩)) (.var 0 ["x"])) }
def ldDefs : Defs := { ruledefs := [⟨false, [ldRule]⟩], symbols := [some { known := true, value := .int ⟨1, none⟩ }] }
def ldDecls : Decls :=
  match (SymMgr.new "symbol").declare [] "x" 0 .constant with
  | .ok (_, m) => { symbols := m }
  | .error _ => {}

example : matchKnown ldDecls ldDefs [] 64 (.mk 0 0 [.expr (.lit (.int ⟨5, none⟩)) 0 0 []]) = true := by decide
example : matchKnown ldDecls ldDefs [] 64 (.mk 0 0 [.expr (.var 0 ["lbl"]) 0 0 []]) = false := by decide
example : matchKnown ldDecls ldDefs [] 64 (.mk 0 0 [.expr (.var 0 ["x"]) 0 0 []]) = true := by decide
example : staticallyKnown pureP (.bin .Add (.lit (.int ⟨1, none⟩)) (.call (.var 0 ["incbin"]) [.lit (.str "f".toList .utf8)])) = true := by decide
example : staticallyKnown pureP (.var 0 ["x"]) = false := by decide

end Casm.C08
