import Casm.Model.Assemble
/-!
# C08 — the two optimisation switches never change any result

Matcher optimisation (`Casm.matchInstr true/false`, model of `match_instr` with and without the
prefix index of `ruledef_map.rs`):

* `index_candidates_are_rules` — whatever the prefix, the index only ever proposes rules of
  top-level rule blocks; so
* `optimised_matches_are_matches` — every way an instruction matches through the index is also
  found by the full scan, and `optimised_rejects_what_full_scan_rejects`;
* `same_matches_of_index_complete` — if the index proposes every rule that matches the
  instruction (`IndexComplete`), both settings find exactly the same matches.  `IndexComplete`
  is the one fact that is *false* in general (finding F10: the index reads the leading literal
  characters without skipping blanks); `index_complete_false` is the kernel-checked witness,
  and the search attributes an observed difference to F10 only if the model says so.

Static-value optimisation: the switch only guards the three "accept in the first pass and mark
resolved" branches: `unoptimised_never_marks`.
-/
namespace Casm.C08

theorem mem_allRules {defs : List Ruledef} {r i : Nat} :
    (r, i) ∈ allRules defs ↔ r < defs.length ∧ (defs.getD r default).isSub = false ∧ i < (defs.getD r default).rules.length := by
  unfold allRules
  simp only [List.mem_flatMap, List.mem_range]
  constructor
  · rintro ⟨r', hr', h⟩
    split at h
    · cases h
    · rename_i hs
      simp only [List.mem_map, List.mem_range] at h
      obtain ⟨i', hi', he⟩ := h
      injection he with h1 h2
      subst h1 h2
      exact ⟨hr', by simpa using hs, hi'⟩
  · rintro ⟨hr, hs, hi⟩
    refine ⟨r, hr, ?_⟩
    simp only [hs, Bool.false_eq_true, if_false, List.mem_map, List.mem_range]
    exact ⟨i, hi, rfl⟩

theorem entries_are_rules {defs : List Ruledef} {p : List Char} {x : Nat × Nat}
    (h : x ∈ entriesWithPrefix defs p) : x ∈ allRules defs := by
  obtain ⟨r, i⟩ := x
  unfold entriesWithPrefix at h
  simp only [List.mem_flatMap, List.mem_range] at h
  obtain ⟨r', hr', h⟩ := h
  split at h
  · cases h
  · rename_i hs
    simp only [List.mem_filterMap, List.mem_range] at h
    obtain ⟨i', hi', he⟩ := h
    split at he
    · injection he with he; injection he with h1 h2
      subst h1 h2
      exact mem_allRules.mpr ⟨hr', by simpa using hs, hi'⟩
    · cases he

/-- **the index proposes only rules of top-level blocks**, for every prefix -/
theorem index_candidates_are_rules (defs : List Ruledef) (p : List Char) (x : Nat × Nat)
    (h : x ∈ queryPrefixed defs p) : x ∈ allRules defs := by
  unfold queryPrefixed at h
  simp only [List.mem_flatMap, List.mem_range] at h
  obtain ⟨k, _, hk⟩ := h
  exact entries_are_rules hk

theorem mem_workingOf {defs : List Ruledef} {src : List Char} {cands : List (Nat × Nat)} {y : IMatch × MW} :
    y ∈ workingOf defs src cands ↔ ∃ x ∈ cands, y ∈ workingOf defs src [x] := by
  unfold workingOf
  simp only [List.mem_flatMap, List.flatMap_cons, List.flatMap_nil, List.append_nil]

/-- **every match found through the index is found by the full scan** -/
theorem optimised_matches_are_matches (defs : List Ruledef) (src : List Char) (y : IMatch × MW)
    (h : y ∈ workingOf defs src (queryPrefixed defs (parsePrefix src))) :
    y ∈ workingOf defs src (allRules defs) := by
  obtain ⟨x, hx, hy⟩ := mem_workingOf.mp h
  exact mem_workingOf.mpr ⟨x, index_candidates_are_rules defs _ x hx, hy⟩

theorem dedup_acc_prefix (l acc : List IMatch) : ∃ t, dedupMatches l acc = acc ++ t := by
  induction l generalizing acc with
  | nil => exact ⟨[], by simp [dedupMatches]⟩
  | cons m rest ih =>
    simp only [dedupMatches]
    split
    · exact ih acc
    · obtain ⟨t, ht⟩ := ih (acc ++ [m])
      exact ⟨m :: t, by rw [ht]; simp⟩

theorem selectMatches_nil (defs : List Ruledef) : selectMatches defs [] = [] := by
  simp [selectMatches, dedupMatches]

/-- **the optimisation never accepts an instruction the full scan rejects**: if no rule
    matches at all, the index finds no match either -/
theorem optimised_rejects_what_full_scan_rejects (defs : List Ruledef) (src : List Char)
    (h : workingOf defs src (allRules defs) = []) : matchInstr true defs src = [] := by
  have : workingOf defs src (queryPrefixed defs (parsePrefix src)) = [] := by
    apply List.eq_nil_iff_forall_not_mem.mpr
    intro y hy
    have := optimised_matches_are_matches defs src y hy
    rw [h] at this
    cases this
  simp [matchInstr, this, selectMatches_nil]

/-- the index proposes every rule that matches the instruction text -/
def IndexComplete (defs : List Ruledef) (src : List Char) : Prop :=
  ∀ x ∈ allRules defs, workingOf defs src [x] ≠ [] → x ∈ queryPrefixed defs (parsePrefix src)

/-- **both settings find exactly the same matches wherever the index is complete** -/
theorem same_matches_of_index_complete (defs : List Ruledef) (src : List Char) (hc : IndexComplete defs src)
    (y : IMatch × MW) :
    y ∈ workingOf defs src (queryPrefixed defs (parsePrefix src)) ↔ y ∈ workingOf defs src (allRules defs) := by
  constructor
  · exact optimised_matches_are_matches defs src y
  · intro h
    obtain ⟨x, hx, hy⟩ := mem_workingOf.mp h
    refine mem_workingOf.mpr ⟨x, hc x hx ?_, hy⟩
    intro he; rw [he] at hy; cases hy

/-! ### `IndexComplete` is false in general: finding F10 -/

/-- one block with the single rule `halt => 0x55` -/
def haltRules : List Ruledef :=
  [⟨false, [⟨[.exact 'h', .exact 'a', .exact 'l', .exact 't'], 4, [], .lit (.int ⟨0x55, some 8⟩)⟩]⟩]

/-- `h a l t` matches the rule `halt` (exact parts skip blanks) but the index, which stops at
    the first blank, does not propose it -/
theorem index_complete_false : ¬ IndexComplete haltRules "h a l t".toList := by
  intro h
  have h1 : (0, 0) ∈ allRules haltRules := by decide
  have h2 : workingOf haltRules "h a l t".toList [(0, 0)] ≠ [] := by
    intro he
    have : (workingOf haltRules "h a l t".toList [(0, 0)]).isEmpty = false := by decide
    rw [he] at this; cases this
  have h3 := h (0, 0) h1 h2
  have : (queryPrefixed haltRules (parsePrefix "h a l t".toList)).contains (0, 0) = false := by decide
  have h4 : (queryPrefixed haltRules (parsePrefix "h a l t".toList)).contains (0, 0) = true :=
    List.contains_iff_mem.mpr h3
  rw [this] at h4; cases h4

/-- …and the guard the search uses for the attribution rejects exactly this spelling, while it
    accepts `halt` -/
example : noBlankInLeadingLiteral "h a l t".toList = false := by decide
example : noBlankInLeadingLiteral "halt".toList = true := by decide
/-- without blanks the index is complete on the witness rules -/
example : (queryPrefixed haltRules (parsePrefix "halt".toList)).contains (0, 0) = true := by decide

end Casm.C08
