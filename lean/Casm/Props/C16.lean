import Casm.Model.Assemble
import Casm.Proofs.AssembleLemmas
import Casm.Proofs.IfSplice
import Casm.Proofs.CondLoop
/-!
# C16 — conditional assembly and command-line defines select exactly one world

About the model of the first loop of `asm::assemble` (`resolveIfs`, `checkLeftoverIfs`,
`resolveConstantsSimple`, `checkUnusedDefines`).

* `resolveIfs_splices` — one round of `resolve_ifs` replaces, in place and in order, every
  conditional whose condition evaluates to `true` by exactly its first arm and every one whose
  condition evaluates to `false` by exactly its else-part (an `#elif` chain is the nested
  conditional in the else-part) or by nothing; everything else stays.  Hence nothing of an
  unselected arm survives (`dead_arm_dropped`).  (`AstNode.fresh` marks that spliced nodes carry
  no item reference yet — the identity on what the parser produces.)
* `leftover_conditional_is_error` — a conditional that is still there when the loop stops is
  an error, whatever its condition evaluates to.
* `define_overrides_constant` / `resolved_constant_is_kept` — a define replaces the value of the
  constant of that name and marks it resolved; the iterative resolver never re-evaluates a
  resolved constant.
* `unused_define_is_error` — a successful assembly has no unused define.
* **the whole loop** — `conditionals_are_selected_by_the_final_state`: whenever the front end succeeds, the
  node list that goes on to be assembled is (item references aside) the parsed program with every conditional,
  nested to any depth, replaced by the arm its conditions select *as evaluated in the one final state of the
  loop* (`Sel`, `selected_true_arm`, `selected_false_arm`), and no conditional is left.  The loop decides
  conditionals round by round, each in the state of its round; `decided_condition_is_stable` (a definite value
  of `eval_simple` is its value in every later state: `Casm/Proofs/EvalDefinite`, `CondStable`) and
  `every_round_leads_to_a_later_state` (names only grow: `CondNames`; a definite value is re-evaluated to itself
  or not at all: `CondValues`) make the two the same (`CondLoop.declLoop_selects`).
-/
namespace Casm.C16

/-- **one round splices exactly the selected arms, in place** -/
theorem resolveIfs_splices (d : Decls) (defs : Defs) (nodes out : List AstNode) (k : Nat)
    (h : resolveIfs d defs nodes = .ok (out, k)) : out = nodes.flatMap (spliceOne d defs) := by
  rw [resolveIfs_foldr] at h
  exact foldr_splices d defs nodes out k h

/-- a conditional whose condition is true contributes exactly its first arm — nothing of the
    else-part (which holds every `#elif`/`#else`) -/
theorem true_arm_only (d : Decls) (defs : Defs) (cond : Expr) (t : List AstNode) (f : Option (List AstNode))
    (h : evalSimple d defs cond = .ok (.bool true)) : spliceOne d defs (.ifDir cond t f) = t.map AstNode.fresh := by
  simp [spliceOne, h]

/-- …and one whose condition is false contributes exactly its else-part, or nothing -/
theorem false_arm_only (d : Decls) (defs : Defs) (cond : Expr) (t : List AstNode) (f : Option (List AstNode))
    (h : evalSimple d defs cond = .ok (.bool false)) : spliceOne d defs (.ifDir cond t f) = (f.getD []).map AstNode.fresh := by
  simp [spliceOne, h]

/-- a program that is a single decided conditional becomes its selected arm: the dead arm is gone -/
theorem dead_arm_dropped (d : Decls) (defs : Defs) (cond : Expr) (t e out : List AstNode) (k : Nat)
    (hc : evalSimple d defs cond = .ok (.bool true))
    (h : resolveIfs d defs [.ifDir cond t (some e)] = .ok (out, k)) : out = t.map AstNode.fresh := by
  rw [resolveIfs_splices d defs _ out k h]
  simp [spliceOne, hc]

/-- **a conditional that cannot be decided from constants is an error** -/
theorem leftover_conditional_is_error (d : Decls) (defs : Defs) (nodes : List AstNode) (cond : Expr) (t : List AstNode)
    (f : Option (List AstNode)) (h : AstNode.ifDir cond t f ∈ nodes) :
    ∃ m, checkLeftoverIfs d defs nodes = .error m := by
  unfold checkLeftoverIfs
  cases hf : nodes.find? (fun n => match n with | .ifDir _ _ _ => true | _ => false) with
  | none =>
    have := List.find?_eq_none.mp hf _ h
    simp at this
  | some n =>
    have hp := List.find?_some hf
    cases n with
    | ifDir c t' f' =>
      simp only
      cases evalCertain d defs c with
      | error m => exact ⟨m, rfl⟩
      | ok v => exact ⟨_, rfl⟩
    | _ => simp at hp

/-- **a define replaces the value of the constant of that name** (one constant node, one round) -/
theorem define_overrides_constant (opts : Opts) (d : Decls) (defs : Defs) (level : Nat) (name : String) (e : Expr) (ne : Bool) (r : Nat)
    (dv : String × Value)
    (hunres : (defs.sym r).resolved = false)
    (hdef : opts.defines.find? (·.1 == (d.symbols.decls.getD r default).name) = some dv) :
    resolveConstantsSimple opts d defs [.symbol level name (.constant e) ne (some r)] =
      .ok (defs.setSym r { defs.sym r with value := dv.2, resolved := true }, 1) := by
  simp only [resolveConstantsSimple, List.foldl_cons, List.foldl_nil, hunres, Bool.false_eq_true, if_false, hdef]

/-- the iterative resolver never re-evaluates a constant that is marked resolved -/
theorem resolved_constant_is_kept (st : Static) (defs : Defs) (ctx : RCtx) (r : Nat) (e : Expr)
    (h : (defs.sym r).resolved = true) : resolveConstant st defs ctx r e = .ok (defs, true, []) := by
  simp [resolveConstant, h]

/-- **a define that names no declared constant is an error** -/
theorem unused_define_is_error (opts : Opts) (fs : SrcFiles) (roots : List (List Char)) (res : AsmOk)
    (h : assemble opts fs roots = .ok res) :
    ∀ st nodes defs, frontEnd opts fs roots = .ok (st, nodes, defs) → checkUnusedDefines opts st.decls = [] := by
  intro st nodes defs hf
  unfold assemble at h
  rw [hf] at h
  simp only at h
  split at h
  · cases h
  · split at h
    · cases h
    · split at h
      · cases h
      · split at h
        · cases h
        · rename_i hu
          simpa using hu

/-! ## the whole loop -/

/-- **a condition decided once stays decided**: the value `eval_simple` gives a condition (or any expression) in
    some round is the value it gives in every later state of the loop — names that resolve keep resolving to the
    same declaration, symbols that hold a definite value keep it -/
theorem decided_condition_is_stable (d : Decls) (defs : Defs) (d' : Decls) (defs' : Defs) (h : Later d defs d' defs')
    (cond : Expr) (b : Bool) (hc : evalSimple d defs cond = .ok (.bool b)) : evalSimple d' defs' cond = .ok (.bool b) :=
  evalSimple_later d defs d' defs' h cond (.bool b) hc rfl

/-- **every round of the loop leads to a later state** (declarations are only added; a constant that holds a
    definite value is re-evaluated to that value or not at all) -/
theorem every_round_leads_to_a_later_state {opts : Opts} {d d1 : Decls} {defs defs2 : Defs} {nodes n1 : List AstNode} {cnt : Nat}
    (f : FInv opts d defs nodes) (c : CInv opts d defs nodes) (hb : Built d.symbols)
    (hc : collectAll d nodes = .ok (d1, n1))
    (hr : resolveConstantsSimple opts d1 (defineSymbols defs n1) n1 = .ok (defs2, cnt)) : Later d defs d1 defs2 :=
  (round_later f c hb hc hr).1

/-- **C16 for the whole loop.**  Whenever the front end succeeds, the node list that goes on to be assembled is —
    item references aside — the parsed program with every `#if`/`#elif`/`#else` chain, nested to any depth, replaced by
    exactly the arm that the conditions select **as evaluated in the one final state of the loop** (`Sel`); no
    conditional is left.  The loop decides conditionals round by round, each in the state of its round; that this is
    the same as deciding all of them in the final state is `decided_condition_is_stable`. -/
theorem conditionals_are_selected_by_the_final_state (opts : Opts) (fs : SrcFiles) (roots : List (List Char))
    (d : Decls) (defs : Defs) (nodes : List AstNode) (hp : frontEndPre opts fs roots = .ok (d, defs, nodes)) :
    ∃ parsed defsL nodesL, parseMany fs roots = .ok parsed ∧
      Sel d defsL (parsed.map AstNode.fresh) (nodesL.map AstNode.fresh) ∧
      (∀ n ∈ nodesL, ∀ c t f, n ≠ .ifDir c t f) ∧
      defineRemaining d defsL nodesL = .ok (defs, nodes) := by
  unfold frontEndPre at hp
  cases hpm : parseMany fs roots with
  | error e => rw [hpm] at hp; cases hp
  | ok parsed =>
    rw [hpm] at hp
    have hmap : (Except.ok parsed : Except String (List AstNode)).map (·.map AstNode.fresh) = .ok (parsed.map AstNode.fresh) := rfl
    rw [hmap] at hp
    split at hp
    · cases hp
    · rename_i nodes0 hn0
      injection hn0 with hn0
      subst hn0
      split at hp
      · cases hp
      · rename_i bm hdecl
        simp only at hp
        split at hp
        · cases hp
        · rename_i d2 defs2 nodes2 hl
          split at hp
          · cases hp
          · rename_i hleft
            split at hp
            · cases hp
            · rename_i defs3 nodes3 hdr
              injection hp with hp; injection hp with h1 h2
              injection h2 with h2 h3
              subst h1 h2 h3
              -- the invariants of the initial state: parser output carries no references, there are no slots
              have hfresh : ∀ x ∈ parsed.map AstNode.fresh, ∃ y, x = AstNode.fresh y := by
                intro x hx
                obtain ⟨y, _, rfl⟩ := List.mem_map.mp hx
                exact ⟨y, rfl⟩
              have f0 : FInv opts ({ banks := bm } : Decls) {} (parsed.map AstNode.fresh) := by
                refine ⟨fun x hx => ?_, fun a ha b hb r h1 _ => ?_, fun r hr => (by cases hr), fun n hn => ?_⟩
                · obtain ⟨y, rfl⟩ := hfresh x hx; exact KN_fresh _ y
                · obtain ⟨y, rfl⟩ := hfresh a ha; rw [symRef_fresh] at h1; cases h1
                · obtain ⟨y, rfl⟩ := hfresh n hn
                  cases y <;> first | trivial | (rename_i kd _ _; cases kd <;> trivial)
              have c0 : CInv opts ({ banks := bm } : Decls) {} (parsed.map AstNode.fresh) := by
                intro n hn
                obtain ⟨y, rfl⟩ := hfresh n hn
                exact CI_noref opts _ _ _ (symRef_fresh y)
              obtain ⟨_, hsel, hund⟩ := declLoop_selects opts _ _ _ _ _ _ _ _ f0 c0 (Built.new "symbol") hl
              refine ⟨parsed, defs2, nodes2, rfl, ?_, ?_, hdr⟩
              · rw [map_fresh_fresh] at hsel; exact hsel
              · intro n hn c t f he
                subst he
                obtain ⟨m, hm⟩ := leftover_conditional_is_error d2 defs2 nodes2 c t f hn
                rw [hm] at hleft
                cases hleft

theorem no_self_arm (c : Expr) (t : List AstNode) (f : Option (List AstNode)) : t ≠ [AstNode.ifDir c t f] := by
  intro h
  have := congrArg sizeOf h
  simp at this
  omega

/-- what `Sel` says of one conditional: if the final state decides its condition true, exactly the selection of its
    first arm is there — nothing of the else-part… -/
theorem selected_true_arm (d : Decls) (defs : Defs) (c : Expr) (t : List AstNode) (f : Option (List AstNode)) (o : List AstNode)
    (hc : evalSimple d defs c = .ok (.bool true)) (h : SelNode d defs (.ifDir c t f) o) : Sel d defs (t.map AstNode.fresh) o := by
  cases h with
  | yes _ hs => exact hs
  | no hf _ => rw [hc] at hf; cases hf
  | keep hk =>
    exfalso
    simp only [spliceOne, hc] at hk
    obtain ⟨a, ha, hfa⟩ : ∃ a, t = [a] ∧ a.fresh = AstNode.ifDir c t f := by
      cases t with
      | nil => cases hk
      | cons a rest =>
        cases rest with
        | nil => simp only [List.map_cons, List.map_nil, List.cons.injEq, and_true] at hk; exact ⟨a, rfl, hk⟩
        | cons b r => simp at hk
    have : a = AstNode.ifDir c t f := by
      cases a <;> first | exact hfa | cases hfa
    rw [this] at ha
    exact no_self_arm c t f ha

/-- …and if it decides the condition false, exactly the selection of the else-part (every `#elif`/`#else`), or nothing -/
theorem selected_false_arm (d : Decls) (defs : Defs) (c : Expr) (t : List AstNode) (f : Option (List AstNode)) (o : List AstNode)
    (hc : evalSimple d defs c = .ok (.bool false)) (h : SelNode d defs (.ifDir c t f) o) :
    Sel d defs ((f.getD []).map AstNode.fresh) o := by
  cases h with
  | yes ht _ => rw [hc] at ht; cases ht
  | no _ hs => exact hs
  | keep hk =>
    exfalso
    simp only [spliceOne, hc] at hk
    obtain ⟨a, ha, hfa⟩ : ∃ a, f.getD [] = [a] ∧ a.fresh = AstNode.ifDir c t f := by
      cases hq : f.getD [] with
      | nil => rw [hq] at hk; cases hk
      | cons a rest =>
        rw [hq] at hk
        cases rest with
        | nil => simp only [List.map_cons, List.map_nil, List.cons.injEq, and_true] at hk; exact ⟨a, rfl, hk⟩
        | cons b r => simp at hk
    have : a = AstNode.ifDir c t f := by
      cases a <;> first | exact hfa | cases hfa
    rw [this] at ha
    cases f with
    | none => cases ha
    | some e =>
      simp only [Option.getD_some] at ha
      have := congrArg sizeOf ha
      simp at this
      omega

/-- `Sel` at work: `#if true { #if false { A } #else { B } }` selects `B` and nothing else, in every state -/
example (d : Decls) (defs : Defs) :
    Sel d defs [.ifDir (.lit (.bool true)) [.ifDir (.lit (.bool false)) [.once] (some [.include []])] none] [.include []] := by
  have e1 : (AstNode.include []).fresh = .include [] := rfl
  have inner : Sel d defs ([AstNode.include []].map AstNode.fresh) [.include []] := by
    have := Sel.cons (d := d) (defs := defs) (SelNode.keep (n := .include []) rfl) Sel.nil
    simpa [e1] using this
  have mid : SelNode d defs (.ifDir (.lit (.bool false)) [.once] (some [.include []])) [.include []] :=
    SelNode.no (c := .lit (.bool false)) rfl inner
  have outer : Sel d defs ([AstNode.ifDir (.lit (.bool false)) [.once] (some [.include []])].map AstNode.fresh) [.include []] := by
    have := Sel.cons mid (Sel.nil (d := d) (defs := defs))
    simpa [fresh_ifDir] using this
  have := Sel.cons (SelNode.yes (c := .lit (.bool true)) (f := none) rfl outer) (Sel.nil (d := d) (defs := defs))
  simpa using this

/-- **every define names a declared constant** whenever the check for unused defines passes (finding F46, repaired:
    a label or a function of that name used to satisfy it) -/
theorem every_define_names_a_constant (opts : Opts) (d : Decls) (h : checkUnusedDefines opts d = []) :
    ∀ dv ∈ opts.defines, ∃ r, d.symbols.tryGetByName [] 0 ((splitOnChar '.' dv.1.toList).map String.ofList) = some r ∧
      (d.symbols.decls.getD r default).kind = .constant := by
  intro dv hdv
  unfold checkUnusedDefines at h
  have hnone := List.filterMap_eq_nil_iff.mp h dv hdv
  simp only at hnone
  cases hr : d.symbols.tryGetByName [] 0 ((splitOnChar '.' dv.1.toList).map String.ofList) with
  | none => rw [hr] at hnone; cases hnone
  | some r =>
    rw [hr] at hnone
    refine ⟨r, rfl, ?_⟩
    cases hk : (d.symbols.decls.getD r default).kind <;> simp only [hk] at hnone <;> first | rfl | cases hnone

end Casm.C16
