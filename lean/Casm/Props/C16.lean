import Casm.Model.Assemble
import Casm.Proofs.AssembleLemmas
/-!
# C16 — conditional assembly and command-line defines select exactly one world

About the model of the first loop of `asm::assemble` (`resolveIfs`, `checkLeftoverIfs`,
`resolveConstantsSimple`, `checkUnusedDefines`).

* `resolveIfs_splices` — one round of `resolve_ifs` replaces, in place and in order, every
  conditional whose condition evaluates to `true` by exactly its first arm and every one whose
  condition evaluates to `false` by exactly its else-part (an `#elif` chain is the nested
  conditional in the else-part) or by nothing; everything else stays.  Hence nothing of an
  unselected arm survives (`dead_arm_dropped`).  (`AstNode.fresh` marks that spliced nodes carry
  no item reference yet — the identity on what the parser produces.)
* `leftover_conditional_is_error` — a conditional that is still there when the loop stops is
  an error, whatever its condition evaluates to.
* `define_overrides_constant` / `resolved_constant_is_kept` — a define replaces the value of the
  constant of that name and marks it resolved; the iterative resolver never re-evaluates a
  resolved constant.
* `unused_define_is_error` — a successful assembly has no unused define.
-/
namespace Casm.C16

/-- what one round does with one node -/
def spliceOne (d : Decls) (defs : Defs) (n : AstNode) : List AstNode :=
  match n with
  | .ifDir cond t f =>
    match evalSimple d defs cond with
    | .ok (.bool true) => t.map AstNode.fresh
    | .ok (.bool false) => (f.getD []).map AstNode.fresh
    | _ => [n]
  | _ => [n]

/-- the step of `resolveIfs` (as a right fold) -/
def ifStep (d : Decls) (defs : Defs) (n : AstNode) (acc : Except String (List AstNode × Nat)) : Except String (List AstNode × Nat) :=
  match acc with
  | .error e => .error e
  | .ok (out, count) =>
    match n with
    | .ifDir cond t f =>
      match evalSimple d defs cond with
      | .error m => .error m
      | .ok (.bool true) => .ok (t.map AstNode.fresh ++ out, count + 1)
      | .ok (.bool false) => .ok ((f.getD []).map AstNode.fresh ++ out, count + 1)
      | .ok _ => .ok (n :: out, count)
    | _ => .ok (n :: out, count)

theorem resolveIfs_foldr (d : Decls) (defs : Defs) (nodes : List AstNode) :
    resolveIfs d defs nodes = nodes.foldr (ifStep d defs) (.ok ([], 0)) := by
  unfold resolveIfs
  rw [List.foldl_reverse]
  rfl

theorem foldr_splices (d : Decls) (defs : Defs) (nodes : List AstNode) (out : List AstNode) (k : Nat)
    (h : nodes.foldr (ifStep d defs) (.ok ([], 0)) = .ok (out, k)) :
    out = nodes.flatMap (spliceOne d defs) := by
  induction nodes generalizing out k with
  | nil => simp only [List.foldr_nil] at h; injection h with h; injection h with h1 _; simp [← h1]
  | cons n rest ih =>
    simp only [List.foldr_cons] at h
    cases hr : rest.foldr (ifStep d defs) (.ok ([], 0)) with
    | error e => rw [hr] at h; simp [ifStep] at h
    | ok x =>
      obtain ⟨out', k'⟩ := x
      have ih' := ih out' k' hr
      rw [hr] at h
      simp only [List.flatMap_cons, ← ih']
      unfold ifStep at h
      simp only at h
      unfold spliceOne
      split at h
      · rename_i cond t f
        split at h
        · cases h
        · rename_i he; injection h with h; injection h with h1 _; simp [he, ← h1]
        · rename_i he; injection h with h; injection h with h1 _; simp [he, ← h1]
        · rename_i v hv1 hv2 he
          injection h with h; injection h with h1 _
          rw [← h1]
          split
          · rename_i he'; rw [he] at he'; injection he' with he'; exact absurd he' (hv1 ·)
          · rename_i he'; rw [he] at he'; injection he' with he'; exact absurd he' (hv2 ·)
          · rfl
      · injection h with h; injection h with h1 _
        rw [← h1]
        rfl

/-- **one round splices exactly the selected arms, in place** -/
theorem resolveIfs_splices (d : Decls) (defs : Defs) (nodes out : List AstNode) (k : Nat)
    (h : resolveIfs d defs nodes = .ok (out, k)) : out = nodes.flatMap (spliceOne d defs) := by
  rw [resolveIfs_foldr] at h
  exact foldr_splices d defs nodes out k h

/-- a conditional whose condition is true contributes exactly its first arm — nothing of the
    else-part (which holds every `#elif`/`#else`) -/
theorem true_arm_only (d : Decls) (defs : Defs) (cond : Expr) (t : List AstNode) (f : Option (List AstNode))
    (h : evalSimple d defs cond = .ok (.bool true)) : spliceOne d defs (.ifDir cond t f) = t.map AstNode.fresh := by
  simp [spliceOne, h]

/-- …and one whose condition is false contributes exactly its else-part, or nothing -/
theorem false_arm_only (d : Decls) (defs : Defs) (cond : Expr) (t : List AstNode) (f : Option (List AstNode))
    (h : evalSimple d defs cond = .ok (.bool false)) : spliceOne d defs (.ifDir cond t f) = (f.getD []).map AstNode.fresh := by
  simp [spliceOne, h]

/-- a program that is a single decided conditional becomes its selected arm: the dead arm is gone -/
theorem dead_arm_dropped (d : Decls) (defs : Defs) (cond : Expr) (t e out : List AstNode) (k : Nat)
    (hc : evalSimple d defs cond = .ok (.bool true))
    (h : resolveIfs d defs [.ifDir cond t (some e)] = .ok (out, k)) : out = t.map AstNode.fresh := by
  rw [resolveIfs_splices d defs _ out k h]
  simp [spliceOne, hc]

/-- **a conditional that cannot be decided from constants is an error** -/
theorem leftover_conditional_is_error (d : Decls) (defs : Defs) (nodes : List AstNode) (cond : Expr) (t : List AstNode)
    (f : Option (List AstNode)) (h : AstNode.ifDir cond t f ∈ nodes) :
    ∃ m, checkLeftoverIfs d defs nodes = .error m := by
  unfold checkLeftoverIfs
  cases hf : nodes.find? (fun n => match n with | .ifDir _ _ _ => true | _ => false) with
  | none =>
    have := List.find?_eq_none.mp hf _ h
    simp at this
  | some n =>
    have hp := List.find?_some hf
    cases n with
    | ifDir c t' f' =>
      simp only
      cases evalCertain d defs c with
      | error m => exact ⟨m, rfl⟩
      | ok v => exact ⟨_, rfl⟩
    | _ => simp at hp

/-- **a define replaces the value of the constant of that name** (one constant node, one round) -/
theorem define_overrides_constant (opts : Opts) (d : Decls) (defs : Defs) (level : Nat) (name : String) (e : Expr) (ne : Bool) (r : Nat)
    (dv : String × Value)
    (hunres : (defs.sym r).resolved = false)
    (hdef : opts.defines.find? (·.1 == (d.symbols.decls.getD r default).name) = some dv) :
    resolveConstantsSimple opts d defs [.symbol level name (.constant e) ne (some r)] =
      .ok (defs.setSym r { defs.sym r with value := dv.2, resolved := true }, 1) := by
  simp only [resolveConstantsSimple, List.foldl_cons, List.foldl_nil, hunres, Bool.false_eq_true, if_false, hdef]

/-- the iterative resolver never re-evaluates a constant that is marked resolved -/
theorem resolved_constant_is_kept (st : Static) (defs : Defs) (ctx : RCtx) (r : Nat) (e : Expr)
    (h : (defs.sym r).resolved = true) : resolveConstant st defs ctx r e = .ok (defs, true, []) := by
  simp [resolveConstant, h]

/-- **a define that names no declared constant is an error** -/
theorem unused_define_is_error (opts : Opts) (fs : SrcFiles) (roots : List (List Char)) (res : AsmOk)
    (h : assemble opts fs roots = .ok res) :
    ∀ st nodes defs, frontEnd opts fs roots = .ok (st, nodes, defs) → checkUnusedDefines opts st.decls = [] := by
  intro st nodes defs hf
  unfold assemble at h
  rw [hf] at h
  simp only at h
  split at h
  · cases h
  · split at h
    · cases h
    · split at h
      · cases h
      · split at h
        · cases h
        · rename_i hu
          simpa using hu

end Casm.C16
