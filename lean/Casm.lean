import Casm.Model.Bits
import Casm.Proofs.BitsLemmas
import Casm.Model.Parse
