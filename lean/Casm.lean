import Casm.Model.Bits
import Casm.Proofs.BitsLemmas
