import Casm.Model.Bits
import Casm.Model.Show
import Casm.Model.OutFormat
/-! casm-model: answers the line protocol from the Lean model's executable definitions. -/
open Casm

def showOptNat : Option Nat → String
  | some n => toString n
  | none => "-"

def showBI (b : BI) : String := s!"{b.v} {showOptNat b.size}"

def parseTy : String → Option Ty
  | "u" => some .u | "s" => some .s | "i" => some .i | _ => none

def parseOptNat (s : String) : Option (Option Nat) :=
  if s == "-" then some none else s.toNat?.map some

def step (line : String) : String :=
  match line.trimAscii.toString.splitOn " " with
  | ["arg", t, n, v] =>
    match parseTy t, n.toNat?, v.toInt? with
    | some t, some n, some v =>
      match checkArg t n v with
      | some b => s!"ok {showBI b}"
      | none => "rej"
    | _, _, _ => "bad-op"
  | ["dat", n, v, sz] =>
    match parseOptNat n, v.toInt?, parseOptNat sz with
    | some n, some v, some sz =>
      match dataElem n ⟨v, sz⟩ with
      | .ok b => s!"ok {showBI b}"
      | .error .outOfRange => "err outOfRange"
      | .error .noDefiniteSize => "err noDefiniteSize"
    | _, _, _ => "bad-op"
  | ["expr", t] =>
    match parseExprText (unhexText t) with
    | .error e => s!"parse-err {e}"
    | .ok (e, rest) =>
      let over := (dropLB rest).isEmpty
      let r := match eval dummyEnv [] e with
        | .ok (v, _) => s!"ok {showValue v}"
        | .error m => s!"err {m}"
      s!"{showExpr e} | {over} | {r}"
  | ["tok", t] =>
    let toks := tokenize (unhexText t)
    " ".intercalate (toks.map fun tk =>
      let len := if tk.kind == .Error then (Gen.errorTokenLen.getD (utf8Len tk.text)) else utf8Len tk.text
      s!"{Gen.tokKindName tk.kind}:{len}")
  | ["lit", t] =>
    match excerptAsBigint (unhexText t) with
    | .ok b => s!"ok {showBI' b}"
    | .error .invalidDigits => "err invalid digits"
    | .error .invalidValue => "err invalid value"
    | .error .empty => "panic"
  | ["ofmt", t] =>
    match parseOutputFormat (unhexText t) with
    | .ok f => s!"ok {showOutFmt f}"
    | .error e => s!"err {e}"
  | ["fmt", t, bits, spans] =>
    match parseOutputFormat (unhexText t) with
    | .error e => s!"err {e}"
    | .ok f =>
      let bs : Bits := if bits == "-" then [] else bits.toList.map (· == '1')
      let sp : List Span := if spans == "-" then [] else
        (spans.splitOn ",").map fun s =>
          match s.splitOn ":" with
          | [o, z] => ⟨o.toNat?, z.toNat?.getD 0⟩
          | _ => ⟨none, 0⟩
      match formatOutputBytes f bs sp with
      | some bytes => s!"out {hexOfBytes bytes}"
      | none => "unsupported"
  | _ => "bad-op"

partial def loop (h : IO.FS.Stream) (out : IO.FS.Stream) : IO Unit := do
  let line ← h.getLine
  if line.isEmpty then return ()
  out.putStrLn (step line)
  loop h out

def main (args : List String) : IO Unit := do
  let out ← IO.getStdout
  match args with
  | [path] =>
    let contents ← IO.FS.readFile path
    for line in contents.splitOn "\n" do
      if !line.isEmpty then out.putStrLn (step line)
  | _ => loop (← IO.getStdin) out
