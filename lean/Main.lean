import Casm.Model.Bits
import Casm.Model.Show
import Casm.Model.OutFormat
import Casm.Model.Layout
import Casm.Model.CharCounter
import Casm.Model.FileNav
import Casm.Model.Driver
import Casm.Model.Assemble
import Casm.Model.Listing
/-! casm-model: answers the line protocol from the Lean model's executable definitions. -/
open Casm

def showOptNat : Option Nat → String
  | some n => toString n
  | none => "-"

def showBI (b : BI) : String := s!"{b.v} {showOptNat b.size}"

def parseTy : String → Option Ty
  | "u" => some .u | "s" => some .s | "i" => some .i | _ => none

def parseOptNat (s : String) : Option (Option Nat) :=
  if s == "-" then some none else s.toNat?.map some

def optNat (s : String) : Option Nat := if s == "-" then none else s.toNat?

def parseBank (s : String) : Option Bank :=
  match s.splitOn ":" with
  | [a, u, la, sz, o, f] =>
    match a.toInt?, u.toNat? with
    | some a, some u => some ⟨a, u, optNat la, optNat sz, optNat o, f == "1"⟩
    | _, _ => none
  | _ => none

def parseRItem (s : String) : Option RItem :=
  match s.toList with
  | 'b' :: r => (String.ofList r).toNat?.map .bank
  | 'l' :: r => (String.ofList r).toNat?.map fun d => .label d 0
  | 'e' :: r => some (.emit (r.map (· == '1')))
  | 'r' :: r => (String.ofList r).toNat?.map .res
  | 'a' :: r => (String.ofList r).toNat?.map .align
  | 'd' :: r => (String.ofList r).toInt?.map .addr
  | 'c' :: r => (String.ofList r).toNat?.map .const
  | ['o'] => some .other
  | _ => none

def showLayErr : LayErr → String
  | .bankOverlap => "bankOverlap" | .defaultBank => "defaultBank" | .outOfRange => "outOfRange"
  | .nonWritable => "nonWritable" | .overlap => "overlap" | .misaligned => "misaligned"
  | .valueRange => "valueRange" | .badBank => "badBank"

def showBits (bs : List Bool) : String := if bs.isEmpty then "-" else String.ofList (bs.map fun b => if b then '1' else '0')

def showSpans (sp : List OSpan) : String :=
  if sp.isEmpty then "-" else
  ",".intercalate (sp.map fun s => s!"{match s.offset with | some o => toString o | none => "n"}:{s.size}:{s.addr}")

def parseBIField (s : String) : BI :=
  match s.splitOn ":" with
  | [v, z] => ⟨v.toInt?.getD 0, optNat z⟩
  | _ => default

def parseValField (s : String) : Option Value :=
  match s.toList with
  | ['u'] => some .unknown
  | ['v'] => some .void
  | ['x'] => some (.failed "")
  | ['h'] => none
  | ['b', '1'] => some (.bool true)
  | ['b', '0'] => some (.bool false)
  | ['o'] => some (.builtin "")
  | 'i' :: r => some (.int (parseBIField (String.ofList r)))
  | 'f' :: r => (String.ofList r).toNat?.map .fn
  | 's' :: r =>
    match (String.ofList r).splitOn ":" with
    | [h, e] => (encOfName e).map fun enc => .str (unhexText h) enc
    | _ => none
  | _ => none

def listField (s : String) : List String := if s == "-" then [] else s.splitOn ","

mutual
def showIMatch : IMatch → String
  | .mk d r a => s!"M({d},{r},[{showIArgs a}])"
def showIArgs : List IArg → String
  | [] => ""
  | x :: xs => showIArg x ++ ";" ++ showIArgs xs
def showIArg : IArg → String
  | .expr e s t x => s!"E({reprStr e},{s},{t},{String.ofList x})"
  | .nested m s t x => s!"N({showIMatch m},{s},{t},{String.ofList x})"
end

/-- a printed form of everything the front end returns (two results are equal iff their prints are) -/
def frontFp (x : Static × List AstNode × Defs) : String :=
  let (st, nodes, d) := x
  let ins := d.instrs.map fun i =>
    s!"I([{";".intercalate (i.cands.map fun c => s!"{showIMatch c.m}/{c.known}/{c.size}")}],{i.known},{reprStr i.encoding},{i.resolved})"
  "|".intercalate [reprStr nodes, reprStr d.symbols, reprStr d.banks, reprStr d.ruledefs, reprStr d.fns, toString ins,
    reprStr d.datas, reprStr d.res, reprStr d.aligns, reprStr d.addrs, reprStr st.decls.banks, reprStr st.decls.ruledefs,
    reprStr st.decls.symbols, String.ofList st.rootFile, reprStr st.files,
    s!"{st.opts.maxIter}/{st.opts.optStatic}/{st.opts.optMatcher}/{reprStr st.opts.defines}"]

def parseAsmFields (fields : List String) : Option (Opts × SrcFiles × List (List Char)) :=
  match fields with
  | maxIter :: optS :: optM :: defsField :: nroots :: _nfiles :: rest =>
    match maxIter.toNat?, nroots.toNat? with
    | some mi, some nr =>
      let defines : List (String × Value) := if defsField == "-" then [] else
        (defsField.splitOn ",").filterMap fun d =>
          match d.splitOn "=" with
          | [n, v] =>
            let name := String.ofList (unhexText n)
            if v == "t" then some (name, .bool true)
            else if v == "f" then some (name, .bool false)
            else ((String.ofList (v.toList.drop 1)).toInt?).map fun i => (name, Value.int ⟨i, none⟩)
          | _ => none
      let rec pairs : List String → List (List Char × List Nat)
        | n :: c :: r => (unhexText n, if c == "-" then [] else unhexBytes c.toList) :: pairs r
        | _ => []
      let files := pairs rest
      some ({ maxIter := mi, optStatic := optS == "1", optMatcher := optM == "1", defines := defines }, files, (files.take nr).map (·.1))
    | _, _ => none
  | _ => none

def step (line : String) : String :=
  match line.trimAscii.toString.splitOn " " with
  | ["arg", t, n, v] =>
    match parseTy t, n.toNat?, v.toInt? with
    | some t, some n, some v =>
      match checkArg t n v with
      | some b => s!"ok {showBI b}"
      | none => "rej"
    | _, _, _ => "bad-op"
  | ["dat", n, v, sz] =>
    match parseOptNat n, v.toInt?, parseOptNat sz with
    | some n, some v, some sz =>
      match dataElem n ⟨v, sz⟩ with
      | .ok b => s!"ok {showBI b}"
      | .error .outOfRange => "err outOfRange"
      | .error .noDefiniteSize => "err noDefiniteSize"
    | _, _, _ => "bad-op"
  | ["expr", t] =>
    match parseExprText (unhexText t) with
    | .error e => s!"parse-err {e}"
    | .ok (e, rest) =>
      let over := (skipIgnorable rest).isEmpty
      let r := match eval dummyEnv {} e with
        | .ok (v, _) => s!"ok {showValue v}"
        | .error m => s!"err {m}"
      s!"{showExpr e} | {over} | {r}"
  | ["tok", t] =>
    let toks := tokenize (unhexText t)
    " ".intercalate (toks.map fun tk =>
      let len := if tk.kind == .Error then (Gen.errorTokenLen.getD (utf8Len tk.text)) else utf8Len tk.text
      s!"{Gen.tokKindName tk.kind}:{len}")
  | ["lit", t] =>
    match excerptAsBigint (unhexText t) with
    | .ok b => s!"ok {showBI' b}"
    | .error .invalidDigits => "err invalid digits"
    | .error .invalidValue => "err invalid value"
    | .error .empty => "panic"
  | ["ofmt", t] =>
    match parseOutputFormat (unhexText t) with
    | .ok f => s!"ok {showOutFmt f}"
    | .error e => s!"err {e}"
  | ["fmt", t, bits, spans] =>
    match parseOutputFormat (unhexText t) with
    | .error e => s!"err {e}"
    | .ok f =>
      let bs : Bits := if bits == "-" then [] else bits.toList.map (· == '1')
      let sp : List Span := if spans == "-" then [] else
        (spans.splitOn ",").map fun s =>
          match s.splitOn ":" with
          | [o, z] => ⟨o.toNat?, z.toNat?.getD 0⟩
          | _ => ⟨none, 0⟩
      match formatOutputBytes f bs sp with
      | some bytes => s!"out {hexOfBytes bytes}"
      | none => "unsupported"
  | ["ovl", hist] =>
    let ps : List (Nat × Nat) := if hist == "-" then [] else
      (hist.splitOn ",").filterMap fun s =>
        match s.splitOn ":" with
        | [p, z] => match p.toNat?, z.toNat? with
          | some p, some z => some (p, z)
          | _, _ => none
        | _ => none
    -- accept/reject per step, continuing after a rejection as the harness does
    let rec go (es : List OEntry) (l : List (Nat × Nat)) (acc : List Char) : List Char :=
      match l with
      | [] => acc.reverse
      | (p, z) :: rest =>
        match checkAndInsert es p z with
        | some es' => go es' rest ('a' :: acc)
        | none => go es rest ('r' :: acc)
    String.ofList (go [] ps [])
  | ["lay", banks, items] =>
    let bs : List Bank := defaultBank :: (if banks == "-" then [] else (banks.splitOn ",").filterMap parseBank)
    let its : List RItem := if items == "-" then [] else (items.splitOn ",").filterMap parseRItem
    match resolveLabels bs (initIter bs) its [] with
    | .error e => s!"err {showLayErr e}"
    | .ok its' =>
      match buildOutput bs its' with
      | .error e => s!"err {showLayErr e}"
      | .ok out => s!"ok {showBits out.bits} {showSpans out.spans}"
  | ["lc", t, idx, ln] =>
    let s := unhexText t
    match idx.toNat?, ln.toNat? with
    | some i, some l =>
      let (line, col) := lineColAtIndex s i
      let (a, b) := indexRangeOfLine s l
      let ex := match getExcerpt s a b with
        | some cs => hexOfChars cs
        | none => "panic"
      s!"{line} {col} {a} {b} {lineCount s} {ex}"
    | _, _ => "bad-op"
  | ["nav", c, r] =>
    match filenameNavigate (unhexText c) (unhexText r) with
    | .ok p => s!"ok {hexOfChars p}"
    | .error .invalidFilename => "err invalid filename"
    | .error .outOfProject => "err cannot navigate out of project directory"
  | "inc" :: root :: files =>
    -- files: name_hex=op;op;...  with ops i<rel_hex> | o | m<k>
    let fs : Files := files.filterMap fun f =>
      match f.splitOn "=" with
      | [n, ops] =>
        let os : List FOp := (if ops == "" then [] else ops.splitOn ";").filterMap fun o =>
          match o.toList with
          | 'i' :: r => some (.include (unhexText (String.ofList r)))
          | ['o'] => some .once
          | 'm' :: r => (String.ofList r).toNat?.map .marker
          | _ => none
        some (unhexText n, os)
      | _ => none
    -- several root files (comma separated) share the `#once` set, like `parse_many_and_resolve_includes`
    let roots := (root.splitOn ",").map unhexText
    let rec goRoots (rs : List (List Char)) (once : List (List Char)) (acc : List Nat) : Except IncErr (List Nat) :=
      match rs with
      | [] => .ok acc
      | r :: rest =>
        match expandFile fs (expandFuel fs) r [] once with
        | .error e => .error e
        | .ok (ms, once') => goRoots rest once' (acc ++ ms)
    match goRoots roots [] [] with
    | .ok ms => s!"ok {" ".intercalate (ms.map toString)}"
    | .error .notFound => "err notFound"
    | .error (.nav .invalidFilename) => "err invalid filename"
    | .error (.nav .outOfProject) => "err cannot navigate out of project directory"
    | .error .recursive => "err recursive"
    | .error .fuel => "err fuel"
  | ["incbin", bytes, args, start, size] =>
    let bs := if bytes == "-" then [] else unhexBytes bytes.toList
    match args.toNat?, start.toNat?, size.toNat? with
    | some a, some s, some z =>
      match incbinRange bs a s z with
      | .ok r => s!"ok {hexOfBytes r}"
      | .error .startsAfterEof => "err startsAfterEof"
      | .error .endsAfterEof => "err endsAfterEof"
      | .error .invalidChar => "err invalidChar"
    | _, _, _ => "bad-op"
  | ["incstr", k, text, args, start, size] =>
    match k.toNat?, args.toNat?, start.toNat?, size.toNat? with
    | some k, some a, some s, some z =>
      match incstrDigits k (unhexText text) with
      | .error _ => "err invalidChar"
      | .ok ds =>
        match incstrRange ds a s z with
        | .ok r => s!"ok {" ".intercalate (r.map toString)}"
        | .error .startsAfterEof => "err startsAfterEof"
        | .error .endsAfterEof => "err endsAfterEof"
        | .error .invalidChar => "err invalidChar"
    | _, _, _, _ => "bad-op"
  | "drv" :: mode :: unw :: argv =>
    -- stand-in assembler for the fixed program family of the driver checks:
    --   good:  `val = 5` / `#d8 val, 0x34`   (a define of `val` replaces 5; any other define is unused -> error)
    --   bad:   a program with one error
    let args := "customasm" :: argv.map fun a => String.ofList (unhexText a)
    let unwritable := if unw == "-" then [] else (unw.splitOn ",").map fun a => String.ofList (unhexText a)
    let asm : Command → AsmResult := fun cmd =>
      if mode != "good" then .failed 1
      else if cmd.defines.any (fun d => d.1 != "val") then .failed 1
      else
        let v : Option Int := match cmd.defines.filter (·.1 == "val") |>.getLast? with
          | some (_, .int v _) => some v
          | some (_, .bool _) => none
          | none => some 5
        match v with
        | some v =>
          -- every further input file is `#d8 0x56`
          let extra := (List.range (cmd.inputs.length - 1)).flatMap fun _ => toBitsMSB 8 0x56
          let espans : List Span := (List.range (cmd.inputs.length - 1)).map fun i => ⟨some (16 + 8 * i), 8⟩
          if 0 ≤ v ∧ v < 256 then .output (toBitsMSB 8 v.toNat ++ toBitsMSB 8 0x34 ++ extra) ([⟨some 0, 8⟩, ⟨some 8, 8⟩] ++ espans) else .failed 1
        | none => .failed 1
    let o := drive args asm unwritable
    let ws := if o.writes.isEmpty then "-" else ",".intercalate (o.writes.map fun (n, d) =>
      s!"{hexOfChars n.toList}:{match d with | some bs => hexOfBytes bs | none => "?"}")
    s!"ok={o.ok} err={match o.errors.head? with | some e => hexOfChars e.toList | none => "-"} asmerr={o.asmErrors} writes={ws} prints={o.prints}"
  | ["parse", t] =>
    match parseFile (unhexText t) with
    | .ok ns => "ok" ++ showNodes ns
    | .error e => s!"err {e}"
  | "asm" :: maxIter :: optS :: optM :: defsField :: nroots :: nfiles :: rest =>
    match maxIter.toNat?, nroots.toNat?, nfiles.toNat? with
    | some mi, some nr, some _ =>
      let defines : List (String × Value) := if defsField == "-" then [] else
        (defsField.splitOn ",").filterMap fun d =>
          match d.splitOn "=" with
          | [n, v] =>
            let name := String.ofList (unhexText n)
            if v == "t" then some (name, .bool true)
            else if v == "f" then some (name, .bool false)
            else ((String.ofList (v.toList.drop 1)).toInt?).map fun i => (name, Value.int ⟨i, none⟩)
          | _ => none
      let rec pairs : List String → List (List Char × List Nat)
        | n :: c :: r => (unhexText n, if c == "-" then [] else unhexBytes c.toList) :: pairs r
        | _ => []
      let files := pairs rest
      let roots := (files.take nr).map (·.1)
      let opts : Opts := { maxIter := mi, optStatic := optS == "1", optMatcher := optM == "1", defines := defines }
      match assemble opts files roots with
      | .ok r =>
        let syms := if r.symbols.isEmpty then "-" else ",".intercalate (r.symbols.map fun (n, b) => s!"{n}={b.v}:{showSize b.size}")
        s!"ok {showBits r.bits} {showSpans r.spans} iters={r.iters} syms={syms}"
      | .error msgs => s!"err {msgs.headD "?"}"
    | _, _, _ => "bad-op"
  | "lst" :: kind :: p1 :: p2 :: bitsF :: spansF :: filesF :: _ =>
    -- lst <annotated|tcgame|addrspan> <base> <group> <bits|-> <off:size:addr:file:start:end,...|-> <namehex=contenthex,...|->
    let files : List (List Char × List Char) := (listField filesF).filterMap fun f =>
      match f.splitOn "=" with
      | [n, c] => some (unhexText n, if c == "-" then [] else unhexText c)
      | _ => none
    let bits : Bits := if bitsF == "-" then [] else bitsF.toList.map (· == '1')
    let spans : List LSpan := (listField spansF).filterMap fun sp =>
      match sp.splitOn ":" with
      | [o, sz, a, fi, st, en] =>
        let (fname, ftext) := files.getD (fi.toNat?.getD 0) ([], [])
        let st := st.toNat?.getD 0
        let en := en.toNat?.getD 0
        let (ls, cs) := lineColAtIndex ftext st
        let (le, ce) := lineColAtIndex ftext en
        some { offset := o.toNat?, size := sz.toNat?.getD 0, addr := a.toInt?.getD 0,
               excerpt := (getExcerpt ftext st en).getD "<excerpt-panic>".toList, file := fname, loc := some (ls, cs, le, ce) }
      | _ => none
    let base := p1.toNat?.getD 16
    let group := p2.toNat?.getD 2
    match kind with
    | "annotated" => hexOfChars (formatAnnotated base group bits spans)
    | "tcgame" => hexOfChars (formatTcgame base group bits spans)
    | "addrspan" => hexOfChars (formatAddrspan spans)
    | _ => "bad-op"
  | "lsy" :: kind :: rowsF :: _ =>
    -- lsy <symbols|mesen> <namehex:c|l:value:(-|addrstart/unit/outp|addrstart/unit/n),...|->
    let rows : List SymRow := (listField rowsF).filterMap fun r =>
      match r.splitOn ":" with
      | [n, k, v, b] =>
        let bank : Option (Int × Nat × Option Nat) := if b == "-" then none else
          match b.splitOn "/" with
          | [a0, u, o] => some (a0.toInt?.getD 0, u.toNat?.getD 8, o.toNat?)
          | _ => none
        some ⟨unhexText n, k == "c", v.toInt?.getD 0, bank⟩
      | _ => none
    let t := if kind == "symbols" then formatSymbols rows else formatMesen rows
    if t.isEmpty then "-" else hexOfChars t
  | "mdiff" :: "asm" :: fields =>
    match parseAsmFields fields with
    | some (opts, files, roots) =>
      match matcherDiff opts files roots with
      | .ok (n, g) => s!"mdiff {n} {g}"
      | .error m => s!"err {m.headD "?"}"
    | none => "bad-op"
  | "inner" :: n :: "asm" :: fields =>
    -- the assembler with the budget of `asm`-block loops pinned to `n`, whatever the outer budget (attribution of F38)
    match parseAsmFields fields, n.toNat? with
    | some (opts0, files, roots), some k =>
      let opts : Opts := { opts0 with innerIter := some k }
      match assemble opts files roots with
      | .ok r =>
        let syms := if r.symbols.isEmpty then "-" else ",".intercalate (r.symbols.map fun (n, b) => s!"{n}={b.v}:{showSize b.size}")
        s!"ok {showBits r.bits} {showSpans r.spans} iters={r.iters} syms={syms}"
      | .error msgs => s!"err {msgs.headD "?"}"
    | _, _ => "bad-op"
  | "frel" :: "asm" :: fields =>
    -- the hypotheses of `assemble_switch_success`, evaluated on this input: the relation of the two front ends
    -- (`FrontRel`, compared through a printed form of everything they return) and `frontOKSb`
    match parseAsmFields fields with
    | some (opts0, files, roots) =>
      let opts : Opts := { opts0 with optStatic := true }
      let on := frontEnd opts files roots
      let off := frontEnd opts.staticOff files roots
      match on, off with
      | .error e, .error e' => if e == e' then "frel same-error" else s!"frel DIFFERENT errors {e.headD "?"} / {e'.headD "?"}"
      | .ok (st, nodes, d0), .ok y =>
        let want := (st.withStatic false, nodes, d0.unfS (markedByBoth st d0))
        let rel := frontFp want == frontFp y
        let oks := frontOKSb st nodes d0 && frontUniqb nodes d0
        if rel && oks then "frel related oks" else s!"frel FAILS related={rel} oks={oks}"
      | .ok _, .error e => s!"frel DIFFERENT ok / {e.headD "?"}"
      | .error e, .ok _ => s!"frel DIFFERENT {e.headD "?"} / ok"
    | none => "bad-op"
  | "cert" :: sy :: ins :: dat :: res :: ali :: adr :: "asm" :: fields =>
    match parseAsmFields fields with
    | some (opts, files, roots) =>
      let dump : StateDump :=
        ⟨(listField sy).map parseValField, (listField ins).map parseBIField, (listField dat).map parseBIField,
         (listField res).map (·.toNat?.getD 0), (listField ali).map (·.toNat?.getD 0), (listField adr).map (·.toInt?.getD 0)⟩
      match certify opts files roots dump with
      | .ok _ => "fixed-point"
      | .error m => s!"not-fixed-point {m}"
    | none => "bad-op"
  | _ => "bad-op"

partial def loop (h : IO.FS.Stream) (out : IO.FS.Stream) : IO Unit := do
  let line ← h.getLine
  if line.isEmpty then return ()
  out.putStrLn (step line)
  loop h out

def main (args : List String) : IO Unit := do
  let out ← IO.getStdout
  match args with
  | [path] =>
    let contents ← IO.FS.readFile path
    for line in contents.splitOn "\n" do
      if !line.isEmpty then out.putStrLn (step line)
  | _ => loop (← IO.getStdin) out
