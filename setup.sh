#!/bin/sh
# MANIFEST.setup_cmd: build the framework from files on disk only (offline).
set -e
cd "$(dirname "$0")"
export CARGO_NET_OFFLINE=true
mkdir -p .cache evidence replays
python3 tools/gen_tables.py
( cd lean && lake build Casm casm-model )
( cd harness && CARGO_TARGET_DIR=../.cache/target RUSTFLAGS="--cfg hlorenzi_customasm_verif -Awarnings" cargo build --release --offline )
echo "setup ok"
