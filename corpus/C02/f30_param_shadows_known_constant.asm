#ruledef
{
    ld {x} => 0x10 @ x`8
    jmp {a} => { assert(a < 0x10), 0x20 @ a`8 }
    jmp {a} => 0x30 @ a`16
}
x = 1
jmp far
back:
ld back
far:
