#ruledef
{
    ld {x: u7}  => 0x01 @ 0b0 @ x
    ld {x: u16} => 0x02 @ x

    use {x: u2}  => 0b101000 @ x
    use {x: u16} => 0xb0 @ x
}

first:
.k = 1
    #d8 0xff
    ld fwd
base = 0
.k = $
    use .k
fwd:
