#ruledef
{
    jmp {a} => { assert(a < 0x80), 0x01 @ a`8 }
    jmp {a} => 0x02 @ a`16

    here {v} => { assert($ < 3), 0xa0 @ v`8 }
    here {v} => 0xb0 @ v`16
}

jmp fwd
mid:
here 7
fwd:
