#ruledef
{
    emit {v} => 0x10 @ pc`8
    jmp {a} => { assert(a < 0x10), 0x20 @ a`8 }
    jmp {a} => 0x30 @ a`16
}
pc = 5
jmp far
emit 1
far:
