; C02 demo A: a jump with a statically-known absolute form (3 bytes) and a
; position-dependent relative form (2 bytes, uses `$`, limited range).
; The jump follows an instruction whose size shrinks once a forward label
; is known, so in the first pass the jump's own address is guessed one byte
; too high -- exactly enough to push the relative form out of range.

#ruledef
{
    nop => 0xea

    ; variable-size branch: 2 bytes when the target fits in 8 bits, else 3
    br {t: u8}  => 0x01 @ t
    br {t: u16} => 0x02 @ t

    ; absolute form, 3 bytes, value depends only on the argument
    jmp {addr: u16} => 0x10 @ addr

    ; relative form, 2 bytes, value depends on the current address `$`
    jmp {addr} =>
    {
        rel = addr - $ - 2
        assert(rel >= -8 && rel <= 7)
        0x20 @ rel`8
    }
}

br end      ; guessed as 3 bytes in pass 1, really 2 bytes
nop
nop
nop
nop
jmp 0       ; really at address 6: rel = 0 - 6 - 2 = -8, just in range -> 20 f8
            ; (pass 1 guesses address 7: rel = -9, out of range)
end:        ; = 8
