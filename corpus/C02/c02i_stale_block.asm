#ruledef
{
    jmp {a} => { assert(a < 0x80), 0x01 @ a`8 }
    jmp {a} => 0x02 @ a`16

    chk => { assert(mid < 3), 0xaa }
    chk => 0xbb @ 0xcc
}

jmp fwd
mid:
chk
fwd:
#d8 mid
