#fn f(x) => x
a = true
#if a {
  b = 1
  c = f
}
#d8 b
