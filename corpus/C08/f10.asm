#ruledef test
{
    halt => 0x55
    add.w {x: u8} => 0x66 @ x
}
h a l t
add .w 1
