#subruledef f
{
    cur => cur
}
#fn cur() => $
#ruledef
{
    emit {incbin: f} => 0x10 @ incbin()`8
    jmp {a} => { assert(a < 0x10), 0x20 @ a`8 }
    jmp {a} => 0x30 @ a`16
}
jmp far
emit cur
far:
