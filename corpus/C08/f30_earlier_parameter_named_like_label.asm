#ruledef
{
    ld {x}, {y} => 0x10 @ x`8 @ y`8
    jmp {a} => { assert(a < 0x10), 0x20 @ a`8 }
    jmp {a} => 0x30 @ a`16
}
jmp far
x:
ld 1, x
far:
