#ruledef
{
    emit {v} => { incbin = cur, 0x10 @ incbin()`8 }
    jmp {a} => { assert(a < 0x10), 0x20 @ a`8 }
    jmp {a} => 0x30 @ a`16
}
#fn cur() => $
incbin = 5
jmp far
emit 1
far:
