#ruledef
{
    ld {v} => (big != 0 ? 0x10 : 0x300000) @ v`8
    ld {v} => 0x2000 @ v`8
}
ld 5
big = incbin("main.asm")
