; A sub-rule without parameters whose production is not a fixed value:
; `back` stands for the address of the global label `mid`.
#subruledef target
{
    back => mid`8
}

#ruledef
{
    ld {x} => { assert(x < 0x10), 0x1 @ x`4 }
    ld {x} => 0xff @ x`16
    jmp {t: target} => 0x20 @ t
}

start:
    ld fwd      ; first pass: `fwd` unknown, long form assumed (3 bytes)
mid:            ; first pass: address 3, afterwards: address 1
    jmp back
fwd:
