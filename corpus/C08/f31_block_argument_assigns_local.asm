#ruledef
{
    ld {x}, {y} => 0x10 @ y`8
    jmp {a} => { assert(a < 0x10), 0x20 @ a`8 }
    jmp {a} => 0x30 @ a`16
}
t = 1
jmp far
ld {t = $
 0}, t
far:
