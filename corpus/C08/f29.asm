#ruledef test
{
    halt => 0x55
}
halt
