#ruledef
{
    {x: u8} => 0xaa @ x
    {s: u16}, {n: u8} => 0xbb @ s @ n
    {x: u8} emit => 0xcc @ x
}
k = 3
"A"
"AB", k
"D" + 1 emit
5
(2 + 3)
