; Same idea with the current address: the parameterless sub-rule `here`
; yields `$`, which moves once the earlier instruction shrinks.
#subruledef place
{
    here => $`8
}

#ruledef
{
    ld {x} => { assert(x < 0x10), 0x1 @ x`4 }
    ld {x} => 0xff @ x`16
    mark {p: place} => 0x30 @ p
}

    ld fwd
    mark here
fwd:
