incbin = le
y = incbin(0x1234)
#d16 y
