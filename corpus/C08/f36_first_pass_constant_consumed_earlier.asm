#res x
x = incbin("main.asm")[3:0]
