#ruledef
{
    emit {x} => x`8
}
    emit (0x10 + (1))
