#ruledef
{
    jmp {a: u8} => 0xee @ a
    nop => 0x00
    twice {t} => asm {
        label:
        nop
        jmp {t}
        jmp label
    }
}
nop
nop
nop
label:
nop
label_x1:
nop
jmp label
jmp label_x1
