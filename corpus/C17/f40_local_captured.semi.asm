#ruledef
{
    emit {x} => x`8
    test2 {a}, {y} => asm { emit {a} }
    test1 {x} => {
        y = 0x10 + x
        asm { test2 {y}, 5 }
    }
}
    test2 (0x10 + (1)), 5
