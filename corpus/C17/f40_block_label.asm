#ruledef
{
    emit {x} => x`8
    test2 {a} => asm { emit {a} }
    test1 => asm {
        emit 1
      lbl:
        test2 lbl
    }
}
    emit 9
    test1
lbl:
    emit 7
