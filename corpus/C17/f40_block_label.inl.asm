#ruledef
{
    emit {x} => x`8
}
    emit 9
    emit 1
lbl_x1:
    emit lbl_x1
lbl:
    emit 7
