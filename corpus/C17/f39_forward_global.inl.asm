#ruledef
{
    emit {x} => x`8
}
    emit 9
    emit 1
    emit lbl
    emit lbl
lbl:
    emit 7
