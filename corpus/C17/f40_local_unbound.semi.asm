#ruledef
{
    emit {x} => x`8
    test2 {x} => asm { emit {x} }
    test1 {x} => {
        y = 0x10 + x
        asm { test2 {y} }
    }
}
    test2 (0x10 + (1))
