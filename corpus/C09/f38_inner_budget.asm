#ruledef
{
    nop => 0x00
    ref {x} => 0xcc @ x`8
    pair {x}, {addr} => 0xdd @ x`8 @ addr`8
    gr {x} => { assert(x < 8), 0xa1 }
    gr {x} => { assert(x >= 8), 0xa2a2 }
    sh {x} => { assert(x < 2), 0xb2b2 }
    sh {x} => { assert(x >= 2), 0xb1 }
    gg {x} => { assert(x < 6), 0xc1 }
    gg {x} => { assert(x >= 6), 0xc2c2c2 }
    blk0 {a} => asm {
        sh m3
        gr m2
      m1:
        gg m3
      m2:
      m3:
    }
}
    nop
    gr end
start:
    blk0 3
end:
