; Same shape as demo_res_pad.asm, plus an #assert (which makes the resolver
; use up the whole budget, so every budget ends on an in-loop strict pass).
#ruledef
{
    ld {v: u8}  => 0xa0 @ v
    ld {v: u16} => 0xb0 @ v
}

#res body_len
body:
    ld k
    ld k
body_end:

#assert body_end >= body

body_len = body_end - body
k = $ - $ + 7
