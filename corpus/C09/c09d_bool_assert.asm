#ruledef test
{
    ld => far ? 0xaabb : 0xcc
}

    ld
far = dist > 4
dist = end + 0
    #d8 1, 2, 3, 4
end:
#assert end >= 4
