; A header that reserves as many bytes as the code section is long.
; The length of the code section is only known after the variable-size
; instruction in it has picked its short form.
#ruledef
{
    ld {v: u8}  => 0xa0 @ v
    ld {v: u16} => 0xb0 @ v
}

header:
    #res code_len
code_start:
    ld count
code_end:

code_len = code_end - code_start
count = $ - $ + 1
