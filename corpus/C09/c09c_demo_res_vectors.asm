; A vector area that is made exactly as large as the routine following it.
; `ld msg_len` can only pick its short form in the second pass (msg_len is
; defined at the end of the file), so `routine_end - routine` shrinks from
; 4 to 3 one pass after the `#res` above it was first given a size.
#ruledef
{
    ld {v: u8}  => 0xa0 @ v
    ld {v: u16} => 0xb0 @ v
    ret         => 0xff
}

vectors:
    #res routine_end - routine
routine:
    ld msg_len
    ret
routine_end:

msg:
    #d "hello"
msg_end:

msg_len = msg_end - msg
