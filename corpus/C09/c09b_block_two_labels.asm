; C09 demo B: an `asm` block with two local labels and forward references.
;
; Inside the block, per inner pass p (l1/l2 are the block's labels):
;   `ref l1` is a fixed-size forward reference (sees l1 of pass p-1)
;   `a l2`   grows from 1 to 2 bytes once l2 >= 4 (forward reference)
;   `b l1`   shrinks from 2 to 1 bytes once l1 >= 4 (backward reference)
;
;   pass 1: l1 = 0, l2 = 2
;   pass 2: l1 = 3, l2 = 5      value cc00 a1   b2b2
;   pass 3: l1 = 4, l2 = 5      value cc03 a2a2 b1    (l1 moved, l2 did not)
;   pass 4: l1 = 4, l2 = 5      value cc04 a2a2 b1    (fixed point)
;
; The only fixed point is cc04a2a2b1.

#ruledef
{
    ref {x} => 0xcc @ x`8

    a {x} => { assert(x <  4), 0xa1 }
    a {x} => { assert(x >= 4), 0xa2a2 }

    b {x} => { assert(x <  4), 0xb2b2 }
    b {x} => { assert(x >= 4), 0xb1 }

    blk => asm {
        ref l1
        a l2
      l1:
        b l1
      l2:
    }
}

start:
    blk
end:
